// C01 / C02 — SHA-2 glue of src/hashing/sha2/mod.rs (child module of crate::hashing::sha2): Engine256 / Engine512 and the six contexts.
//
// Abstract state of an engine:  alpha = (chaining value h, processed_bytes, pending = buffer[..buffer_idx]),
// representation invariant     :  buffer_idx < N  and  processed_bytes mod N == buffer_idx   (N = 64 / 128).
// Every harness starts from an ARBITRARY state satisfying the invariant (so all message lengths < 2^61 resp. 2^125 and
// every chaining value are covered by one step) and runs ONE engine/context operation.  The compression function
// `impl256::digest_block` / `impl512::digest_block` is replaced by a loop-free recorder that logs (chaining value in,
// data pointer, data length, the block if it is exactly one block, chaining value out) and returns an ARBITRARY chaining
// value; the asserted call sequence is the one FIPS 180-4 prescribes, hence the result holds for every compression function.
//   contract of the recorded kernel (decided elsewhere / by c01_sha512_digest_block_loop for the 64-bit one):
//   digest_block(h, b0 ++ b1 ++ ..) == fold of the single-block compression over consecutive N-byte blocks.
// Natively (replay) the real kernels run; the twin blocks compare the real chaining value with the same fold of the
// crate's kernel over the specification's padded tail.
#![allow(dead_code, unused_imports, unused_variables, unused_macros, missing_docs, static_mut_refs)]
use super::*;
use crate::cryptoutil::verif_hash_fb::{blocks_of, fb_addr, fb_buf, fb_idx, mk_fb};
use crate::hashing::verif_hash::*;
use crate::verif_lib::*;

// ------------------------------------------------------------------------------------------------ recorders
pub(crate) const NL: usize = 3;
macro_rules! rec_at {
    ($ptr:ident, $len:ident, $hin:ident, $hout:ident, $blk:ident, $bs:expr, $block:ident, $state:ident, $out:ident, $k:expr) => {{
        $ptr[$k] = $block.as_ptr() as usize;
        $len[$k] = $block.len();
        $hin[$k] = *$state;
        $hout[$k] = $out;
        if let Ok(a) = <&[u8; $bs]>::try_from($block) {
            $blk[$k] = *a;
        }
    }};
}
macro_rules! recorder {
    ($rec:ident, $recj:ident, $kj:ident, $kbyte:ident, $w:ty, $bs:expr, $n:ident, $ptr:ident, $len:ident, $hin:ident, $hout:ident, $blk:ident, $reset:ident) => {
        pub(crate) static mut $n: usize = 0;
        pub(crate) static mut $ptr: [usize; NL] = [0; NL];
        pub(crate) static mut $len: [usize; NL] = [0; NL];
        pub(crate) static mut $hin: [[$w; 8]; NL] = [[0; 8]; NL];
        pub(crate) static mut $hout: [[$w; 8]; NL] = [[0; 8]; NL];
        pub(crate) static mut $blk: [[u8; $bs]; NL] = [[0u8; $bs]; NL];
        #[cfg(kani)]
        pub(crate) fn $rec(state: &mut [$w; 8], block: &[u8]) {
            let out: [$w; 8] = kani::any();
            unsafe {
                if $n == 0 {
                    rec_at!($ptr, $len, $hin, $hout, $blk, $bs, block, state, out, 0);
                } else if $n == 1 {
                    rec_at!($ptr, $len, $hin, $hout, $blk, $bs, block, state, out, 1);
                } else if $n == 2 {
                    rec_at!($ptr, $len, $hin, $hout, $blk, $bs, block, state, out, 2);
                }
                $n += 1;
            }
            *state = out;
        }
        /// same, but only the byte at position $kj (chosen by the harness) of a one-block argument is recorded: a block copy
        /// through a pointer with symbolic offset costs one symbolic read per byte; the input step asserts one symbolic position
        pub(crate) static mut $kj: usize = 0;
        pub(crate) static mut $kbyte: [u8; NL] = [0; NL];
        #[cfg(kani)]
        pub(crate) fn $recj(state: &mut [$w; 8], block: &[u8]) {
            let out: [$w; 8] = kani::any();
            unsafe {
                let b = if $kj < block.len() { block[$kj] } else { 0 };
                if $n < NL {
                    $ptr[$n] = block.as_ptr() as usize;
                    $len[$n] = block.len();
                    $hin[$n] = *state;
                    $hout[$n] = out;
                    $kbyte[$n] = b;
                }
                $n += 1;
            }
            *state = out;
        }
        pub(crate) fn $reset() {
            unsafe {
                $n = 0;
            }
        }
    };
}
recorder!(digest_block256_rec, digest_block256_rec_j, R32_J, R32_BYTE, u32, 64, R32_N, R32_PTR, R32_LEN, R32_HIN, R32_HOUT, R32_BLK, r32_reset);
recorder!(digest_block512_rec, digest_block512_rec_j, R64_J, R64_BYTE, u64, 128, R64_N, R64_PTR, R64_LEN, R64_HIN, R64_HOUT, R64_BLK, r64_reset);

fn h256(e: &eng256::Engine) -> [u32; 8] {
    let mut b = [0u8; 32];
    e.output_256bits_at(&mut b);
    let mut h = [0u32; 8];
    let mut i = 0;
    while i < 8 {
        h[i] = ((b[4 * i] as u32) << 24) | ((b[4 * i + 1] as u32) << 16) | ((b[4 * i + 2] as u32) << 8) | (b[4 * i + 3] as u32);
        i += 1;
    }
    h
}
fn h512(e: &eng512::Engine) -> [u64; 8] {
    let mut b = [0u8; 64];
    e.output_512bits_at(&mut b);
    let mut h = [0u64; 8];
    let mut i = 0;
    while i < 8 {
        let mut w = 0u64;
        let mut j = 0;
        while j < 8 {
            w = (w << 8) | (b[8 * i + j] as u64);
            j += 1;
        }
        h[i] = w;
        i += 1;
    }
    h
}
fn eq8<T: PartialEq + Copy>(a: &[T; 8], b: &[T; 8]) -> bool {
    let mut ok = true;
    let mut i = 0;
    while i < 8 {
        ok &= a[i] == b[i];
        i += 1;
    }
    ok
}

pub(crate) fn mk_e256(h: [u32; 8], processed: u64, buffer: [u8; 64], idx: usize, finished: bool) -> Engine256 {
    Engine256 { processed_bytes: processed as _, buffer: mk_fb(buffer, idx), state: eng256::Engine::new(&h), finished }
}
pub(crate) fn mk_e256_nf(h: [u32; 8], processed: u64, buffer: [u8; 64], idx: usize) -> Engine256 {
    mk_e256(h, processed, buffer, idx, false)
}
pub(crate) fn mk_e256_anyfin(h: [u32; 8], processed: u64, buffer: [u8; 64], idx: usize) -> Engine256 {
    let finished: bool = any();
    mk_e256(h, processed, buffer, idx, finished)
}
pub(crate) fn mk_e512(h: [u64; 8], processed: u128, buffer: [u8; 128], idx: usize) -> Engine512 {
    Engine512 { processed_bytes: processed as _, buffer: mk_fb(buffer, idx), state: eng512::Engine::new(&h) }
}

// ------------------------------------------------------------------------------------------------ finish / input steps
/// specification: the padded tail (at most two blocks) for `idx` pending bytes; returns (block 0, block 1, number of blocks)
fn spec_tail<const BS: usize>(buffer: &[u8; BS], idx: usize, lw: usize, lenbytes: &[u8; 16]) -> ([u8; BS], [u8; BS], usize) {
    let t = md_tail_len(idx, BS, lw);
    let mut b0 = [0u8; BS];
    let mut b1 = [0u8; BS];
    let mut p = 0;
    while p < BS {
        b0[p] = md_tail_byte(p, idx, t, lw, buffer[p], lenbytes);
        b1[p] = if t > BS { md_tail_byte(BS + p, idx, t, lw, 0, lenbytes) } else { 0 };
        p += 1;
    }
    (b0, b1, if t == BS { 1 } else { 2 })
}

// the two engines differ in word type, block size, length-field width: one macro, two expansions
macro_rules! engine_cases {
    ($m:ident, $eng:ident, $w:ty, $bs:expr, $lw:expr, $cnt:ty, $limit:expr, $lenfn:ident, $mk:ident, $mkf:ident, $geth:ident, $kernel:path,
     $reset:ident, $n:ident, $ptr:ident, $len:ident, $hin:ident, $hout:ident, $blk:ident, $kj:ident, $kbyte:ident) => {
        pub(crate) mod $m {
            use super::*;
            pub(crate) struct Arb {
                pub h: [$w; 8],
                pub buffer: [u8; $bs],
                pub idx: usize,
                pub processed: $cnt,
            }
            /// an arbitrary engine state satisfying the representation invariant (drawn in this order)
            pub(crate) fn arb() -> Arb {
                let h: [$w; 8] = any();
                let buffer: [u8; $bs] = any();
                let idx: usize = any();
                let processed: $cnt = any();
                assume(idx < $bs && (processed & ($bs - 1)) as usize == idx && processed < $limit);
                Arb { h, buffer, idx, processed }
            }
            pub(crate) fn mk(a: &Arb) -> $eng {
                $mk(a.h, a.processed, a.buffer, a.idx)
            }
            /// as mk, but the `finished` flag of the 32-bit engine is arbitrary too (drawn here)
            pub(crate) fn mk_anyfin(a: &Arb) -> $eng {
                $mkf(a.h, a.processed, a.buffer, a.idx)
            }
            pub(crate) fn finish_covers(a: &Arb) {
                vcover!(a.idx == $bs - $lw - 1 && a.processed > 0xffff_ffff_ffff, "0x80 and the length field fill the block exactly; high length bytes in use");
                vcover!(a.idx == $bs - $lw, "length field does not fit: second block");
                vcover!(a.idx == 0 && a.processed == 0, "empty message");
            }
            /// what finish() must have done (Kani: recorded call sequence; native: real chaining value); returns the
            /// chaining value the digest has to be serialised from
            pub(crate) fn check_finish(a: &Arb, e: &$eng) -> [$w; 8] {
                let last = check_finish_calls(a);
                vassert!(eq8(&$geth(&e.state), &last), "finish: final chaining value is the result of the last compression");
                last
            }
            /// the compressions finish() must have made; returns the chaining value they end in
            pub(crate) fn check_finish_calls(a: &Arb) -> [$w; 8] {
                let lenbytes = $lenfn(a.processed);
                let (t0, t1, nb) = spec_tail::<$bs>(&a.buffer, a.idx, $lw, &lenbytes);
                #[cfg(kani)]
                unsafe {
                    vassert!($n == nb, "finish: one compression per block of the padded tail (1, or 2 when the length field does not fit)");
                    let mut k = 0;
                    while k < 2 {
                        if k < nb {
                            vassert!($len[k] == $bs, "finish: the compression function is applied to exactly one block");
                            let mut j = 0;
                            while j < $bs {
                                let e = if k == 0 { t0[j] } else { t1[j] };
                                vassert!($blk[k][j] == e, "finish: padded tail == pending ++ 0x80 ++ zeros ++ big-endian bit length (FIPS 180-4 5.1)");
                                j += 1;
                            }
                        }
                        k += 1;
                    }
                    vassert!(eq8(&$hin[0], &a.h), "finish: first compression starts from the current chaining value");
                    if nb == 2 {
                        vassert!(eq8(&$hin[1], &$hout[0]), "finish: second compression chains on the first");
                    }
                    if nb == 2 {
                        $hout[1]
                    } else {
                        $hout[0]
                    }
                }
                #[cfg(not(kani))]
                {
                    let mut hs = a.h;
                    for k in 0..nb {
                        $kernel(&mut hs, if k == 0 { &t0 } else { &t1 });
                    }
                    hs
                }
            }
            pub(crate) fn case_finish() {
                let a = arb();
                finish_covers(&a);
                vcover!(a.idx == $bs - 1, "only the 0x80 byte fits");
                let mut e = mk(&a);
                $reset();
                e.finish();
                let _ = check_finish(&a, &e);
            }
            /// alpha(e) == alpha(new(iv))
            pub(crate) fn is_new(e: &$eng, iv: &[$w; 8]) -> bool {
                eq8(&$geth(&e.state), iv) && e.processed_bytes == 0 && fb_idx(&e.buffer) == 0
            }
            /// alpha(e) == (h, processed, pending)
            pub(crate) fn same_alpha(x: &$eng, y: &$eng) -> bool {
                let (bx, by) = (fb_buf(&x.buffer), fb_buf(&y.buffer));
                let n = fb_idx(&x.buffer);
                let mut ok = eq8(&$geth(&x.state), &$geth(&y.state)) && x.processed_bytes == y.processed_bytes && n == fb_idx(&y.buffer);
                let mut j = 0;
                while j < $bs {
                    if j < n {
                        ok &= bx[j] == by[j];
                    }
                    j += 1;
                }
                ok
            }
            /// input() step: data length 0..=MAX
            pub(crate) fn case_input<const MAX: usize>() {
                let a = arb();
                let data = Bytes::<MAX>::any();
                let j: usize = any(); // "for every byte position": one symbolic position instead of a loop (see hash_fixedbuf.rs)
                assume(j < $bs);
                let len = data.len;
                let (idx, buffer) = (a.idx, a.buffer);
                vcover!(len == 0, "empty input");
                vcover!(idx > 0 && idx + len == $bs - 1, "partial buffer stays one byte short of a block");
                vcover!(idx > 0 && idx + len == 2 * $bs + 1, "top-up AND a direct block AND a one-byte tail in one call");
                vcover!(idx == 0 && len == $bs, "exactly one block straight from the input");
                let mut e = mk(&a);
                let base = data.buf.as_ptr() as usize;
                let fbaddr = fb_addr(&e.buffer);
                $reset();
                unsafe {
                    $kj = j;
                }
                e.input(&data.buf[..len]);

                let total = idx + len;
                let nblk = blocks_of::<$bs>(total);
                vassert!((e.processed_bytes as u128) == (a.processed + (len as $cnt)) as u128, "input: processed_bytes += input length"); // (casts: the check must still compile if the counter type is changed)
                let nidx = total - nblk * $bs;
                vassert!(fb_idx(&e.buffer) == nidx, "input: buffer fill == stream length mod block size");
                let nbuf = fb_buf(&e.buffer);
                if j < nidx {
                    let k = nblk * $bs + j;
                    let s = if k < idx { buffer[k] } else { data.buf[k - idx] };
                    vassert!(nbuf[j] == s, "input: buffer holds the incomplete tail of pending ++ input");
                }
                #[cfg(kani)]
                unsafe {
                    vassert!($n <= 2, "input: at most two applications of the compression function (topped-up buffer, direct blocks)");
                    let mut pos = 0usize; // stream position consumed so far
                    let mut hprev = a.h;
                    let mut k = 0;
                    while k < 2 {
                        if k < $n {
                            vassert!(eq8(&$hin[k], &hprev), "input: compressions are chained, starting from the current chaining value");
                            hprev = $hout[k];
                            if $ptr[k] == fbaddr {
                                vassert!($len[k] == $bs, "input: the internal buffer is compressed as one full block");
                                let q = pos + j;
                                let s = if q < idx { buffer[q] } else { data.buf[q - idx] };
                                vassert!($kbyte[k] == s, "input: compressed buffer == next block of pending ++ input");
                            } else {
                                vassert!(pos >= idx && $ptr[k] == base + (pos - idx), "input: direct blocks are the next bytes of the stream");
                                vassert!($len[k] > 0 && ($len[k] & ($bs - 1)) == 0, "input: only whole blocks are compressed directly");
                            }
                            pos += $len[k];
                        }
                        k += 1;
                    }
                    vassert!(pos == nblk * $bs, "input: exactly the complete blocks of pending ++ input are compressed");
                    vassert!(eq8(&$geth(&e.state), &hprev), "input: chaining value is the result of the last compression (unchanged if none)");
                }
                #[cfg(not(kani))]
                {
                    let mut hs = a.h;
                    for b in 0..nblk {
                        let mut blk = [0u8; $bs];
                        for j in 0..$bs {
                            let q = b * $bs + j;
                            blk[j] = if q < idx { buffer[q] } else { data.buf[q - idx] };
                        }
                        $kernel(&mut hs, &blk);
                    }
                    assert!(eq8(&$geth(&e.state), &hs), "input: chaining value is the result of the last compression (unchanged if none)");
                }
            }
        }
    };
}
engine_cases!(e256, Engine256, u32, 64, 8, u64, 1u64 << 61, len_be64, mk_e256_nf, mk_e256_anyfin, h256, impl256::digest_block,
              r32_reset, R32_N, R32_PTR, R32_LEN, R32_HIN, R32_HOUT, R32_BLK, R32_J, R32_BYTE);
engine_cases!(e512, Engine512, u64, 128, 16, u128, 1u128 << 125, len_be128, mk_e512, mk_e512, h512, impl512::digest_block,
              r64_reset, R64_N, R64_PTR, R64_LEN, R64_HIN, R64_HOUT, R64_BLK, R64_J, R64_BYTE);

#[cfg_attr(kani, kani::proof)]
#[cfg_attr(kani, kani::unwind(66))]
#[cfg_attr(kani, kani::stub(crate::hashing::sha2::impl256::digest_block, digest_block256_rec))]
pub(crate) fn c01_sha256_finish_step() {
    e256::case_finish();
}
#[cfg_attr(kani, kani::proof)]
#[cfg_attr(kani, kani::unwind(130))]
#[cfg_attr(kani, kani::stub(crate::hashing::sha2::impl512::digest_block, digest_block512_rec))]
pub(crate) fn c01_sha512_finish_step() {
    e512::case_finish();
}
#[cfg_attr(kani, kani::proof)]
#[cfg_attr(kani, kani::unwind(66))]
#[cfg_attr(kani, kani::stub(crate::hashing::sha2::impl256::digest_block, digest_block256_rec_j))]
pub(crate) fn c01_sha256_input_step() {
    e256::case_input::<66>();
}
#[cfg_attr(kani, kani::proof)]
#[cfg_attr(kani, kani::unwind(130))]
#[cfg_attr(kani, kani::stub(crate::hashing::sha2::impl512::digest_block, digest_block512_rec_j))]
pub(crate) fn c01_t_sha512_input_step_130() {
    e512::case_input::<130>();
}
#[cfg_attr(kani, kani::proof)]
#[cfg_attr(kani, kani::unwind(130))]
#[cfg_attr(kani, kani::stub(crate::hashing::sha2::impl512::digest_block, digest_block512_rec_j))]
pub(crate) fn c01_t_sha512_input_step_258() {
    e512::case_input::<258>();
}
#[cfg_attr(kani, kani::proof)]
#[cfg_attr(kani, kani::unwind(66))]
#[cfg_attr(kani, kani::stub(crate::hashing::sha2::impl256::digest_block, digest_block256_rec_j))]
pub(crate) fn c01_t_sha256_input_step_130() {
    e256::case_input::<130>();
}

// ------------------------------------------------------------------------------------------------ the six contexts
pub(crate) static mut IN_N: usize = 0;
pub(crate) static mut IN_PTR: usize = 0;
pub(crate) static mut IN_LEN: usize = 0;
fn in_reset() {
    unsafe {
        IN_N = 0;
    }
}
#[cfg(kani)]
fn input256_rec(e: &mut Engine256, input: &[u8]) {
    unsafe {
        IN_N += 1;
        IN_PTR = input.as_ptr() as usize;
        IN_LEN = input.len();
    }
    e.processed_bytes = e.processed_bytes.wrapping_add(1);
}
#[cfg(kani)]
fn input512_rec(e: &mut Engine512, input: &[u8]) {
    unsafe {
        IN_N += 1;
        IN_PTR = input.as_ptr() as usize;
        IN_LEN = input.len();
    }
    e.processed_bytes = e.processed_bytes.wrapping_add(1);
}
fn nf256(e: &Engine256) -> bool {
    !e.finished
}
fn nf512(_e: &Engine512) -> bool {
    true
}
macro_rules! variant_cases {
    ($m:ident, $ctx:ident, $em:ident, $nf:ident, $iv:expr, $outlen:expr, $full:expr, $ser:expr, $reset:ident) => {
        pub(crate) mod $m {
            use super::*;
            fn check_out(out: &[u8; $outlen], last: &[u8; $full]) {
                let mut i = 0;
                while i < $outlen {
                    vassert!(out[i] == last[i], "finalize: digest == leftmost bits of the big-endian serialisation of the final chaining value (FIPS 180-4 6.x)");
                    i += 1;
                }
            }
            /// finalize() from an arbitrary context state
            pub(crate) fn case_finalize() {
                let a = $em::arb();
                $em::finish_covers(&a);
                let c = $ctx { engine: $em::mk(&a) };
                $reset();
                let out = c.finalize();
                let last = $em::check_finish_calls(&a);
                check_out(&out, &$ser(&last));
            }
            /// finalize_reset() from an arbitrary context state: same digest, context as new
            pub(crate) fn case_finalize_reset() {
                let a = $em::arb();
                $em::finish_covers(&a);
                let mut c = $ctx { engine: $em::mk(&a) };
                $reset();
                let out = c.finalize_reset();
                let last = $em::check_finish_calls(&a);
                check_out(&out, &$ser(&last));
                vassert!($em::is_new(&c.engine, &$iv) && $nf(&c.engine), "finalize_reset: context equals a freshly created one");
            }
            pub(crate) fn case_new_reset() {
                let a = $em::arb();
                let e = $em::mk_anyfin(&a);
                let n = $ctx::new();
                vassert!($em::is_new(&n.engine, &$iv) && $nf(&n.engine), "new: FIPS 180-4 5.3 initial hash value, no bytes processed, empty buffer");
                let mut c = $ctx { engine: e };
                c.reset();
                vassert!($em::is_new(&c.engine, &$iv) && $nf(&c.engine), "reset: context equals a freshly created one");
            }
            pub(crate) fn case_clone() {
                let a = $em::arb();
                let c = $ctx { engine: $em::mk(&a) };
                let d = c.clone();
                vassert!($em::same_alpha(&c.engine, &d.engine) && $nf(&d.engine), "clone: same chaining value, byte count and pending bytes");
            }
            /// update(x) == { update_mut(x); self } == exactly one engine.input(x) on this context's engine (engine.input recorded:
            /// the model bumps processed_bytes by one so that the returned context is recognisably the one that was fed)
            pub(crate) fn case_update_eq() {
                let a = $em::arb();
                let data = Bytes::<5>::any();
                let c1 = $ctx { engine: $em::mk(&a) };
                let mut c2 = $ctx { engine: $em::mk(&a) };
                let (p, l) = (data.get().as_ptr() as usize, data.len);
                in_reset();
                let c1 = c1.update(data.get());
                #[cfg(kani)]
                unsafe {
                    vassert!(IN_N == 1 && IN_PTR == p && IN_LEN == l, "update: exactly one engine.input call, on the caller's slice");
                    vassert!((c1.engine.processed_bytes as u128) == (a.processed + 1) as u128, "update: returns the context that was fed");
                }
                in_reset();
                c2.update_mut(data.get());
                #[cfg(kani)]
                unsafe {
                    vassert!(IN_N == 1 && IN_PTR == p && IN_LEN == l, "update_mut: exactly one engine.input call, on the caller's slice");
                }
                vassert!($em::same_alpha(&c1.engine, &c2.engine), "update == update_mut");
            }
        }
    };
}
fn ser256(h: &[u32; 8]) -> [u8; 32] {
    ser_be32::<8, 32>(h)
}
variant_cases!(v224, Context224, e256, nf256, FIPS_SHA224_H0, 28, 32, ser256, r32_reset);
variant_cases!(v256, Context256, e256, nf256, FIPS_SHA256_H0, 32, 32, ser256, r32_reset);
variant_cases!(v384, Context384, e512, nf512, FIPS_SHA384_H0, 48, 64, ser_be64, r64_reset);
variant_cases!(v512, Context512, e512, nf512, FIPS_SHA512_H0, 64, 64, ser_be64, r64_reset);
variant_cases!(v512_224, Context512_224, e512, nf512, FIPS_SHA512_224_H0, 28, 64, ser_be64, r64_reset);
variant_cases!(v512_256, Context512_256, e512, nf512, FIPS_SHA512_256_H0, 32, 64, ser_be64, r64_reset);

#[cfg(kani)]
pub(crate) fn toy256(state: &mut [u32; 8], block: &[u8]) {
    assert!(block.len() == 64 || block.len() == 128);
    toy_mix32(state, &block[..64]);
    if block.len() == 128 {
        toy_mix32(state, &block[64..]);
    }
}
#[cfg(kani)]
pub(crate) fn toy512(state: &mut [u64; 8], block: &[u8]) {
    assert!(block.len() == 128 || block.len() == 256);
    toy_mix64(state, &block[..128]);
    if block.len() == 256 {
        toy_mix64(state, &block[128..]);
    }
}

// finalize(): padding + compression sequence + output serialisation/truncation, per variant
#[cfg_attr(kani, kani::proof)]
#[cfg_attr(kani, kani::unwind(66))]
#[cfg_attr(kani, kani::stub(crate::hashing::sha2::impl256::digest_block, digest_block256_rec))]
pub(crate) fn c01_sha224_finalize() {
    v224::case_finalize();
}
#[cfg_attr(kani, kani::proof)]
#[cfg_attr(kani, kani::unwind(66))]
#[cfg_attr(kani, kani::stub(crate::hashing::sha2::impl256::digest_block, digest_block256_rec))]
pub(crate) fn c01_sha256_finalize() {
    v256::case_finalize();
}
#[cfg_attr(kani, kani::proof)]
#[cfg_attr(kani, kani::unwind(130))]
#[cfg_attr(kani, kani::stub(crate::hashing::sha2::impl512::digest_block, digest_block512_rec))]
pub(crate) fn c01_sha384_finalize() {
    v384::case_finalize();
}
#[cfg_attr(kani, kani::proof)]
#[cfg_attr(kani, kani::unwind(130))]
#[cfg_attr(kani, kani::stub(crate::hashing::sha2::impl512::digest_block, digest_block512_rec))]
pub(crate) fn c01_sha512_finalize() {
    v512::case_finalize();
}
#[cfg_attr(kani, kani::proof)]
#[cfg_attr(kani, kani::unwind(130))]
#[cfg_attr(kani, kani::stub(crate::hashing::sha2::impl512::digest_block, digest_block512_rec))]
pub(crate) fn c01_sha512_224_finalize() {
    v512_224::case_finalize();
}
#[cfg_attr(kani, kani::proof)]
#[cfg_attr(kani, kani::unwind(130))]
#[cfg_attr(kani, kani::stub(crate::hashing::sha2::impl512::digest_block, digest_block512_rec))]
pub(crate) fn c01_sha512_256_finalize() {
    v512_256::case_finalize();
}
// finalize_reset(): same digest, then a context equal to new()
#[cfg_attr(kani, kani::proof)]
#[cfg_attr(kani, kani::unwind(66))]
#[cfg_attr(kani, kani::stub(crate::hashing::sha2::impl256::digest_block, digest_block256_rec))]
pub(crate) fn c02_sha224_finalize_reset() {
    v224::case_finalize_reset();
}
#[cfg_attr(kani, kani::proof)]
#[cfg_attr(kani, kani::unwind(66))]
#[cfg_attr(kani, kani::stub(crate::hashing::sha2::impl256::digest_block, digest_block256_rec))]
pub(crate) fn c02_sha256_finalize_reset() {
    v256::case_finalize_reset();
}
#[cfg_attr(kani, kani::proof)]
#[cfg_attr(kani, kani::unwind(130))]
#[cfg_attr(kani, kani::stub(crate::hashing::sha2::impl512::digest_block, digest_block512_rec))]
pub(crate) fn c02_sha384_finalize_reset() {
    v384::case_finalize_reset();
}
#[cfg_attr(kani, kani::proof)]
#[cfg_attr(kani, kani::unwind(130))]
#[cfg_attr(kani, kani::stub(crate::hashing::sha2::impl512::digest_block, digest_block512_rec))]
pub(crate) fn c02_sha512_finalize_reset() {
    v512::case_finalize_reset();
}
#[cfg_attr(kani, kani::proof)]
#[cfg_attr(kani, kani::unwind(130))]
#[cfg_attr(kani, kani::stub(crate::hashing::sha2::impl512::digest_block, digest_block512_rec))]
pub(crate) fn c02_sha512_224_finalize_reset() {
    v512_224::case_finalize_reset();
}
#[cfg_attr(kani, kani::proof)]
#[cfg_attr(kani, kani::unwind(130))]
#[cfg_attr(kani, kani::stub(crate::hashing::sha2::impl512::digest_block, digest_block512_rec))]
pub(crate) fn c02_sha512_256_finalize_reset() {
    v512_256::case_finalize_reset();
}
/// new() == (FIPS initial hash value, 0 bytes, empty buffer); reset() from an arbitrary state (also `finished`) == new()
#[cfg_attr(kani, kani::proof)]
#[cfg_attr(kani, kani::unwind(130))]
pub(crate) fn c02_sha2_new_reset() {
    v224::case_new_reset();
    v256::case_new_reset();
    v384::case_new_reset();
    v512::case_new_reset();
    v512_224::case_new_reset();
    v512_256::case_new_reset();
}
/// derived Clone copies the abstract state (the structs hold no references: the copies are independent by construction)
#[cfg_attr(kani, kani::proof)]
#[cfg_attr(kani, kani::unwind(130))]
pub(crate) fn c02_sha2_clone() {
    v224::case_clone();
    v256::case_clone();
    v384::case_clone();
    v512::case_clone();
    v512_224::case_clone();
    v512_256::case_clone();
}
#[cfg_attr(kani, kani::proof)]
#[cfg_attr(kani, kani::unwind(66))]
#[cfg_attr(kani, kani::stub(Engine256::input, input256_rec))]
pub(crate) fn c02_sha256_update_eq_update_mut() {
    v224::case_update_eq();
    v256::case_update_eq();
}
#[cfg_attr(kani, kani::proof)]
#[cfg_attr(kani, kani::unwind(130))]
#[cfg_attr(kani, kani::stub(Engine512::input, input512_rec))]
pub(crate) fn c02_sha512_update_eq_update_mut() {
    v384::case_update_eq();
    v512::case_update_eq();
}
#[cfg_attr(kani, kani::proof)]
#[cfg_attr(kani, kani::unwind(130))]
#[cfg_attr(kani, kani::stub(Engine512::input, input512_rec))]
pub(crate) fn c02_sha512t_update_eq_update_mut() {
    v512_224::case_update_eq();
    v512_256::case_update_eq();
}

/// FIPS 180-4 5.3.3 / 5.3.5 / 5.3.4 / 5.3.2: the initial hash values are the fractional parts of the square roots of the first
/// sixteen primes (recomputed here in integer arithmetic); 5.3.6 (SHA-512/t) constants typed from the standard.
#[cfg_attr(kani, kani::proof)]
#[cfg_attr(kani, kani::unwind(66))]
pub(crate) fn c01_sha2_iv_tables() {
    let mut i = 0;
    while i < 8 {
        let lo = sqrt_frac64(PRIMES16[i]);
        let hi = sqrt_frac64(PRIMES16[8 + i]);
        vassert!(H512[i] == lo && FIPS_SHA512_H0[i] == lo, "SHA-512 H(0): 64 fractional bits of sqrt(prime 1..8)");
        vassert!(H256[i] == (lo >> 32) as u32 && FIPS_SHA256_H0[i] == (lo >> 32) as u32, "SHA-256 H(0): 32 fractional bits of sqrt(prime 1..8)");
        vassert!(H384[i] == hi && FIPS_SHA384_H0[i] == hi, "SHA-384 H(0): 64 fractional bits of sqrt(prime 9..16)");
        vassert!(H224[i] == hi as u32 && FIPS_SHA224_H0[i] == hi as u32, "SHA-224 H(0): second 32 fractional bits of sqrt(prime 9..16)");
        vassert!(H512_TRUNC_224[i] == FIPS_SHA512_224_H0[i], "SHA-512/224 H(0) (FIPS 180-4 5.3.6.1)");
        vassert!(H512_TRUNC_256[i] == FIPS_SHA512_256_H0[i], "SHA-512/256 H(0) (FIPS 180-4 5.3.6.2)");
        i += 1;
    }
    // natively (oracle validation): 5.3.6 SHA-512/t IV generation function = SHA-512 with H(0) ^ a5a5.. applied to "SHA-512/t"
    #[cfg(not(kani))]
    {
        for (name, exp) in [(&b"SHA-512/224"[..], FIPS_SHA512_224_H0), (&b"SHA-512/256"[..], FIPS_SHA512_256_H0)] {
            let mut iv = FIPS_SHA512_H0;
            for w in iv.iter_mut() {
                *w ^= 0xa5a5a5a5a5a5a5a5;
            }
            let mut e = Engine512::new(&iv);
            e.input(name);
            e.finish();
            assert!(eq8(&h512(&e.state), &exp), "SHA-512/t H(0) == IV generation function of FIPS 180-4 5.3.6");
        }
    }
}

// kernels for the end-to-end harnesses of hash_spec.rs: stand-in under Kani (also the stub there), the crate's kernel natively
pub(crate) fn kernel256(h: &mut [u32; 8], blk: &[u8]) {
    #[cfg(kani)]
    toy256(h, blk);
    #[cfg(not(kani))]
    impl256::digest_block(h, blk);
}
pub(crate) fn kernel512(h: &mut [u64; 8], blk: &[u8]) {
    #[cfg(kani)]
    toy512(h, blk);
    #[cfg(not(kani))]
    impl512::digest_block(h, blk);
}

// ------------------------------------------------------------------------------------------------ contract of the recorded kernels
// impl256::digest_block / impl512::digest_block over SEVERAL blocks == fold of the single-block function over consecutive
// blocks (and, for the 64-bit one, the sixteen message words are loaded big-endian: FIPS 180-4 6.4.2 step 1).  The
// single-block round functions themselves are recorded here (their equivalence with FIPS 180-4 is the kernel engine's part).
pub(crate) static mut DB_N: usize = 0;
pub(crate) static mut DB_HIN64: [[u64; 8]; 2] = [[0; 8]; 2];
pub(crate) static mut DB_HOUT64: [[u64; 8]; 2] = [[0; 8]; 2];
pub(crate) static mut DB_W64: [[u64; 16]; 2] = [[0; 16]; 2];
pub(crate) static mut DB_HIN32: [[u32; 8]; 2] = [[0; 8]; 2];
pub(crate) static mut DB_HOUT32: [[u32; 8]; 2] = [[0; 8]; 2];
pub(crate) static mut DB_B32: [[u8; 64]; 2] = [[0; 64]; 2];
#[cfg(kani)]
fn block_u64_rec(state: &mut [u64; 8], block: &[u64; 16]) {
    let out: [u64; 8] = kani::any();
    unsafe {
        if DB_N == 0 {
            DB_HIN64[0] = *state;
            DB_HOUT64[0] = out;
            DB_W64[0] = *block;
        } else if DB_N == 1 {
            DB_HIN64[1] = *state;
            DB_HOUT64[1] = out;
            DB_W64[1] = *block;
        }
        DB_N += 1;
    }
    *state = out;
}
#[cfg(kani)]
fn block_u32_rec(state: &mut [u32; 8], buf: &[u8]) {
    let out: [u32; 8] = kani::any();
    unsafe {
        if let Ok(a) = <&[u8; 64]>::try_from(buf) {
            if DB_N == 0 {
                DB_HIN32[0] = *state;
                DB_HOUT32[0] = out;
                DB_B32[0] = *a;
            } else if DB_N == 1 {
                DB_HIN32[1] = *state;
                DB_HOUT32[1] = out;
                DB_B32[1] = *a;
            }
        } else {
            DB_N += 100; // not a 64-byte block
        }
        DB_N += 1;
    }
    *state = out;
}
#[cfg_attr(kani, kani::proof)]
#[cfg_attr(kani, kani::unwind(18))]
#[cfg_attr(kani, kani::stub(crate::hashing::sha2::impl512::reference::digest_block_u64, block_u64_rec))]
pub(crate) fn c01_sha512_digest_block_loop() {
    let h: [u64; 8] = any();
    let data: [u8; 256] = any();
    let nb: usize = any();
    assume(nb <= 2);
    vcover!(nb == 0, "no block");
    vcover!(nb == 2, "two blocks");
    let mut s = h;
    unsafe {
        DB_N = 0;
    }
    impl512::digest_block(&mut s, &data[..nb * 128]);
    #[cfg(kani)]
    unsafe {
        vassert!(DB_N == nb, "digest_block: one application of the round function per 128-byte block");
        let mut hprev = h;
        let mut k = 0;
        while k < 2 {
            if k < nb {
                vassert!(eq8(&DB_HIN64[k], &hprev), "digest_block: blocks are processed in order, chaining the state");
                hprev = DB_HOUT64[k];
                let mut i = 0;
                while i < 16 {
                    let mut w = 0u64;
                    let mut j = 0;
                    while j < 8 {
                        w = (w << 8) | (data[128 * k + 8 * i + j] as u64);
                        j += 1;
                    }
                    vassert!(DB_W64[k][i] == w, "digest_block: message words are loaded big-endian from consecutive bytes");
                    i += 1;
                }
            }
            k += 1;
        }
        vassert!(eq8(&s, &hprev), "digest_block: result is the state after the last block");
    }
    #[cfg(not(kani))]
    {
        let mut e = h;
        for k in 0..nb {
            impl512::digest_block(&mut e, &data[128 * k..128 * (k + 1)]);
        }
        assert!(eq8(&s, &e), "digest_block: blocks are processed in order, chaining the state");
    }
}
#[cfg_attr(kani, kani::proof)]
#[cfg_attr(kani, kani::unwind(66))]
#[cfg_attr(kani, kani::stub(crate::hashing::sha2::impl256::reference::digest_block_u32, block_u32_rec))]
pub(crate) fn c01_sha256_digest_block_loop() {
    let h: [u32; 8] = any();
    let data: [u8; 128] = any();
    let nb: usize = any();
    assume(nb <= 2);
    vcover!(nb == 0, "no block");
    vcover!(nb == 2, "two blocks");
    let mut s = h;
    unsafe {
        DB_N = 0;
    }
    impl256::digest_block(&mut s, &data[..nb * 64]);
    #[cfg(kani)]
    unsafe {
        vassert!(DB_N == nb, "digest_block: one application of the single-block function per 64-byte block");
        let mut hprev = h;
        let mut k = 0;
        while k < 2 {
            if k < nb {
                vassert!(eq8(&DB_HIN32[k], &hprev), "digest_block: blocks are processed in order, chaining the state");
                hprev = DB_HOUT32[k];
                let mut i = 0;
                while i < 64 {
                    vassert!(DB_B32[k][i] == data[64 * k + i], "digest_block: k-th application gets the k-th 64 bytes");
                    i += 1;
                }
            }
            k += 1;
        }
        vassert!(eq8(&s, &hprev), "digest_block: result is the state after the last block");
    }
    #[cfg(not(kani))]
    {
        let mut e = h;
        for k in 0..nb {
            impl256::digest_block(&mut e, &data[64 * k..64 * (k + 1)]);
        }
        assert!(eq8(&s, &e), "digest_block: blocks are processed in order, chaining the state");
    }
}
