#!/bin/bash
# tools/seedrun.sh <patch.diff> <Cnn> [tier]  — apply a seeded change to /repo, run the check, restore /repo.
P=$(readlink -f "$1"); ID=$2; TIER=${3:-quick}
cd /repo || exit 3
if [ -n "$(git status --porcelain --untracked-files=no)" ]; then echo "/repo not clean"; exit 3; fi
git apply "$P" || { echo "patch does not apply"; exit 4; }
trap 'git -C /repo checkout -- .' EXIT
cd /verif && ./check $ID --tier $TIER; rc=$?
echo "seedrun rc=$rc"
exit $rc
