// C04 — deterministic random generator (src/drg/chacha.rs; child module of crate::drg::chacha).
// Every request returns the NEXT bytes of the ChaCha keystream of the wrapped context, whatever the request size and
// whatever the destination held before.  The wrapped context is ARBITRARY (any state words, cached block, offset), so
// "every sequence of requests" follows by induction together with the C04 process_mut step.
// Real update() with ROUNDS = 2 and real xor_keystream_mut are in the formula; request sizes are small constants
// (the stream logic for long requests is the process_mut step).
#![allow(dead_code, unused_imports, missing_docs)]
use super::*;
use crate::chacha::verif_chacha::words_eq;
use crate::chacha20::verif_ctx::{chacha_parts, mk_chacha, spec_advance, spec_block, spec_source, Ctr};
use crate::verif_lib::*;

struct Arb {
    w: [u32; 16],
    cached: [u8; 64],
    offset: usize,
    b0: [u8; 64],
}
fn arb() -> Arb {
    let w: [u32; 16] = any();
    let cached: [u8; 64] = any();
    let offset: usize = any();
    assume(offset <= 64);
    vcover!(offset == 64, "nothing cached");
    vcover!(offset == 62, "request straddles a block boundary");
    let b0 = spec_block(&w, 1);
    Arb { w, cached, offset, b0 }
}
/// next keystream byte i of the arbitrary context (requests here are <= 64 bytes: at most one fresh block)
fn ks(a: &Arb, i: usize) -> u8 {
    let (g, o) = spec_source(a.offset, i);
    if g == 0 {
        a.cached[o]
    } else {
        a.b0[o]
    }
}
macro_rules! check_after {
    ($a:expr, $d:expr, $n:expr, $what:literal) => {{
        let a: &Arb = $a;
        let n: usize = $n;
        let (w, cached, off) = chacha_parts(&$d.0);
        let fresh = n > 64 - a.offset;
        let exp_off = if n == 0 { a.offset } else { spec_source(a.offset, n - 1).1 + 1 };
        let ew = if fresh { spec_advance(&a.w, Ctr::C32) } else { a.w };
        vassert!(off == exp_off && words_eq(&w, &ew), $what);
        let mut i = 0;
        while i < 64 {
            vassert!(cached[i] == if fresh { a.b0[i] } else { a.cached[i] }, $what);
            i += 1;
        }
    }};
}

fn case_bytes<const N: usize>() {
    let a = arb();
    let mut d = Drg(mk_chacha::<2>(a.w, a.cached, a.offset));
    let out: [u8; N] = d.bytes::<N>();
    let mut i = 0;
    while i < N {
        vassert!(out[i] == ks(&a, i), "Drg::bytes: the next N keystream bytes");
        i += 1;
    }
    check_after!(&a, &d, N, "Drg::bytes: stream position advanced by exactly N");
}
fn case_fill_bytes<const N: usize>() {
    let a = arb();
    let prior: [u8; N] = any();
    let mut d = Drg(mk_chacha::<2>(a.w, a.cached, a.offset));
    let mut out = prior;
    d.fill_bytes::<N>(&mut out);
    let mut i = 0;
    while i < N {
        vassert!(out[i] == ks(&a, i), "Drg::fill_bytes: the next N keystream bytes, independent of prior buffer contents");
        i += 1;
    }
    check_after!(&a, &d, N, "Drg::fill_bytes: stream position advanced by exactly N");
}
fn case_fill_slice<const N: usize>() {
    let a = arb();
    let prior: [u8; N] = any();
    let n: usize = any();
    assume(n <= N);
    let mut d = Drg(mk_chacha::<2>(a.w, a.cached, a.offset));
    let mut out = prior;
    d.fill_slice(&mut out[..n]);
    let mut i = 0;
    while i < N {
        if i < n {
            vassert!(out[i] == ks(&a, i), "Drg::fill_slice: the next keystream bytes, independent of prior buffer contents");
        } else {
            vassert!(out[i] == prior[i], "Drg::fill_slice: bytes beyond the slice untouched");
        }
        i += 1;
    }
    check_after!(&a, &d, n, "Drg::fill_slice: stream position advanced by exactly the slice length");
}

#[cfg_attr(kani, kani::proof)]
#[cfg_attr(kani, kani::unwind(66))]
#[doc = "verif-unwindset: ::process_mut$=4, xor_keystream_mut=10"]
#[cfg_attr(kani, kani::stub(core::arch::x86_64::_mm_add_epi32, crate::verif_lib::mm_add_epi32_model))]
pub(crate) fn c04_drg_bytes_n1_n5() {
    case_bytes::<1>();
    case_bytes::<5>();
}
#[cfg_attr(kani, kani::proof)]
#[cfg_attr(kani, kani::unwind(66))]
#[doc = "verif-unwindset: ::process_mut$=4, xor_keystream_mut=10"]
#[cfg_attr(kani, kani::stub(core::arch::x86_64::_mm_add_epi32, crate::verif_lib::mm_add_epi32_model))]
pub(crate) fn c04_drg_u32_u64() {
    let a = arb();
    let mut d = Drg(mk_chacha::<2>(a.w, a.cached, a.offset));
    let v = d.u32();
    let e = ((ks(&a, 0) as u32) << 24) | ((ks(&a, 1) as u32) << 16) | ((ks(&a, 2) as u32) << 8) | (ks(&a, 3) as u32);
    vassert!(v == e, "Drg::u32: next 4 keystream bytes, big-endian");
    check_after!(&a, &d, 4, "Drg::u32: stream position advanced by exactly 4");
    let mut d = Drg(mk_chacha::<2>(a.w, a.cached, a.offset));
    let v = d.u64();
    let mut e = 0u64;
    let mut i = 0;
    while i < 8 {
        e = (e << 8) | (ks(&a, i) as u64);
        i += 1;
    }
    vassert!(v == e, "Drg::u64: next 8 keystream bytes, big-endian");
    check_after!(&a, &d, 8, "Drg::u64: stream position advanced by exactly 8");
}
#[cfg_attr(kani, kani::proof)]
#[cfg_attr(kani, kani::unwind(66))]
#[doc = "verif-unwindset: ::process_mut$=4, xor_keystream_mut=10"]
#[cfg_attr(kani, kani::stub(core::arch::x86_64::_mm_add_epi32, crate::verif_lib::mm_add_epi32_model))]
pub(crate) fn c04_drg_fill_bytes_n5() {
    case_fill_bytes::<5>();
}
#[cfg_attr(kani, kani::proof)]
#[cfg_attr(kani, kani::unwind(66))]
#[doc = "verif-unwindset: ::process_mut$=4, xor_keystream_mut=10"]
#[cfg_attr(kani, kani::stub(core::arch::x86_64::_mm_add_epi32, crate::verif_lib::mm_add_epi32_model))]
pub(crate) fn c04_drg_fill_slice_le6() {
    case_fill_slice::<6>();
}
/// Drg::new(seed) == IETF ChaCha keyed with the seed, all-zero 96-bit nonce, block 0, nothing cached
#[cfg_attr(kani, kani::proof)]
#[cfg_attr(kani, kani::unwind(66))]
pub(crate) fn c04_drg_new() {
    let seed: [u8; 32] = any();
    let d = Drg::<20>::new(&seed);
    let (w, _c, off) = chacha_parts(&d.0);
    vassert!(words_eq(&w, &crate::chacha::verif_chacha::spec_init(&seed, &[0u8; 12])), "Drg::new: ChaCha state for (seed, zero nonce, block 0)");
    vassert!(off == 64, "Drg::new: nothing cached");
}
