"""Specifications (Int domain) of the limb-arithmetic functions, written against the mathematics, not the code.

Each spec is a function spec(I, R) where I is an Interp (symbolic or concrete mode) and R a Recorder with
  R.range(poly, lo, hi, what) / R.congruent(poly_a, poly_b, modulus, what) / R.equal(poly_a, poly_b, what)
It declares the input atoms with their assumed ranges (the operand discipline), runs the real MIR body and states
the post-conditions. The same spec is re-run in concrete mode on a solver model to confirm a counterexample.
"""
from poly import Poly, DP
from interp import IntV, AggV, RefV, Cell, BoolV, UnitV

P25519 = (1 << 255) - 19
P1305 = (1 << 130) - 5
L25519 = (1 << 252) + 27742317777372353535851937790883648493


def val(limbs, bits):
    p = DP()
    for i, l in enumerate(limbs):
        p = p + l.p.scale(1 << (bits * i))
    return p


def ref(v):
    return RefV(Cell(v), ())


# ------------------------------------------------------------------------------------------------ Poly1305::block
def poly1305_block(final):
    def spec(I, R):
        # clamped r limbs (what new() produces: C05 harness c05_new_clamp_and_limbs), accumulator in the limb invariant I_h
        rmax = [0x3ffffff, 0x3ffff03, 0x3ffc0ff, 0x3f03fff, 0x00fffff]
        r = AggV([I.input("r%d" % i, "u32", 0, rmax[i]) for i in range(5)])
        hmax = [0x3ffffff, 0x3ffffff + 128, 0x3ffffff, 0x3ffffff, 0x3ffffff]
        h = AggV([I.input("h%d" % i, "u32", 0, hmax[i]) for i in range(5)])
        # 16 message bytes; bytes straddling a 26-bit limb boundary are split into (low, high) bit fields so that limb extraction is exact
        split = {3: 2, 6: 4, 9: 6}
        mb, mval = [], DP()
        for j in range(16):
            if j in split:
                lo = I.input("m%dl" % j, "u8", 0, (1 << split[j]) - 1)
                hi = I.input("m%dh" % j, "u8", 0, (1 << (8 - split[j])) - 1)
                b = IntV(lo.p + hi.p.scale(1 << split[j]), "u8")
            else:
                b = I.input("m%d" % j, "u8", 0, 255)
            mb.append(b)
            mval = mval + b.p.scale(1 << (8 * j))
        pad = AggV([I.const(0, "u32") for _ in range(4)])
        st = AggV([r, h, pad, I.const(0, "usize"), AggV([I.const(0, "u8") for _ in range(16)]), BoolV(final)])
        cell = Cell(st)
        msg = Cell(AggV(mb))
        vh, vr, r0 = val(h.f, 26), val(r.f, 26), [x.p for x in r.f]   # snapshots: the call mutates the context in place
        R.native_in(20, [(x.p, 4) for x in r.f] + [(x.p, 4) for x in h.f] + [(b.p, 1) for b in mb] + [(DP.const(1 if final else 0), 1)])
        f = I.find_fn_re(r"^fn poly1305::<impl at src/poly1305\.rs:[^>]*>::block\(_1: &mut Poly1305, _2: &\[u8\]\)")
        I.run(f, [RefV(cell, ()), RefV(msg, (), (0, 16))])
        h2 = cell.v.f[1].f
        R.native_out([x.p for x in h2])
        for i in range(5):
            R.range(h2[i].p, 0, hmax[i], "block: h'[%d] within the limb invariant I_h" % i)
        hib = 0 if final else (1 << 128)
        want = (vh + mval + DP.const(hib)) * vr
        R.congruent(val(h2, 26), want, P1305, "block: h' == (h + m + hibit*2^128) * r (mod 2^130-5)")
        for i in range(5):
            R.equal(cell.v.f[0].f[i].p, r0[i], "block: r untouched")
    return spec


# ------------------------------------------------------------------------------------------------ fe64
FE64 = r"^fn fe64::<impl at src/curve25519/fe/fe64/mod\.rs:[^>]*>::"
T51 = (1 << 51) - 1
# limb classes (closed under the operations as proved below):
#   TIGHT : every limb <= 2^51 - 1 + 2^16   (output of add/sub/neg/mul/square/mul_small)
#   LOOSE : every limb <= 2^53 - 76         (contains TIGHT, sums of two TIGHT, doubled squares; accepted by every operation)
TIGHT = T51 + (1 << 16)
LOOSE = (1 << 53) - 76      # = FOUR_P0, the smallest limb of the 4p bias: anything below can be a subtrahend


def fe_in(I, name, hi):
    return AggV([I.input_array(name, 5, "u64", 0, hi)])


def fe_limbs(v):
    return v.f[0].f


def fe64_binop(fname, sig, op, in_hi=(LOOSE, LOOSE), out_hi=TIGHT):
    def spec(I, R):
        a, b = fe_in(I, "a", in_hi[0]), fe_in(I, "b", in_hi[1])
        R.native_in({"add": 1, "sub": 2, "mul": 3}[op], [(x.p, 8) for x in fe_limbs(a)] + [(x.p, 8) for x in fe_limbs(b)])
        f = I.find_fn_re(FE64 + fname + sig)
        out = I.run(f, [ref(a), ref(b)])
        o = fe_limbs(out)
        R.native_out([x.p for x in o])
        for i in range(5):
            R.range(o[i].p, 0, out_hi, "%s: output limb %d in class TIGHT" % (fname, i))
        va, vb = val(fe_limbs(a), 51), val(fe_limbs(b), 51)
        want = {"add": va + vb, "sub": va - vb, "mul": va * vb}[op]
        R.congruent(val(o, 51), want, P25519, "%s: value == a %s b (mod 2^255-19)" % (fname, {"add": "+", "sub": "-", "mul": "*"}[op]))
    return spec


def fe64_unop(fname, sig, op, in_hi=LOOSE, out_hi=TIGHT, mutref=False):
    def spec(I, R):
        a = fe_in(I, "a", in_hi)
        R.native_in(10 if mutref else {"neg": 4, "square": 5, "square2": 6, "mul121666": 7, "mul9": 0}[op], [(x.p, 8) for x in fe_limbs(a)])
        f = I.find_fn_re(FE64 + fname + sig)
        if mutref:
            c = Cell(a)
            orig = [x.p for x in fe_limbs(a)]
            I.run(f, [RefV(c, ())])
            o = fe_limbs(c.v)
            va = DP()
            for i, x in enumerate(orig):
                va = va + x.scale(1 << (51 * i))
        else:
            out = I.run(f, [ref(a)])
            o = fe_limbs(out)
            va = val(fe_limbs(a), 51)
        R.native_out([x.p for x in o])
        for i in range(5):
            R.range(o[i].p, 0, out_hi, "%s: output limb %d within its class" % (fname, i))
        want = {"neg": -va, "square": va * va, "square2": (va * va).scale(2), "mul121666": va.scale(121666), "mul9": va.scale(9)}[op]
        R.congruent(val(o, 51), want, P25519, "%s: value (mod 2^255-19)" % fname)
    return spec


def fe64_to_packed(in_hi):
    """to_packed: four 64-bit words whose little-endian value is the CANONICAL representative: == value (mod p) and < p"""
    def spec(I, R):
        a = fe_in(I, "a", in_hi)
        va = val(fe_limbs(a), 51)
        f = I.find_fn_re(FE64 + r"to_packed\(_1: &fe64::Fe\)")
        out = I.run(f, [ref(a)])
        w = out.f
        for i in range(4):
            R.range(w[i].p, 0, (1 << 64) - 1, "to_packed: word %d is a u64" % i)
        v = val(w, 64)
        R.congruent(v, va, P25519, "to_packed: value == input (mod 2^255-19)")
        R.range(v, 0, P25519 - 1, "to_packed: canonical (0 <= value < 2^255-19; bit 255 clear)")
    return spec


def fe64_from_bytes(I, R):
    """from_bytes: limbs < 2^51, value == little-endian value of the 32 bytes with bit 255 ignored"""
    # bytes straddling a 51-bit limb boundary are split into bit fields: bit 51 = byte 6 bit 3, 102 = byte 12 bit 6, 153 = byte 19 bit 1, 204 = byte 25 bit 4, 255 = byte 31 bit 7
    split = {6: 3, 12: 6, 19: 1, 25: 4, 31: 7}
    bs, v = [], DP()
    for j in range(32):
        if j in split:
            lo = I.input("s%dl" % j, "u8", 0, (1 << split[j]) - 1)
            hi = I.input("s%dh" % j, "u8", 0, (1 << (8 - split[j])) - 1)
            b = IntV(lo.p + hi.p.scale(1 << split[j]), "u8")
            if j == 31:
                v = v + lo.p.scale(1 << 248)          # bit 255 (the high field of byte 31) is ignored
            else:
                v = v + b.p.scale(1 << (8 * j))
        else:
            b = I.input("s%d" % j, "u8", 0, 255)
            v = v + b.p.scale(1 << (8 * j))
        bs.append(b)
    R.native_in(9, [(b.p, 1) for b in bs])
    f = I.find_fn_re(FE64 + r"from_bytes\(_1: &\[u8; 32\]\)")
    out = I.run(f, [ref(AggV(bs))])
    o = fe_limbs(out)
    R.native_out([x.p for x in o])
    for i in range(5):
        R.range(o[i].p, 0, T51, "from_bytes: limb %d < 2^51" % i)
    R.equal(val(o, 51), v, "from_bytes: value == le256(bytes) mod 2^255 (bit 255 ignored)")


# ------------------------------------------------------------------------------------------------ byte inputs with bit-field splits
def byte_inputs(I, name, n, boundaries, ignore_from_bit=None):
    """n input bytes; a byte that contains a limb boundary (bit positions in `boundaries`) is split into two bit-field atoms so that
    limb extraction by shift+mask is exact. returns (list of IntV bytes, polynomial of the little-endian value)"""
    split = {}
    for b in boundaries:
        if b % 8 and b // 8 < n:
            split.setdefault(b // 8, []).append(b % 8)
    bs, v = [], DP()
    for j in range(n):
        cuts = sorted(set(split.get(j, [])))
        if cuts:
            edges = [0] + cuts + [8]
            p = DP()
            for k in range(len(edges) - 1):
                w = edges[k + 1] - edges[k]
                a = I.input("%s%d_%d" % (name, j, edges[k]), "u8", 0, (1 << w) - 1)
                if ignore_from_bit is None or 8 * j + edges[k] < ignore_from_bit:
                    v = v + a.p.scale(1 << (8 * j + edges[k]))
                p = p + a.p.scale(1 << edges[k])
            b = IntV(p, "u8")
        else:
            b = I.input("%s%d" % (name, j), "u8", 0, 255)
            if ignore_from_bit is None or 8 * j < ignore_from_bit:
                v = v + b.p.scale(1 << (8 * j))
        bs.append(b)
    return bs, v


# ------------------------------------------------------------------------------------------------ fe32 (ref10 limbs: 26,25,26,25,... bits, signed)
FE32 = r"^fn fe32::<impl at src/curve25519/fe/fe32/mod\.rs:[^>]*>::"
OFF32 = [0, 26, 51, 77, 102, 128, 153, 179, 204, 230]
T32 = [36909875 if i % 2 == 0 else 18454937 for i in range(10)]      # 1.1*2^25 / 1.1*2^24 : outputs of mul/square/from_bytes
L32 = [73819750 if i % 2 == 0 else 36909875 for i in range(10)]      # 1.1*2^26 / 1.1*2^25 : sums/differences of two TIGHT; accepted by mul/square


def val32(limbs):
    p = DP()
    for i, l in enumerate(limbs):
        p = p + l.p.scale(1 << OFF32[i])
    return p


def fe32_in(I, name, hi):
    return AggV([AggV([I.input("%s%d" % (name, i), "i32", -hi[i], hi[i]) for i in range(10)])])


def fe32_binop(fname, sig, op, in_hi, out_hi):
    def spec(I, R):
        a, b = fe32_in(I, "a", in_hi), fe32_in(I, "b", in_hi)
        va, vb = val32(fe_limbs(a)), val32(fe_limbs(b))
        R.native_in({"add": 1, "sub": 2, "mul": 3}[op], [(x.p, 8) for x in fe_limbs(a)] + [(x.p, 8) for x in fe_limbs(b)])
        f = I.find_fn_re(FE32 + fname + sig)
        out = I.run(f, [ref(a), ref(b)])
        o = fe_limbs(out)
        R.native_out([x.p for x in o])
        for i in range(10):
            R.range(o[i].p, -out_hi[i], out_hi[i], "%s: output limb %d within its ref10 bound" % (fname, i))
        want = {"add": va + vb, "sub": va - vb, "mul": va * vb}[op]
        R.congruent(val32(o), want, P25519, "%s: value (mod 2^255-19)" % fname)
    return spec


def fe32_unop(fname, sig, op, in_hi, out_hi):
    def spec(I, R):
        a = fe32_in(I, "a", in_hi)
        va = val32(fe_limbs(a))
        R.native_in({"neg": 4, "square": 5, "square2": 6, "mul121666": 7}[op], [(x.p, 8) for x in fe_limbs(a)])
        f = I.find_fn_re(FE32 + fname + sig)
        out = I.run(f, [ref(a)])
        o = fe_limbs(out)
        R.native_out([x.p for x in o])
        for i in range(10):
            R.range(o[i].p, -out_hi[i], out_hi[i], "%s: output limb %d within its ref10 bound" % (fname, i))
        want = {"neg": -va, "square": va * va, "square2": (va * va).scale(2), "mul121666": va.scale(121666)}[op]
        R.congruent(val32(o), want, P25519, "%s: value (mod 2^255-19)" % fname)
    return spec


def fe32_from_bytes(I, R):
    bs, v = byte_inputs(I, "s", 32, [255], ignore_from_bit=255)
    f = I.find_fn_re(FE32 + r"from_bytes\(_1: &\[u8; 32\]\)")
    out = I.run(f, [ref(AggV(bs))])
    o = fe_limbs(out)
    for i in range(10):
        R.range(o[i].p, -T32[i], T32[i], "from_bytes: limb %d within the ref10 bound" % i)
    R.congruent(val32(o), v, P25519, "from_bytes: value == le256(bytes) mod 2^255 (bit 255 ignored), mod 2^255-19")


def fe32_to_bytes(I, R):
    a = fe32_in(I, "a", T32)
    va = val32(fe_limbs(a))
    f = I.find_fn_re(FE32 + r"to_bytes\(_1: &fe32::Fe\)")
    out = I.run(f, [ref(a)])
    v = DP()
    for j, b in enumerate(out.f):
        R.range(b.p, 0, 255, "to_bytes: byte %d" % j)
        v = v + b.p.scale(1 << (8 * j))
    R.congruent(v, va, P25519, "to_bytes: value == input (mod 2^255-19)")
    R.range(v, 0, P25519 - 1, "to_bytes: canonical (0 <= value < 2^255-19)")


# ------------------------------------------------------------------------------------------------ scalar32 (ref10 sc_reduce / sc_muladd, 21-bit limbs)
def scalar32_reduce(I, R):
    bs, v = byte_inputs(I, "s", 64, [21 * k for k in range(1, 25)])
    f = I.find_fn_re(r"^fn scalar32::<impl at [^>]*>::reduce_from_wide_bytes\(_1: &\[u8; 64\]\)")
    out = I.run(f, [ref(AggV(bs))])
    o = out.f[0].f
    w = DP()
    for j, b in enumerate(o):
        R.range(b.p, 0, 255, "reduce_from_wide_bytes: byte %d" % j)
        w = w + b.p.scale(1 << (8 * j))
    R.congruent(w, v, L25519, "reduce_from_wide_bytes: result == input (mod L)")
    R.range(w, 0, L25519 - 1, "reduce_from_wide_bytes: result canonical (< L)")


def scalar32_muladd(I, R):
    cuts = [21 * k for k in range(1, 12)]
    ab, va = byte_inputs(I, "a", 32, cuts)
    bb, vb = byte_inputs(I, "b", 32, cuts)
    cb, vc = byte_inputs(I, "c", 32, cuts)
    f = I.find_fn_re(r"^fn scalar32::muladd\(")
    out = I.run(f, [ref(AggV([AggV(ab)])), ref(AggV([AggV(bb)])), ref(AggV([AggV(cb)]))])
    o = out.f[0].f
    w = DP()
    for j, b in enumerate(o):
        R.range(b.p, 0, 255, "muladd: byte %d" % j)
        w = w + b.p.scale(1 << (8 * j))
    R.congruent(w, va * vb + vc, L25519, "muladd: result == a*b + c (mod L)")
    R.range(w, 0, L25519 - 1, "muladd: result canonical (< L)")


# ------------------------------------------------------------------------------------------------ scalar64 (56-bit limbs, Barrett)
def sc64_in(I, name):
    hi = [(1 << 56) - 1] * 4 + [(1 << 32) - 1]
    return AggV([AggV([I.input("%s%d" % (name, i), "u64", 0, hi[i]) for i in range(5)])])


def sc64_post(R, o, want, what):
    his = [(1 << 56) - 1] * 4 + [(1 << 32) - 1]
    for i in range(5):
        R.range(o[i].p, 0, his[i], "%s: output limb %d packed (56/56/56/56/32 bits)" % (what, i))
    v = val(o, 56)
    R.congruent(v, want, L25519, "%s: result == specification (mod L)" % what)
    R.range(v, 0, L25519 - 1, "%s: result canonical (< L)" % what)


def scalar64_reduce(I, R):
    bs, v = byte_inputs(I, "s", 64, [56 * k for k in range(1, 10)] + [248 + 56 * k for k in range(0, 5)])
    f = I.find_fn_re(r"^fn scalar64::<impl at [^>]*>::reduce_from_wide_bytes\(_1: &\[u8; 64\]\)")
    out = I.run(f, [ref(AggV(bs))])
    sc64_post(R, out.f[0].f, v, "reduce_from_wide_bytes")


def scalar64_add(I, R):
    a, b = sc64_in(I, "a"), sc64_in(I, "b")
    va, vb = val(a.f[0].f, 56), val(b.f[0].f, 56)
    R.assume(va, 0, L25519 - 1, "a reduced")
    R.assume(vb, 0, L25519 - 1, "b reduced")
    R_ = R
    f = I.find_fn_re(r"^fn scalar64::add\(")
    out = I.run(f, [ref(a), ref(b)])
    sc64_post(R_, out.f[0].f, va + vb, "add")


def scalar64_mul(I, R):
    a, b = sc64_in(I, "a"), sc64_in(I, "b")
    va, vb = val(a.f[0].f, 56), val(b.f[0].f, 56)
    R.assume(va, 0, L25519 - 1, "a reduced")
    R.assume(vb, 0, L25519 - 1, "b reduced")
    f = I.find_fn_re(r"^fn scalar64::mul\(")
    out = I.run(f, [ref(a), ref(b)])
    sc64_post(R, out.f[0].f, va * vb, "mul")


SPECS = {
    "poly1305_block": dict(prop=["C05", "C20"], fn=poly1305_block(False), desc="Poly1305::block, full block (hibit set)"),
    "poly1305_block_final": dict(prop=["C05", "C20"], fn=poly1305_block(True), desc="Poly1305::block, final partial block (hibit clear)"),
    "fe64_add": dict(prop=["C15", "C12", "C20"], cfg="fe64", fn=fe64_binop("add", r"\(_1: &fe64::Fe, _2: &fe64::Fe\)", "add"), desc="&Fe + &Fe"),
    "fe64_sub": dict(prop=["C15", "C12", "C20"], cfg="fe64", fn=fe64_binop("sub", r"\(_1: &fe64::Fe, _2: &fe64::Fe\)", "sub"), desc="&Fe - &Fe"),
    "fe64_mul": dict(prop=["C15", "C12", "C20"], cfg="fe64", fn=fe64_binop("mul", r"\(_1: &fe64::Fe, _2: &fe64::Fe\)", "mul"), desc="&Fe * &Fe"),
    "fe64_neg": dict(prop=["C15", "C20"], cfg="fe64", fn=fe64_unop("neg", r"\(_1: &fe64::Fe\)", "neg"), desc="-&Fe"),
    "fe64_negate_mut": dict(prop=["C15", "C20"], cfg="fe64", fn=fe64_unop("negate_mut", r"\(_1: &mut fe64::Fe\)", "neg", mutref=True), desc="Fe::negate_mut"),
    "fe64_square": dict(prop=["C15", "C12", "C20"], cfg="fe64", fn=fe64_unop("square", r"\(_1: &fe64::Fe\)", "square"), desc="Fe::square"),
    "fe64_square_and_double": dict(prop=["C15", "C20"], cfg="fe64", fn=fe64_unop("square_and_double", r"\(_1: &fe64::Fe\)", "square2", out_hi=2 * TIGHT), desc="Fe::square_and_double"),
    "fe64_to_packed": dict(prop=["C15", "C12", "C20"], cfg="fe64", fn=fe64_to_packed(LOOSE), desc="Fe::to_packed (canonical encoding) for every limb vector in class LOOSE"),
    "fe64_from_bytes": dict(prop=["C15", "C12", "C20"], cfg="fe64", fn=fe64_from_bytes, desc="Fe::from_bytes"),
    "fe64_mul_small_121666": dict(prop=["C15", "C12", "C20"], cfg="fe64", fn=fe64_unop("mul_small", r"\(_1: &fe64::Fe\)", "mul121666"), desc="Fe::mul_small::<121666>", generic={"S0": (121666, "u32")}),
    "scalar64_reduce": dict(prop=["C13", "C15"], cfg="fe64", fn=scalar64_reduce, desc="scalar64 reduce_from_wide_bytes == x mod L, all 2^512 inputs", experimental=True),
    "scalar64_add": dict(prop=["C13", "C15"], cfg="fe64", fn=scalar64_add, desc="scalar64 add == a + b mod L, canonical, for all reduced operands"),
    "scalar64_mul": dict(prop=["C13", "C15"], cfg="fe64", fn=scalar64_mul, desc="scalar64 mul == a * b mod L for packed limbs", experimental=True),
    # ---- 32-bit backend (MIR dumped with --features force-32bits)
    "fe32_add": dict(prop=["C17"], cfg="fe32", fn=fe32_binop("add", r"\(_1: &fe32::Fe, _2: &fe32::Fe\)", "add", T32, L32), desc="fe32 &Fe + &Fe (TIGHT operands -> LOOSE)"),
    "fe32_sub": dict(prop=["C17"], cfg="fe32", fn=fe32_binop("sub", r"\(_1: &fe32::Fe, _2: &fe32::Fe\)", "sub", T32, L32), desc="fe32 &Fe - &Fe (TIGHT operands -> LOOSE)"),
    "fe32_mul": dict(prop=["C17"], cfg="fe32", fn=fe32_binop("mul", r"\(_1: &fe32::Fe, _2: &fe32::Fe\)", "mul", L32, T32), desc="fe32 &Fe * &Fe (LOOSE operands -> TIGHT)"),
    "fe32_neg": dict(prop=["C17"], cfg="fe32", fn=fe32_unop("neg", r"\(_1: &fe32::Fe\)", "neg", L32, L32), desc="fe32 -&Fe"),
    "fe32_square": dict(prop=["C17"], cfg="fe32", fn=fe32_unop("square", r"\(_1: &fe32::Fe\)", "square", L32, T32), desc="fe32 Fe::square"),
    "fe32_square_and_double": dict(prop=["C17"], cfg="fe32", fn=fe32_unop("square_and_double", r"\(_1: &fe32::Fe\)", "square2", L32, T32), desc="fe32 Fe::square_and_double"),
    "fe32_mul_small_121666": dict(prop=["C17"], cfg="fe32", fn=fe32_unop("mul_small", r"\(_1: &fe32::Fe\)", "mul121666", L32, T32), desc="fe32 Fe::mul_small::<121666>", generic={"S0": (121666, "u32")}),
    "fe32_from_bytes": dict(prop=["C17"], cfg="fe32", fn=fe32_from_bytes, desc="fe32 Fe::from_bytes"),
    "fe32_to_bytes": dict(prop=["C17"], cfg="fe32", fn=fe32_to_bytes, desc="fe32 Fe::to_bytes canonical for TIGHT limbs", experimental=True),
    "scalar32_reduce": dict(prop=["C17"], cfg="fe32", fn=scalar32_reduce, desc="scalar32 reduce_from_wide_bytes == x mod L, all 2^512 inputs", experimental=True),
    "scalar32_muladd": dict(prop=["C17"], cfg="fe32", fn=scalar32_muladd, desc="scalar32 muladd == a*b+c mod L, all inputs", experimental=True),
}
