// C01 / C02 — SHA-1 glue of src/hashing/sha1.rs (child module of crate::hashing::sha1).
//
// Abstract state: alpha = (h, processed_bytes, pending = buffer[..buffer_idx]); invariant buffer_idx < 64 and
// processed_bytes mod 64 == buffer_idx.  One operation from an ARBITRARY state per harness.  The single-block compression
// `digest_block(state, block)` is replaced by a loop-free recorder (chaining value in/out, the 64-byte block) returning an
// ARBITRARY chaining value: the asserted sequence of compressed blocks is the one FIPS 180-4 prescribes (5.1.1 padding,
// 6.1 processing order, digest = big-endian h0..h4).  Natively the real kernel runs and the twin blocks compare with the
// fold of the real kernel over the specification's blocks.
//   contract of the recorded kernel: digest_block(h, b) = SHA-1 compression of the 16 big-endian words of b (word loading
//   decided here by c01_sha1_block_load_be with digest_block_u32 recorded; the rounds are the kernel engine's business).
#![allow(dead_code, unused_imports, unused_variables, unused_macros, missing_docs, static_mut_refs)]
use super::*;
use crate::cryptoutil::verif_hash_fb::{blocks_of, fb_addr, fb_buf, fb_idx, mk_fb};
use crate::hashing::verif_hash::*;
use crate::verif_lib::*;

pub(crate) const HN: usize = 5;
pub(crate) const NL: usize = 3;
pub(crate) static mut K_N: usize = 0;
pub(crate) static mut K_LEN: [usize; NL] = [0; NL];
pub(crate) static mut K_HIN: [[u32; HN]; NL] = [[0; HN]; NL];
pub(crate) static mut K_HOUT: [[u32; HN]; NL] = [[0; HN]; NL];
pub(crate) static mut K_BLK: [[u8; 64]; NL] = [[0u8; 64]; NL];
macro_rules! rec_at {
    ($k:expr, $state:ident, $block:ident, $out:ident) => {{
        K_LEN[$k] = $block.len();
        K_HIN[$k] = *$state;
        K_HOUT[$k] = $out;
        if let Ok(a) = <&[u8; 64]>::try_from($block) {
            K_BLK[$k] = *a;
        }
    }};
}
#[cfg(kani)]
pub(crate) fn kernel_rec(state: &mut [u32; HN], block: &[u8]) {
    let out: [u32; HN] = kani::any();
    unsafe {
        if K_N == 0 {
            rec_at!(0, state, block, out);
        } else if K_N == 1 {
            rec_at!(1, state, block, out);
        } else if K_N == 2 {
            rec_at!(2, state, block, out);
        }
        K_N += 1;
    }
    *state = out;
}
/// same, but instead of the whole block only the byte at the position K_J chosen by the harness is recorded (a 64-byte copy
/// through a pointer with symbolic offset costs 64 symbolic reads per call; the update step asserts one symbolic position)
pub(crate) static mut K_J: usize = 0;
pub(crate) static mut K_BYTE: [u8; NL] = [0; NL];
#[cfg(kani)]
pub(crate) fn kernel_rec_j(state: &mut [u32; HN], block: &[u8]) {
    let out: [u32; HN] = kani::any();
    unsafe {
        let b = if K_J < block.len() { block[K_J] } else { 0 };
        if K_N < NL {
            K_LEN[K_N] = block.len();
            K_HIN[K_N] = *state;
            K_HOUT[K_N] = out;
            K_BYTE[K_N] = b;
        }
        K_N += 1;
    }
    *state = out;
}
fn k_reset() {
    unsafe {
        K_N = 0;
    }
}
/// the crate's real kernel (native twin)
#[cfg(not(kani))]
fn real_kernel(h: &mut [u32; HN], b: &[u8; 64]) {
    digest_block(h, b)
}
fn len_field(n: u64) -> [u8; 16] {
    len_be64(n)
}
fn ser(h: &[u32; HN]) -> [u8; 20] {
    ser_be32::<5, 20>(h)
}
const SPEC_IV: [u32; HN] = FIPS_SHA1_H0;

fn eq5(a: &[u32; HN], b: &[u32; HN]) -> bool {
    a[0] == b[0] && a[1] == b[1] && a[2] == b[2] && a[3] == b[3] && a[4] == b[4]
}

pub(crate) struct Arb {
    pub h: [u32; HN],
    pub buffer: [u8; 64],
    pub idx: usize,
    pub processed: u64,
}
/// an arbitrary context state satisfying the representation invariant (drawn in this order)
pub(crate) fn arb() -> Arb {
    let h: [u32; HN] = any();
    let buffer: [u8; 64] = any();
    let idx: usize = any();
    let processed: u64 = any();
    assume(idx < 64 && (processed & 63) as usize == idx && processed < (1u64 << 61));
    Arb { h, buffer, idx, processed }
}
pub(crate) fn mk(a: &Arb) -> Context {
    Context { h: a.h, processed_bytes: a.processed, buffer: mk_fb(a.buffer, a.idx) }
}
fn is_new(c: &Context) -> bool {
    eq5(&c.h, &SPEC_IV) && c.processed_bytes == 0 && fb_idx(&c.buffer) == 0
}
fn same_alpha(x: &Context, y: &Context) -> bool {
    let (bx, by) = (fb_buf(&x.buffer), fb_buf(&y.buffer));
    let n = fb_idx(&x.buffer);
    let mut ok = eq5(&x.h, &y.h) && x.processed_bytes == y.processed_bytes && n == fb_idx(&y.buffer);
    let mut j = 0;
    while j < 64 {
        if j < n {
            ok &= bx[j] == by[j];
        }
        j += 1;
    }
    ok
}
fn spec_tail(buffer: &[u8; 64], idx: usize, lenbytes: &[u8; 16]) -> ([u8; 64], [u8; 64], usize) {
    let t = md_tail_len(idx, 64, 8);
    let mut b0 = [0u8; 64];
    let mut b1 = [0u8; 64];
    let mut p = 0;
    while p < 64 {
        b0[p] = md_tail_byte(p, idx, t, 8, buffer[p], lenbytes);
        b1[p] = if t > 64 { md_tail_byte(64 + p, idx, t, 8, 0, lenbytes) } else { 0 };
        p += 1;
    }
    (b0, b1, if t == 64 { 1 } else { 2 })
}
fn finish_covers(a: &Arb) {
    vcover!(a.idx == 55 && a.processed > 0xffff_ffff_ffff, "0x80 and the length field fill the block exactly; high length bytes in use");
    vcover!(a.idx == 56, "length field does not fit: second block");
    vcover!(a.idx == 0 && a.processed == 0, "empty message");
}
/// the compressions a finalisation must have made; returns the chaining value they end in
fn check_finish_calls(a: &Arb) -> [u32; HN] {
    let lenbytes = len_field(a.processed);
    let (t0, t1, nb) = spec_tail(&a.buffer, a.idx, &lenbytes);
    #[cfg(kani)]
    unsafe {
        vassert!(K_N == nb, "finalize: one compression per block of the padded tail (1, or 2 when the length field does not fit)");
        let mut k = 0;
        while k < 2 {
            if k < nb {
                vassert!(K_LEN[k] == 64, "finalize: the compression function is applied to exactly one block");
                let mut j = 0;
                while j < 64 {
                    let e = if k == 0 { t0[j] } else { t1[j] };
                    vassert!(K_BLK[k][j] == e, "finalize: padded tail == pending ++ 0x80 ++ zeros ++ 64-bit bit length in the standard's byte order");
                    j += 1;
                }
            }
            k += 1;
        }
        vassert!(eq5(&K_HIN[0], &a.h), "finalize: first compression starts from the current chaining value");
        if nb == 2 {
            vassert!(eq5(&K_HIN[1], &K_HOUT[0]), "finalize: second compression chains on the first");
            K_HOUT[1]
        } else {
            K_HOUT[0]
        }
    }
    #[cfg(not(kani))]
    {
        let mut hs = a.h;
        for k in 0..nb {
            real_kernel(&mut hs, if k == 0 { &t0 } else { &t1 });
        }
        hs
    }
}
fn check_out(out: &[u8; 20], last: &[u32; HN]) {
    let e = ser(last);
    let mut i = 0;
    while i < 20 {
        vassert!(out[i] == e[i], "finalize: digest == the five chaining words in the standard's byte order");
        i += 1;
    }
}

#[cfg_attr(kani, kani::proof)]
#[cfg_attr(kani, kani::unwind(66))]
#[cfg_attr(kani, kani::stub(crate::hashing::sha1::digest_block, kernel_rec))]
pub(crate) fn c01_sha1_finalize() {
    let a = arb();
    finish_covers(&a);
    vcover!(a.idx == 63, "only the 0x80 byte fits");
    let c = mk(&a);
    k_reset();
    let out = c.finalize();
    let last = check_finish_calls(&a);
    check_out(&out, &last);
}
#[cfg_attr(kani, kani::proof)]
#[cfg_attr(kani, kani::unwind(66))]
#[cfg_attr(kani, kani::stub(crate::hashing::sha1::digest_block, kernel_rec))]
pub(crate) fn c02_sha1_finalize_reset() {
    let a = arb();
    finish_covers(&a);
    let mut c = mk(&a);
    k_reset();
    let out = c.finalize_reset();
    let last = check_finish_calls(&a);
    check_out(&out, &last);
    vassert!(is_new(&c), "finalize_reset: context equals a freshly created one");
}

/// update_mut step: data length 0..=MAX ("for every byte position" = one symbolic position j, see hash_fixedbuf.rs)
fn case_update_step<const MAX: usize>() {
    let a = arb();
    let data = Bytes::<MAX>::any();
    let j: usize = any();
    assume(j < 64);
    let len = data.len;
    let (idx, buffer) = (a.idx, a.buffer);
    vcover!(len == 0, "empty input");
    vcover!(idx > 0 && idx + len == 63, "partial buffer stays one byte short of a block");
    vcover!(idx > 0 && idx + len == 129, "top-up AND a direct block AND a one-byte tail in one call");
    vcover!(idx == 0 && len == 64, "exactly one block straight from the input");
    let mut c = mk(&a);
    k_reset();
    unsafe {
        K_J = j;
    }
    c.update_mut(&data.buf[..len]);

    let total = idx + len;
    let nblk = total >> 6;
    vassert!(c.processed_bytes == a.processed + (len as u64), "update: processed_bytes += input length");
    let nidx = total - nblk * 64;
    vassert!(fb_idx(&c.buffer) == nidx, "update: buffer fill == stream length mod block size");
    let nbuf = fb_buf(&c.buffer);
    if j < nidx {
        let k = nblk * 64 + j;
        let s = if k < idx { buffer[k] } else { data.buf[k - idx] };
        vassert!(nbuf[j] == s, "update: buffer holds the incomplete tail of pending ++ input");
    }
    #[cfg(kani)]
    unsafe {
        vassert!(K_N == nblk, "update: one compression per complete block of pending ++ input");
        let mut hprev = a.h;
        let mut k = 0;
        while k < NL {
            if k < K_N {
                vassert!(eq5(&K_HIN[k], &hprev), "update: compressions are chained, starting from the current chaining value");
                hprev = K_HOUT[k];
                vassert!(K_LEN[k] == 64, "update: the compression function is applied to exactly one block");
                let q = k * 64 + j;
                let s = if q < idx { buffer[q] } else { data.buf[q - idx] };
                vassert!(K_BYTE[k] == s, "update: k-th compressed block == k-th block of pending ++ input");
            }
            k += 1;
        }
        vassert!(eq5(&c.h, &hprev), "update: chaining value is the result of the last compression (unchanged if none)");
    }
    #[cfg(not(kani))]
    {
        let mut hs = a.h;
        for b in 0..nblk {
            let mut blk = [0u8; 64];
            for i in 0..64 {
                let q = b * 64 + i;
                blk[i] = if q < idx { buffer[q] } else { data.buf[q - idx] };
            }
            real_kernel(&mut hs, &blk);
        }
        assert!(eq5(&c.h, &hs), "update: chaining value is the result of the last compression (unchanged if none)");
    }
}
#[cfg_attr(kani, kani::proof)]
#[cfg_attr(kani, kani::unwind(5))]
#[cfg_attr(kani, kani::stub(crate::hashing::sha1::digest_block, kernel_rec_j))]
pub(crate) fn c01_sha1_update_step() {
    case_update_step::<66>();
}
#[cfg_attr(kani, kani::proof)]
#[cfg_attr(kani, kani::unwind(66))]
#[doc = "verif-unwindset: digest_blocks=4"]
#[cfg_attr(kani, kani::stub(crate::hashing::sha1::digest_block, kernel_rec_j))]
pub(crate) fn c01_t_sha1_update_step_130() {
    case_update_step::<130>();
}

/// new() == (initial value of the standard, 0 bytes, empty buffer); reset() from an arbitrary state == new(); clone copies alpha
#[cfg_attr(kani, kani::proof)]
#[cfg_attr(kani, kani::unwind(66))]
pub(crate) fn c02_sha1_new_reset_clone() {
    let a = arb();
    vassert!(is_new(&Context::new()), "new: initial hash value of the standard, no bytes processed, empty buffer");
    let mut c = mk(&a);
    let d = c.clone();
    vassert!(same_alpha(&c, &d), "clone: same chaining value, byte count and pending bytes");
    c.reset();
    vassert!(is_new(&c), "reset: context equals a freshly created one");
}

// update(x) == { update_mut(x); self }: update_mut recorded (the model bumps processed_bytes so that the returned context is
// recognisably the one that was fed)
pub(crate) static mut UM_N: usize = 0;
pub(crate) static mut UM_PTR: usize = 0;
pub(crate) static mut UM_LEN: usize = 0;
#[cfg(kani)]
fn update_mut_rec(c: &mut Context, input: &[u8]) {
    unsafe {
        UM_N += 1;
        UM_PTR = input.as_ptr() as usize;
        UM_LEN = input.len();
    }
    c.processed_bytes = c.processed_bytes.wrapping_add(1);
}
#[cfg_attr(kani, kani::proof)]
#[cfg_attr(kani, kani::unwind(66))]
#[cfg_attr(kani, kani::stub(crate::hashing::sha1::Context::update_mut, update_mut_rec))]
pub(crate) fn c02_sha1_update_eq_update_mut() {
    let a = arb();
    let data = Bytes::<5>::any();
    let c1 = mk(&a);
    let mut c2 = mk(&a);
    unsafe {
        UM_N = 0;
    }
    let c1 = c1.update(data.get());
    #[cfg(kani)]
    unsafe {
        vassert!(UM_N == 1 && UM_PTR == data.get().as_ptr() as usize && UM_LEN == data.len, "update: exactly one update_mut call, on the caller's slice");
        vassert!(c1.processed_bytes == a.processed + 1, "update: returns the context that was fed");
    }
    c2.update_mut(data.get());
    vassert!(same_alpha(&c1, &c2), "update == update_mut");
}

/// digest_block(): the 64 bytes are handed to the round function as 16 BIG-ENDIAN words (FIPS 180-4 6.1.2 step 1), once
pub(crate) static mut W_N: usize = 0;
pub(crate) static mut W_BLK: [u32; 16] = [0; 16];
pub(crate) static mut W_HIN: [u32; 5] = [0; 5];
pub(crate) static mut W_HOUT: [u32; 5] = [0; 5];
#[cfg(kani)]
fn block_u32_rec(state: &mut [u32; 5], block: &[u32; 16]) {
    let out: [u32; 5] = kani::any();
    unsafe {
        W_N += 1;
        W_BLK = *block;
        W_HIN = *state;
        W_HOUT = out;
    }
    *state = out;
}
#[cfg_attr(kani, kani::proof)]
#[cfg_attr(kani, kani::unwind(18))]
#[cfg_attr(kani, kani::stub(crate::hashing::sha1::digest_block_u32, block_u32_rec))]
pub(crate) fn c01_sha1_block_load_be() {
    let h: [u32; 5] = any();
    let blk: [u8; 64] = any();
    let mut s = h;
    unsafe {
        W_N = 0;
    }
    digest_block(&mut s, &blk);
    #[cfg(kani)]
    unsafe {
        vassert!(W_N == 1 && eq5(&W_HIN, &h) && eq5(&s, &W_HOUT), "digest_block: one application of the round function on the current chaining value");
        let mut i = 0;
        while i < 16 {
            let w = ((blk[4 * i] as u32) << 24) | ((blk[4 * i + 1] as u32) << 16) | ((blk[4 * i + 2] as u32) << 8) | (blk[4 * i + 3] as u32);
            vassert!(W_BLK[i] == w, "digest_block: message words are loaded big-endian");
            i += 1;
        }
    }
    #[cfg(not(kani))]
    {
        let mut w = [0u32; 16];
        for i in 0..16 {
            w[i] = u32::from_be_bytes([blk[4 * i], blk[4 * i + 1], blk[4 * i + 2], blk[4 * i + 3]]);
        }
        let mut e = h;
        digest_block_u32(&mut e, &w);
        assert!(eq5(&s, &e), "digest_block: message words are loaded big-endian");
    }
}

// kernel for the end-to-end harness of hash_spec.rs: stand-in under Kani (also the stub there), the crate's kernel natively
#[cfg(kani)]
pub(crate) fn toy_kernel(state: &mut [u32; 5], block: &[u8]) {
    assert!(block.len() == 64);
    toy_mix32(state, block);
}
pub(crate) fn kernel(h: &mut [u32; 5], blk: &[u8]) {
    #[cfg(kani)]
    toy_kernel(h, blk);
    #[cfg(not(kani))]
    digest_block(h, blk);
}
