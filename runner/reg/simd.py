"""C16 extension: SHA-256 SSE4.1 / AVX batching glue (harness/incrate/sha256_simd.rs; overlay lines are in runner/overlay.py)."""
EXPORTS = {
    "crate::hashing::sha2::impl256::verif_simd": ("src/hashing/sha2/mod.rs", "self::impl256::verif_simd", "verif_simd_x", 'target_arch = "x86_64"', "crate::hashing::sha2"),
}
