// Native execution entry for mirsym kernel counterexamples (BLAKE2b / BLAKE2s compression as EngineB/EngineS::compress dispatch it).
// Not a proof harness.
#![allow(dead_code, unused_imports, missing_docs)]
use crate::verif_lib::*;

#[cfg_attr(kani, kani::proof)]
pub(crate) fn zz_native_kernel_blake2() {
    #[cfg(not(kani))]
    {
        use super::{EngineB, EngineS, LastBlock};
        let op: u8 = any();
        let last: bool = any();
        let lb = if last { LastBlock::Yes } else { LastBlock::No };
        let mut s = std::string::String::from("VERIF-NATIVE-OUT:");
        if op == 44 {
            let h: [u64; 8] = any();
            let t: [u64; 2] = any();
            let m: [u8; 128] = any();
            let mut e = EngineB::new(1, 0);
            e.h = h;
            e.t = t;
            e.compress(&m, lb);
            for v in e.h.iter().chain(e.t.iter()) {
                s.push_str(&std::format!(" {}", v));
            }
        } else {
            let h: [u32; 8] = any();
            let t: [u32; 2] = any();
            let m: [u8; 64] = any();
            let mut e = EngineS::new(1, 0);
            e.h = h;
            e.t = t;
            e.compress(&m, lb);
            for v in e.h.iter().chain(e.t.iter()) {
                s.push_str(&std::format!(" {}", v));
            }
        }
        std::println!("{}", s);
    }
}
