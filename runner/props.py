"""Property registry: which harness-name prefixes decide which property, bounds text, assumptions, extra engines."""

PROPS = {
    "C18": dict(
        prefixes=["c18_"],
        level="model_checking",
        bounds="integers: full width (all 2^64 / 2^128 operand pairs); fixed arrays N in {0,1,5,16,32} (u8), {0,1,5} (u64); "
               "byte slices of symbolic length 0..=40, u64 slices 0..=9; big-endian ordering N in {1,2,8,32}; "
               "limb-array swap/set N=5 (u64) and N=10 (i32); MacResult lengths 0..=20 each side; Tag 16 bytes",
        outside="array lengths other than the listed instantiations (the code is one generic loop per impl); slices longer than the bound",
        assumptions=["Choice values are 0 or 1 (the only values the crate constructs)"],
        trusted=[],
        explanation="bounded model checking of the real constant_time.rs / mac.rs / chacha20poly1305.rs code against the plain operators",
        level_text="Every helper is compared with its plain operator by CBMC over ALL operand values at full width (no sampling); array and "
                   "slice helpers for the listed sizes/lengths. A counterexample is replayed natively (dev and release) before it is reported.",
        level_note="Assumes Choice holds 0/1. Bounds: arrays N in {0,1,5,16,32}/{0,1,5}, slices <= 40 bytes / 9 words, BE ordering N in {1,2,8,32}, "
                   "MacResult <= 20 bytes. Trusted: Kani's MIR->goto translation, CBMC, CaDiCaL.",
    ),
}

PROPS["C03"] = dict(
    prefixes=["c03_"],
    level="model_checking",
    bounds="keys (16/32 bytes), nonces (8/12/16 bytes), 16-word states, counters: all values, full width; round loop pinned for ROUNDS in {2,4} "
           "(quick) and full 8-round block (thorough)",
    outside="full-block equivalence for ROUNDS in {12,20} (only the double round on arbitrary states and the loop count for 2/4/8 are decided); "
            "data lengths (C04)",
    assumptions=["stub: core::arch::x86_64::_mm_add_epi32 -> lane-wise wrapping add (Kani 0.68 inserts a spurious overflow assertion into simd_add)"],
    trusted=["harness/incrate/chacha_spec.rs transcription of RFC 8439 2.1-2.3 / Bernstein chacha-20080128"],
    explanation="both ChaCha engines and the cipher contexts are compared with a transcription of the specification on symbolic keys, nonces, states and counters",
    level_text="State layout for every key/nonce shape, the double round on an ARBITRARY 16-word state, feed-forward, serialisation, HChaCha extraction and "
               "all three counter operations (so counter values next to 2^32-1 / 2^64-1 are ordinary states) are decided by CBMC at full width for the "
               "SSE2 engine, the portable engine, and Salsa; context-level update/XChaCha/XSalsa wiring with the round function recorded.",
    level_note="Stub _mm_add_epi32 (lane-wise wrapping add). ROUNDS/2 loop count is pinned by instantiations 2 and 4 (quick) and a full 8-round block "
               "(thorough); 12- and 20-round full blocks are outside the solver's reach and rest on the uniform loop.",
)
PROPS["C16"] = dict(
    prefixes=["c16_", "c03_ref_", "c03_sse2_", "c03_t_ref_", "c03_t_sse2_"],
    level="model_checking",
    bounds="ChaCha: all keys/nonces/states at full width, SSE2 engine vs portable engine compiled side by side; SHA-256: batching glue of avx::digest_block and "
           "sse41::digest_block for every block count 0..=20 (8-way batches, 4-way batches, scalar tail) with the kernels recorded",
    outside="the SIMD KERNELS themselves (SHA-256 message_schedule_*ways / compress_*ways, BLAKE2 AVX/AVX2 compressions): CBMC cannot execute AVX/SSE4.1 intrinsics and "
            "Kani ignores -C target-feature; only the native twin of the batching harness runs the real vector code (this host has AVX2) when replaying a counterexample",
    assumptions=["stub: _mm_add_epi32 -> lane-wise wrapping add"],
    trusted=[],
    explanation="differential harnesses SSE2 vs portable ChaCha engine; both also against the specification",
    level_text="ChaCha SSE2 engine == portable engine on init (six key/nonce shapes), double round on arbitrary state, add_back, increment, increment64, "
               "set_counter, output_bytes, output_ad_bytes: decided by CBMC for all inputs. SHA-256 AVX and SSE4.1 digest_block: batch partition of the input "
               "(8-way, 4-way, scalar tail) for every number of blocks up to 20.",
    level_note="Vector kernels (SHA-256 schedules/compressions, BLAKE2 AVX/AVX2) are OUTSIDE the claim; the SHA-256 batching logic around them (which block goes to which "
               "kernel, every block exactly once, in order) is decided for 0..=20 blocks with avx.rs/sse41.rs mounted by the overlay.",
)

PROPS["C04"] = dict(
    prefixes=["c04_"],
    level="model_checking",
    bounds="one process_mut/process call from an ARBITRARY context (16 arbitrary state words, arbitrary cached block, every offset 0..=64) on a buffer of "
           "symbolic length 0..=130 (thorough: 192); block function instantiated with ROUNDS=2 (one real double round); DRG requests bytes<N> N in {1,7,64,65}, "
           "u32, u64, fill_bytes<33>, fill_slice len<=70 over arbitrary prior buffer contents",
    outside="buffers longer than the bound in ONE call (longer inputs are compositions of steps: the step lemma is closed under composition because the "
            "post-state is again an arbitrary context); ROUNDS in {8,12,20} inside process_mut (the round count only enters through rounds(), decided in C03)",
    assumptions=["stub: core::arch::x86_64::_mm_add_epi32 -> lane-wise wrapping add (Kani 0.68 inserts a spurious overflow assertion into simd_add)",
                 "context invariant assumed: offset <= 64 (established by new/seek/update, preserved by the step: asserted)"],
    trusted=["harness/incrate/chacha_spec.rs + salsa.rs transcriptions of the block functions"],
    explanation="inductive step of every cipher context against the position-indexed keystream of the specification; partitions, involution, clone and seek "
                "follow from the step lemma",
    level_text="For all five cipher contexts: one process_mut step from an arbitrary context state equals data XOR position-indexed keystream (cached tail, then "
               "freshly generated blocks in counter order), with offset/counter/cached-block bookkeeping asserted, decided by CBMC for all states and all buffer "
               "lengths up to the bound; process == copy+process_mut, length mismatch panics, seek, clone; DRG outputs equal successive keystream bytes "
               "independent of prior buffer contents.",
    level_note="ROUNDS=2 instantiation of the block function inside the step (real code path, one double round); lengths <= 130 per call (192 thorough). "
               "Any call sequence is a composition of verified steps.",
)

# plug-in registrations (runner/reg/*.py): PROPS = {id: entry} adds new properties, PREFIXES = {id: [..]} appends harness
# prefixes to an entry defined elsewhere (e.g. C20 collects refusal/no-panic harnesses from every family)
import os as _os, sys as _sys
_sys.path.insert(0, _os.path.dirname(_os.path.abspath(__file__)))
import overlay as _overlay
for _m in _overlay.REG:
    for _k, _v in getattr(_m, "PROPS", {}).items():
        PROPS[_k] = _v
for _m in _overlay.REG:
    for _k, _v in getattr(_m, "PREFIXES", {}).items():
        if _k in PROPS:
            PROPS[_k]["prefixes"] = list(PROPS[_k]["prefixes"]) + [x for x in _v if x not in PROPS[_k]["prefixes"]]

# C20 ("no panic, profile independence") also owns the overflow obligations of the limb arithmetic: every checked-arithmetic assert of the
# MIR of Poly1305::block and the fe64 functions is discharged by mirsym for all in-class inputs, so dev and release builds compute the same values
if "C20" in PROPS:
    # refusal / counter-boundary harnesses that live under another property's prefix but decide a C20 clause as well
    # (cipher block counters crossing their word boundary; KDF length limits; inadmissible parameters; length mismatches)
    for _p in ["c03_ref_counters", "c03_sse2_counters", "c03_salsa_counter_addback_output", "c04_chacha_process_len_mismatch_panics",
               "c04_xchacha_process_len_mismatch_panics", "c04_chachaorig_process_len_mismatch_panics", "c04_salsa_process_len_mismatch_panics",
               "c04_xsalsa_process_len_mismatch_panics", "c10_hkdf_expand_limit_", "c10_pbkdf2_c0_refused", "c10_scrypt_params_inadmissible_refused",
               "c18_slice8_len_mismatch_panics"]:
        if _p not in PROPS["C20"]["prefixes"]:
            PROPS["C20"]["prefixes"] = list(PROPS["C20"]["prefixes"]) + [_p]
    import mirsym_extra as _mx
    PROPS["C20"].setdefault("extra", []).append(_mx.make_extra("C20"))

_PENDING = "not yet built in this round; see DESIGN.md section 4 for the plan"
NOT_APPLICABLE = {
    "C19": "property is about the program-counter trace of the optimised machine code; no installed engine can encode machine code or LLVM IR "
           "symbolically, and a MIR-level surrogate is unsound in both directions (DESIGN.md 4/C19)",
}
for _i in range(1, 21):
    _p = "C%02d" % _i
    if _p not in PROPS and _p not in NOT_APPLICABLE:
        NOT_APPLICABLE[_p] = _PENDING

_MIRSYM_PROPS = sorted(k for k, v in PROPS.items() if v.get("extra"))
ENGINES = [
    dict(name="kani-overlay", path="runner/ + harness/incrate/", serves_properties=sorted(PROPS.keys()),
         kind_free_text="Kani 0.68 / CBMC 6.11 + CaDiCaL bounded model checking of the real crate: harness files mounted as child modules of a scratch copy of /repo "
                        "(inductive steps from arbitrary states, recorder stubs, per-loop unwinding, native replay of counterexamples)"),
    dict(name="mirsym", path="mirsym/ + runner/mirsym_extra.py", serves_properties=_MIRSYM_PROPS,
         kind_free_text="own symbolic interpreter of the nightly's MIR dump of the scratch copy: Int domain (polynomials over limb atoms, quotient atoms for shifts/masks, "
                        "monomial abstraction, z3 4.x linear integer arithmetic; every overflow assert of the checked MIR is an obligation) and ring domain (group formulas, "
                        "ladder step, addition chains as polynomial identities over GF(2^255-19)); counterexamples re-executed concretely and cross-checked against the native build"),
]
