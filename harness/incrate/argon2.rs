// C11 — Argon2 (src/kdf/argon2.rs; child module of crate::kdf::argon2), plus the C20 setter refusals of `Params`.
//
// End-to-end symbolic execution of Argon2 is out of reach (a minimal instance is 8 KiB of data-dependently addressed
// memory and ~10^4 64-bit multiply-adds, DESIGN.md 4/C11).  The function is decided PIECEWISE; every piece is compared
// with a specification written from RFC 9106 (section numbers in the comments), over symbolic inputs:
//
//   c11_geometry            Params setters -> m' = 4p*floor(m/4p), q = m'/p columns per lane, segment = q/4   (3.2 step 3)
//   c11_index_alpha_*       reference-set size |W| and the mapping J1 -> z                                     (3.4.2)
//   c11_fill_block          G(X,Y) = P on 8 rows, P on 8 columns, xor R; xor into the old block (v0x13)        (3.5), P recorded
//   zz_c11_p_equals_rfc     permutation P / GB (3.6): NOT decided (multiplier miter beyond SAT), kept unselected
//   c11_hprime_*            variable-length hash H' for symbolic tag length                                    (3.3), BLAKE2b recorded
//   c11_hprime_block_init H'^1024(H0 || LE32(col) || LE32(lane))                                             (3.2 steps 4,5)
//   c11_h0                  H0 byte stream                                                                     (3.2 step 1), BLAKE2b recorded
//   c11_entry_points_*      argon2::<T> and argon2_at make the same calls                                      H0::new / Memory::new / process recorded
//   c11_segment_*           fill_segment: addressing mode, address-block refresh (every 128), prev/ref/cur, with_xor   (3.4, 3.4.1.x)
//   c11_process_*           process: first two columns, pass/slice/lane order, final xor of last column + H'   (3.2 steps 4-8)
//
// Recorder stubs (Kani only; natively the real callee runs and the twin block checks bytes against the specification):
//   p                     -> p_rec              fresh outputs, inputs logged          contract 'p == P of RFC 3.6' is NOT solver-decided (see zz_c11_p_equals_rfc)
//   blake2b Context/ContextDyn update / finalize_at, ContextDyn::new -> b2b_*_rec     contract: BLAKE2b == RFC 7693 is C01's claim
//   fill_block / next_addresses / index_alpha / hprime / hprime_block_init / fill_segment -> *_rec in the skeleton harnesses;
//                                                 each of them has its own harness in this file on the REAL code.
#![allow(dead_code, unused_imports, missing_docs, unused_variables, unused_mut, static_mut_refs)]
use super::*;
use crate::verif_lib::*;

// =====================================================================================================================
// helpers
// =====================================================================================================================
pub(crate) fn nz(x: u32) -> NonZeroU32 {
    match NonZeroU32::new(x) {
        Some(v) => v,
        None => unreachable!(),
    }
}
/// a Params value built field by field (no setter involved)
pub(crate) fn mk_params(hash_type: Type, version: u32, p: u32, t: u32, memory_kb: u32, segment_length: u32) -> Params {
    Params {
        parallelism: nz(p),
        iterations: nz(t),
        memory_kb,
        version,
        hash_type,
        memory_blocks: segment_length * 4 * p,
        segment_length,
        lane_length: segment_length * 4,
    }
}
pub(crate) fn any_type() -> Type {
    let y: u8 = any();
    assume(y < 3);
    match y {
        0 => Type::Argon2d,
        1 => Type::Argon2i,
        _ => Type::Argon2id,
    }
}
fn ok(r: Result<Params, InvalidParam>) -> Params {
    match r {
        Ok(p) => p,
        Err(_) => {
            vassert!(false, "Params setter refused an in-range value");
            unreachable!()
        }
    }
}

// =====================================================================================================================
// RFC 9106 3.2 step 3: memory geometry
// =====================================================================================================================
/// For ALL (m, p) with 1 <= p < 2^24: both setter orders give parallelism p, memory parameter max(m, 8p) (the documented
/// silent raise; for the in-domain case m >= 8p this is m itself, which is what H0 hashes), and
///   m' = 4p * floor(m / 4p),  q = m' / p,  segment = q / 4,  at least 2 blocks per segment,
/// without overflow anywhere in the setters.
fn case_geometry(pmax: u32, mmax: u32, mode: u8) {
    let m: u32 = any();
    let p: u32 = any();
    let memory_first: bool = any();
    let ty = any_type();
    assume(p >= 1 && p <= pmax && m <= mmax);
    let base = match ty {
        Type::Argon2d => Params::argon2d(),
        Type::Argon2i => Params::argon2i(),
        Type::Argon2id => Params::argon2id(),
    };
    let pr = if memory_first { ok(ok(base.memory_kb(m)).parallelism(p)) } else { ok(ok(base.parallelism(p)).memory_kb(m)) };
    let m_eff = if m < 8 * p { 8 * p } else { m };
    vcover!(m >= 8 * p && pr.memory_blocks != m, "in-domain memory size not divisible by 4p");
    vcover!(m == 8 * p, "smallest legal memory");
    vcover!(m == mmax && p == 1, "largest memory of the bound");
    vcover!(m >= 8 * p && p == pmax, "largest lane count of the bound");
    vcover!(m < 8 * p, "memory below 8p: silently raised (documented)");
    vcover!(m >= 8 * p && pr.segment_length > 128, "segment length above 128");
    vcover!(memory_first, "memory set before parallelism");
    vcover!(!memory_first, "parallelism set before memory");
    vassert!(pr.parallelism.get() == p, "geometry: lane count is the requested parallelism");
    vassert!(pr.memory_kb == m_eff, "geometry: memory parameter m kept as given (raised to 8p only when below 8p)");
    vassert!(pr.iterations.get() == 1 && pr.version == 0x13 && pr.hash_type == ty, "geometry: setters leave the other parameters alone");
    let fourp = 4 * p;
    let q = m_eff / fourp;
    if mode == 0 {
        vassert!(pr.segment_length == q, "geometry: segment length = floor(m / 4p)");
        vassert!(pr.memory_blocks == q.wrapping_mul(fourp), "geometry: m' = 4p * floor(m / 4p)");
        vassert!(pr.memory_blocks <= m_eff && m_eff - pr.memory_blocks < fourp, "geometry: m' is the largest multiple of 4p not above m");
    }
    vassert!(pr.lane_length as u64 == 4 * (pr.segment_length as u64), "geometry: lane length q = m' / p = 4 segments");
    vassert!(pr.segment_length >= 2, "geometry: at least two blocks per segment");
}
/// quick tier: 1..=63 lanes, memory up to 2^18 KiB (256 MiB), both setter orders, all three variants
#[cfg_attr(kani, kani::proof)]
#[cfg_attr(kani, kani::unwind(4))]
pub(crate) fn c11_geometry() {
    case_geometry(63, 1 << 18, 0);
}
/// thorough tier, FULL range (every lane count the setter accepts, 1..=2^24-1, every u32 memory size): no overflow or panic in
/// the setters, memory parameter kept / raised as documented, lane length = 4 segments, at least 2 blocks per segment.
/// (The floor(m / 4p) identity itself needs a second 32-bit divider/multiplier in the formula and is decided for the bounded
/// ranges above: 63 lanes x 2^18 KiB takes 45 s, 255 lanes x 2^20 KiB did not finish in 6 minutes.)
#[cfg_attr(kani, kani::proof)]
#[cfg_attr(kani, kani::unwind(4))]
pub(crate) fn c11_t_geometry_full_range_consistency() {
    case_geometry(0xff_ffff, u32::MAX, 1);
}

// =====================================================================================================================
// RFC 9106 3.4.2: mapping J1 to the reference block index
// =====================================================================================================================
/// |W| and z for the block at (pass, slice, index) of a lane with 4 segments of `seg` blocks.
/// W (3.4.2): "If l is the current lane, then W includes the indices of all blocks in the last SL - 1 = 3 segments computed
/// and finished, as well as the blocks computed in the current segment in the current pass excluding B[i][j-1].  If l is not
/// the current lane, then W includes the indices of all blocks in the last 3 segments computed and finished in lane l.  If
/// B[i][j] is the first block of a segment, then the very last index from W is excluded."   In the first pass only the
/// segments before the current slice exist.   x = J1^2 / 2^32, y = (|W| * x) / 2^32, zz = |W| - 1 - y, z = zz-th index of W.
/// returns (|W|, z)
pub(crate) fn spec_ref_index(pass: u32, slice: u32, index: u32, seg: u32, j1: u32, same_lane: bool) -> (u64, u32) {
    let seg = seg as u64;
    let lane_len = seg + seg + seg + seg;
    // finished segments, oldest first: in pass 0 the slices 0..slice, later the three slices following the current one (cyclically)
    let (first, finished) = if pass == 0 { (0u32, slice) } else { ((slice + 1) & 3, 3u32) };
    let mul = |k: u32| -> u64 {
        match k {
            0 => 0,
            1 => seg,
            2 => seg + seg,
            _ => seg + seg + seg,
        }
    };
    let mut w = mul(finished);
    if same_lane {
        w += index as u64; // blocks of the current segment computed so far ...
        w -= 1; // ... excluding B[i][j-1]
    } else if index == 0 {
        w -= 1;
    }
    // J1 < 2^32 and |W| < 2^32: the products below are exact in 64 bits
    let x = (j1 as u64).wrapping_mul(j1 as u64) >> 32;
    let y = w.wrapping_mul(x) >> 32;
    let zz = w - 1 - y;
    let z = mul(first) + zz;
    let z = if z >= lane_len { z - lane_len } else { z };
    (w, z as u32)
}

/// index_alpha for ALL reachable positions, ALL J1 (full 32 bits), segment lengths 2..=seg_max.
/// The proof cost is dominated by two 32x32 multiplier equivalences (J1^2 and |W|*x on the code side and on the
/// specification side) and grows with seg_max: measured 2^10: 65 s, 2^16: 150 s, 2^24: > 8 min (same with z3/cvc5/kissat).
fn case_index_alpha(first_pass: bool, same_lane: bool, seg_max: u32) {
    let pass: u32 = any();
    let slice: u32 = any();
    let index: u32 = any();
    let seg: u32 = any();
    let j1: u32 = any();
    assume(seg >= 2 && seg <= seg_max && slice < 4 && index < seg);
    assume((pass == 0) == first_pass);
    // reachable positions: the first two blocks of a lane are not computed by G; in the first slice of the first pass only the own lane is referenced
    assume(!(pass == 0 && slice == 0) || (index >= 2 && same_lane));
    vcover!(slice == 0 || (first_pass && !same_lane), "first slice (other lanes are not referenced there in the first pass)");
    vcover!(slice == 3, "last slice");
    vcover!(index == 0, "first block of a segment");
    vcover!(seg > 128 && index > 128, "segment length above 128");
    vcover!(seg == seg_max && index == seg - 1, "largest lane of the bound");
    vcover!(j1 == u32::MAX, "J1 = 2^32-1");
    vcover!(j1 == 0, "J1 = 0");
    vcover!(pass == u32::MAX || first_pass, "last possible pass");
    let params = Params {
        parallelism: nz(1),
        iterations: nz(1),
        memory_kb: 0,
        version: 0x13,
        hash_type: Type::Argon2d,
        memory_blocks: 0,
        segment_length: seg,
        lane_length: 4 * seg,
    };
    let pos = BlockPos { pass, lane: 0, slice, index };
    let got = index_alpha(&params, &pos, j1, same_lane);
    let (_w, z) = spec_ref_index(pass, slice, index, seg, j1, same_lane);
    vassert!(got == z, "index_alpha: z = the zz-th index of W, zz = |W| - 1 - (|W| * (J1^2 / 2^32)) / 2^32");
    // consequences of 3.4.2 stated directly on the result (independent of the formula above)
    let lane_len = 4 * (seg as u64);
    let seg_start = (slice as u64) * (seg as u64);
    let cur = seg_start + index as u64;
    vassert!((got as u64) < lane_len, "index_alpha: reference index inside the lane");
    if same_lane {
        let prev = if cur == 0 { lane_len - 1 } else { cur - 1 };
        vassert!(got as u64 != cur && got as u64 != prev, "index_alpha: never the block being computed nor its predecessor");
    }
    if pass == 0 {
        vassert!((got as u64) < cur, "index_alpha: first pass references only blocks already written");
        if !same_lane {
            vassert!((got as u64) < seg_start, "index_alpha: other lanes are referenced in finished segments only");
        }
    } else {
        let in_cur_seg = got as u64 >= seg_start && (got as u64) < seg_start + seg as u64;
        vassert!(!in_cur_seg || (same_lane && (got as u64) < cur), "index_alpha: the current segment is referenced only in the own lane, before the current block");
    }
}
/// quick tier: segment lengths 2..=4096 (memory up to 16 MiB per lane) — covers the property's "few thousand KiB, segment lengths above 128"
#[cfg_attr(kani, kani::proof)]
#[cfg_attr(kani, kani::unwind(4))]
pub(crate) fn c11_index_alpha_pass0_same_lane() {
    case_index_alpha(true, true, 1 << 12);
}
#[cfg_attr(kani, kani::proof)]
#[cfg_attr(kani, kani::unwind(4))]
pub(crate) fn c11_index_alpha_pass0_other_lane() {
    case_index_alpha(true, false, 1 << 12);
}
#[cfg_attr(kani, kani::proof)]
#[cfg_attr(kani, kani::unwind(4))]
pub(crate) fn c11_index_alpha_later_same_lane() {
    case_index_alpha(false, true, 1 << 12);
}
#[cfg_attr(kani, kani::proof)]
#[cfg_attr(kani, kani::unwind(4))]
pub(crate) fn c11_index_alpha_later_other_lane() {
    case_index_alpha(false, false, 1 << 12);
}
/// thorough tier: segment lengths up to 2^16 (256 MiB per lane)
#[cfg_attr(kani, kani::proof)]
#[cfg_attr(kani, kani::unwind(4))]
pub(crate) fn c11_t_index_alpha_pass0_same_lane_64k() {
    case_index_alpha(true, true, 1 << 16);
}
#[cfg_attr(kani, kani::proof)]
#[cfg_attr(kani, kani::unwind(4))]
pub(crate) fn c11_t_index_alpha_pass0_other_lane_64k() {
    case_index_alpha(true, false, 1 << 16);
}
#[cfg_attr(kani, kani::proof)]
#[cfg_attr(kani, kani::unwind(4))]
pub(crate) fn c11_t_index_alpha_later_same_lane_64k() {
    case_index_alpha(false, true, 1 << 16);
}
#[cfg_attr(kani, kani::proof)]
#[cfg_attr(kani, kani::unwind(4))]
pub(crate) fn c11_t_index_alpha_later_other_lane_64k() {
    case_index_alpha(false, false, 1 << 16);
}
/// area size |W| and start position at FULL width (every segment length a u32 lane can have, 2..=2^30-1): with J1 = 0 the
/// mapping selects the last index of W (zz = |W| - 1), with J1 = 2^32-1 the first (zz = 0); no symbolic multiplication is left.
#[cfg_attr(kani, kani::proof)]
#[cfg_attr(kani, kani::unwind(4))]
pub(crate) fn c11_index_alpha_window_full_width() {
    let pass: u32 = any();
    let slice: u32 = any();
    let index: u32 = any();
    let seg: u32 = any();
    let same_lane: bool = any();
    let last: bool = any();
    assume(seg >= 2 && seg <= 0x3fff_ffff && slice < 4 && index < seg);
    assume(!(pass == 0 && slice == 0) || (index >= 2 && same_lane));
    vcover!(seg == 0x3fff_ffff && slice == 3 && index == seg - 1 && pass > 0, "largest lane a u32 can index");
    vcover!(pass == 0 && slice == 0 && index == 2, "first computed block of a lane");
    vcover!(pass > 0 && slice == 0 && index == 0 && !same_lane, "first block of a later pass, other lane");
    let params = Params {
        parallelism: nz(1),
        iterations: nz(1),
        memory_kb: 0,
        version: 0x13,
        hash_type: Type::Argon2d,
        memory_blocks: 0,
        segment_length: seg,
        lane_length: 4 * seg,
    };
    let pos = BlockPos { pass, lane: 0, slice, index };
    let j1 = if last { 0 } else { u32::MAX };
    let got = index_alpha(&params, &pos, j1, same_lane);
    let (_w, z) = spec_ref_index(pass, slice, index, seg, j1, same_lane);
    vassert!(got == z, "index_alpha: first / last index of W (J1 = 2^32-1 / J1 = 0) for every lane size");
}

// =====================================================================================================================
// RFC 9106 3.5 / 3.6: compression function G and permutation P
// =====================================================================================================================
const M32: u64 = 0xffff_ffff;
/// 3.6: GB(a, b, c, d)
fn spec_gb(v: &mut [u64; 16], a: usize, b: usize, c: usize, d: usize) {
    v[a] = v[a].wrapping_add(v[b]).wrapping_add(((v[a] & M32) * (v[b] & M32)).wrapping_mul(2));
    v[d] = (v[d] ^ v[a]).rotate_right(32);
    v[c] = v[c].wrapping_add(v[d]).wrapping_add(((v[c] & M32) * (v[d] & M32)).wrapping_mul(2));
    v[b] = (v[b] ^ v[c]).rotate_right(24);
    v[a] = v[a].wrapping_add(v[b]).wrapping_add(((v[a] & M32) * (v[b] & M32)).wrapping_mul(2));
    v[d] = (v[d] ^ v[a]).rotate_right(16);
    v[c] = v[c].wrapping_add(v[d]).wrapping_add(((v[c] & M32) * (v[d] & M32)).wrapping_mul(2));
    v[b] = (v[b] ^ v[c]).rotate_right(63);
}
/// 3.6: P(S_0..S_7), S_i = (v_{2i+1} || v_{2i})
pub(crate) fn spec_p(v: &mut [u64; 16]) {
    spec_gb(v, 0, 4, 8, 12);
    spec_gb(v, 1, 5, 9, 13);
    spec_gb(v, 2, 6, 10, 14);
    spec_gb(v, 3, 7, 11, 15);
    spec_gb(v, 0, 5, 10, 15);
    spec_gb(v, 1, 6, 11, 12);
    spec_gb(v, 2, 7, 8, 13);
    spec_gb(v, 3, 4, 9, 14);
}
/// 3.5: G(X, Y): R = X xor Y as an 8x8 matrix of 16-byte registers R_0..R_63 (register k = words 2k, 2k+1);
/// P on each row (R_8i .. R_8i+7) giving Q, P on each column (Q_i, Q_i+8, .., Q_i+56) giving Z; result Z xor R
pub(crate) fn spec_g(x: &[u64; 128], y: &[u64; 128]) -> [u64; 128] {
    let mut r = [0u64; 128];
    for k in 0..128 {
        r[k] = x[k] ^ y[k];
    }
    let mut q = r;
    for row in 0..8 {
        let mut v = [0u64; 16];
        for j in 0..8 {
            let reg = 8 * row + j;
            v[2 * j] = q[2 * reg];
            v[2 * j + 1] = q[2 * reg + 1];
        }
        spec_p(&mut v);
        for j in 0..8 {
            let reg = 8 * row + j;
            q[2 * reg] = v[2 * j];
            q[2 * reg + 1] = v[2 * j + 1];
        }
    }
    for col in 0..8 {
        let mut v = [0u64; 16];
        for j in 0..8 {
            let reg = col + 8 * j;
            v[2 * j] = q[2 * reg];
            v[2 * j + 1] = q[2 * reg + 1];
        }
        spec_p(&mut v);
        for j in 0..8 {
            let reg = col + 8 * j;
            q[2 * reg] = v[2 * j];
            q[2 * reg + 1] = v[2 * j + 1];
        }
    }
    for k in 0..128 {
        q[k] ^= r[k];
    }
    q
}

// ---- recorder for the permutation `p` --------------------------------------------------------------------------------
pub(crate) static mut P_N: usize = 0;
pub(crate) static mut P_IN: [[u64; 16]; 16] = [[0; 16]; 16];
pub(crate) static mut P_OUT: [[u64; 16]; 16] = [[0; 16]; 16];
#[cfg(kani)]
#[rustfmt::skip]
pub(crate) fn p_rec(v0: &mut u64, v1: &mut u64, v2: &mut u64, v3: &mut u64, v4: &mut u64, v5: &mut u64, v6: &mut u64, v7: &mut u64,
                    v8: &mut u64, v9: &mut u64, v10: &mut u64, v11: &mut u64, v12: &mut u64, v13: &mut u64, v14: &mut u64, v15: &mut u64) {
    let o: [u64; 16] = kani::any();
    unsafe {
        if P_N < 16 {
            P_IN[P_N] = [*v0, *v1, *v2, *v3, *v4, *v5, *v6, *v7, *v8, *v9, *v10, *v11, *v12, *v13, *v14, *v15];
            P_OUT[P_N] = o;
        }
        P_N += 1;
    }
    *v0 = o[0]; *v1 = o[1]; *v2 = o[2]; *v3 = o[3]; *v4 = o[4]; *v5 = o[5]; *v6 = o[6]; *v7 = o[7];
    *v8 = o[8]; *v9 = o[9]; *v10 = o[10]; *v11 = o[11]; *v12 = o[12]; *v13 = o[13]; *v14 = o[14]; *v15 = o[15];
}

#[inline(never)]
fn w128(a: &[u64; 128], k: usize) -> u64 {
    a[k]
}
#[inline(never)]
fn pin(c: usize, j: usize) -> u64 {
    unsafe { P_IN[c][j] }
}
#[inline(never)]
fn pout(c: usize, j: usize) -> u64 {
    unsafe { P_OUT[c][j] }
}
/// fill_block on three ARBITRARY blocks, both with_xor values.  Under Kani `p` is uninterpreted (fresh outputs): the 16
/// applications must be on the RFC's index sets, in the RFC's data flow; natively the result is compared with spec_g.
/// (With Kani's per-assertion reachability checks on, this harness produced 1 GB of JSON traces: 7-11 min, > 10 GB RSS in
/// kani-driver; the runner passes --no-assertion-reach-checks.)
#[cfg_attr(kani, kani::proof)]
#[cfg_attr(kani, kani::unwind(130))]
#[cfg_attr(kani, kani::stub(p, p_rec))]
pub(crate) fn c11_fill_block() {
    let x: [u64; 128] = any();
    let y: [u64; 128] = any();
    let old: [u64; 128] = any();
    let with_xor: bool = any();
    vcover!(with_xor, "xor into the existing block (version 0x13, pass > 0)");
    vcover!(!with_xor, "overwrite (first pass / version 0x10)");
    let prev = Block(x);
    let rf = Block(y);
    let mut next = Block(old);
    fill_block(&prev, &rf, &mut next, with_xor);
    #[cfg(kani)]
    {
        vassert!(unsafe { P_N } == 16, "fill_block: P applied 16 times (8 rows, 8 columns)");
        // word k belongs to register reg = k / 2 (word e = k % 2), which sits in row reg / 8, column reg % 8 of the 8x8 matrix
        let mut k = 0;
        while k < 128 {
            let e = k & 1;
            let row = k >> 4;
            let col = (k >> 1) & 7;
            let r = w128(&x, k) ^ w128(&y, k);
            // row application `row` (calls 0..7) takes R_8row .. R_8row+7 = words 16 row .. 16 row + 15 of R = X xor Y
            vassert!(pin(row, k & 15) == r, "fill_block: row application i takes registers R_8i..R_8i+7 of R = X xor Y");
            // column application `col` (calls 8..15) takes Q_col, Q_col+8, .., Q_col+56; Q_{8 row + col} = words 2 col, 2 col + 1 of row result `row`
            vassert!(pin(8 + col, 2 * row + e) == pout(row, k & 15), "fill_block: column application c takes registers Q_c, Q_c+8, .., Q_c+56 of the row results");
            // Z_{8 row + col} = words 2 row, 2 row + 1 of column result `col`
            let mut exp = pout(8 + col, 2 * row + e) ^ r;
            if with_xor {
                exp ^= w128(&old, k);
            }
            vassert!(w128(&next.0, k) == exp, "fill_block: result = Z xor R (xor the old block when with_xor)");
            k += 1;
        }
    }
    #[cfg(not(kani))]
    {
        let g = spec_g(&x, &y);
        for k in 0..128 {
            let exp = if with_xor { g[k] ^ old[k] } else { g[k] };
            assert!(next.0[k] == exp, "fill_block: result = Z xor R (xor the old block when with_xor)");
        }
    }
    let mut k = 0;
    while k < 128 {
        vassert!(w128(&prev.0, k) == w128(&x, k) && w128(&rf.0, k) == w128(&y, k), "fill_block: inputs unchanged");
        k += 1;
    }
}

/// the real permutation `p` against the transcription of RFC 9106 3.6 on 16 arbitrary words.
/// NOT SELECTED by any property (name outside every prefix): 32 chained 32x32 multipliers per side form a miter that neither
/// CaDiCaL (10 min) nor kissat (40 min) decided; DESIGN.md plans this equivalence for the term-level engine (E2-BV).  `p` is
/// therefore an undecided link of C11: it is exercised for real only by the native twins / oracle tests.
#[cfg_attr(kani, kani::proof)]
#[cfg_attr(kani, kani::unwind(4))]
#[cfg_attr(kani, kani::solver(kissat))]
pub(crate) fn zz_c11_p_equals_rfc() {
    let v: [u64; 16] = any();
    let mut a = v;
    {
        let [v0, v1, v2, v3, v4, v5, v6, v7, v8, v9, v10, v11, v12, v13, v14, v15] = &mut a;
        p(v0, v1, v2, v3, v4, v5, v6, v7, v8, v9, v10, v11, v12, v13, v14, v15);
    }
    let mut e = v;
    spec_p(&mut e);
    let mut i = 0;
    while i < 16 {
        vassert!(a[i] == e[i], "p: equals P of RFC 9106 3.6 (GB on 4 columns then 4 diagonals)");
        i += 1;
    }
}

// =====================================================================================================================
// C20: Params setters — out-of-range values are refused with the documented Err, in-range values accepted
// =====================================================================================================================
#[cfg_attr(kani, kani::proof)]
#[cfg_attr(kani, kani::unwind(4))]
pub(crate) fn c20_misc_argon2_setters() {
    let p: u32 = any();
    let t: u32 = any();
    let v: u32 = any();
    let m: u32 = any();
    vcover!(p == 0, "parallelism 0");
    vcover!(p == 0xff_ffff, "largest legal parallelism");
    vcover!(p == 0x100_0000, "parallelism one above the limit");
    vcover!(p == u32::MAX, "very large parallelism");
    vcover!(t == 0, "iterations 0");
    vcover!(t == u32::MAX, "largest iteration count");
    vcover!(v == 0x10, "version 0x10");
    vcover!(v == 0x13, "version 0x13");
    vcover!(v == 0x11 || v == 0x12 || v == 0x14 || v == 0xf || v == 0, "neighbouring / zero version numbers");
    match Params::argon2id().parallelism(p) {
        Ok(pr) => {
            vassert!(p >= 1 && p < 0x100_0000, "Params::parallelism: accepted a value outside 1..=2^24-1");
            vassert!(pr.parallelism.get() == p, "Params::parallelism: stores the value");
        }
        Err(InvalidParam::ParallelismZero) => vassert!(p == 0, "Params::parallelism: ParallelismZero only for 0"),
        Err(InvalidParam::ParallelismTooHigh) => vassert!(p >= 0x100_0000, "Params::parallelism: ParallelismTooHigh only for values >= 2^24"),
        Err(_) => vassert!(false, "Params::parallelism: unexpected error kind"),
    }
    match Params::argon2i().iterations(t) {
        Ok(pr) => {
            vassert!(t >= 1, "Params::iterations: accepted 0");
            vassert!(pr.iterations.get() == t, "Params::iterations: stores the value");
        }
        Err(InvalidParam::IterationsZero) => vassert!(t == 0, "Params::iterations: IterationsZero only for 0"),
        Err(_) => vassert!(false, "Params::iterations: unexpected error kind"),
    }
    match Params::argon2d().version(v) {
        Ok(pr) => {
            vassert!(v == 0x10 || v == 0x13, "Params::version: accepted a version other than 0x10 / 0x13");
            vassert!(pr.version == v, "Params::version: stores the value");
        }
        Err(InvalidParam::UnknownVersion) => vassert!(v != 0x10 && v != 0x13, "Params::version: UnknownVersion only for unsupported versions"),
        Err(_) => vassert!(false, "Params::version: unexpected error kind"),
    }
    match Params::argon2d().memory_kb(m) {
        Ok(pr) => vassert!(pr.memory_kb == if m < 8 { 8 } else { m }, "Params::memory_kb: stores the value (raised to 8 per lane when below, as documented)"),
        Err(_) => vassert!(false, "Params::memory_kb: refused a u32 value"),
    }
}

// =====================================================================================================================
// BLAKE2b recorder (Kani only).  A "chain" is  new() . update* . finalize_at(out);  chains never interleave in argon2.rs.
// The model returns FRESH digest bytes per chain, so whatever is proven holds for every hash function with this interface,
// in particular for BLAKE2b (RFC 7693; that the crate's Context/ContextDyn compute it is C01's claim).
// update() -> update_mut() and finalize() -> finalize_at() are real code, so both spellings are recorded.
// Two instances of the recorder: `rs` (10 chains: H' up to 300 bytes) and `rb` (32 chains: the 1024-byte block initialisation).
// =====================================================================================================================
pub(crate) const UL: usize = 4; // recorded updates per chain
macro_rules! b2b_recorder {
    ($m:ident, $hl:expr) => {
        pub(crate) mod $m {
            use super::super::*;
            use super::UL;
            use crate::verif_lib::*;
            pub(crate) const HL: usize = $hl;
            pub(crate) static mut H_N: usize = 0; // finished chains
            pub(crate) static mut U_N: usize = 0; // updates of the chain in progress
            pub(crate) static mut N_NEW: usize = 0; // constructor calls of the chain in progress
            pub(crate) static mut PENDING_PARAM: usize = 0;
            pub(crate) static mut H_NEW: [usize; HL] = [0; HL]; // constructor calls seen by chain k (must be 1)
            pub(crate) static mut H_PARAM: [usize; HL] = [0; HL]; // digest-length parameter of chain k (BITS/8 or ContextDyn::new argument)
            pub(crate) static mut H_FINPARAM: [usize; HL] = [0; HL]; // digest length implied by the finalising type (BITS/8; usize::MAX for ContextDyn)
            pub(crate) static mut H_NUPD: [usize; HL] = [0; HL];
            pub(crate) static mut H_UADDR: [[usize; UL]; HL] = [[0; UL]; HL];
            pub(crate) static mut H_ULEN: [[usize; UL]; HL] = [[0; UL]; HL];
            pub(crate) static mut H_UW4: [[u32; UL]; HL] = [[0; UL]; HL]; // value of a 4-byte update (little-endian)
            pub(crate) static mut H_U64: [[u8; 64]; HL] = [[0; 64]; HL]; // content of update 0 when it is 64 bytes long
            pub(crate) static mut H_OUTADDR: [usize; HL] = [0; HL];
            pub(crate) static mut H_OUTLEN: [usize; HL] = [0; HL];
            pub(crate) static mut H_DIGEST: [[u8; 64]; HL] = [[0; 64]; HL]; // fresh digest of chain k (first H_OUTLEN[k] bytes go to out)
            #[cfg(kani)]
            fn rec_new(param: usize) {
                unsafe {
                    N_NEW += 1;
                    PENDING_PARAM = param;
                }
            }
            #[cfg(kani)]
            fn rec_update(input: &[u8]) {
                unsafe {
                    if H_N < HL && U_N < UL {
                        H_UADDR[H_N][U_N] = input.as_ptr() as usize;
                        H_ULEN[H_N][U_N] = input.len();
                        if input.len() == 4 {
                            H_UW4[H_N][U_N] = u32::from_le_bytes([input[0], input[1], input[2], input[3]]);
                        }
                        if U_N == 0 {
                            if let Ok(a) = <&[u8; 64]>::try_from(input) {
                                H_U64[H_N] = *a;
                            }
                        }
                    }
                    U_N += 1;
                }
            }
            #[cfg(kani)]
            fn rec_finalize(finparam: usize, out: &mut [u8]) {
                let d: [u8; 64] = kani::any();
                unsafe {
                    if H_N < HL {
                        H_NEW[H_N] = N_NEW;
                        H_PARAM[H_N] = PENDING_PARAM;
                        H_FINPARAM[H_N] = finparam;
                        H_NUPD[H_N] = U_N;
                        H_OUTADDR[H_N] = out.as_ptr() as usize;
                        H_OUTLEN[H_N] = out.len();
                        H_DIGEST[H_N] = d;
                    }
                    H_N += 1;
                    U_N = 0;
                    N_NEW = 0;
                }
                assert!(out.len() <= 64);
                if let Ok(a) = <&mut [u8; 64]>::try_from(&mut *out) {
                    *a = d;
                } else {
                    let n = out.len();
                    out.copy_from_slice(&d[..n]);
                }
            }
            #[cfg(kani)]
            pub(crate) fn b2b_new_rec<const BITS: usize>() -> blake2b::Context<BITS> {
                rec_new((BITS + 7) / 8);
                blake2b::Context::<BITS>::new_keyed(&[])
            }
            #[cfg(kani)]
            pub(crate) fn b2b_update_mut_rec<const BITS: usize>(_c: &mut blake2b::Context<BITS>, input: &[u8]) {
                rec_update(input);
            }
            #[cfg(kani)]
            pub(crate) fn b2b_finalize_at_rec<const BITS: usize>(_c: blake2b::Context<BITS>, out: &mut [u8]) {
                assert!(out.len() == (BITS + 7) / 8);
                rec_finalize((BITS + 7) / 8, out);
            }
            #[cfg(kani)]
            pub(crate) fn b2b_dyn_new_rec(output_bytes: usize) -> blake2b::ContextDyn {
                rec_new(output_bytes);
                blake2b::ContextDyn::new_keyed(output_bytes, &[])
            }
            #[cfg(kani)]
            pub(crate) fn b2b_dyn_update_mut_rec(_c: &mut blake2b::ContextDyn, input: &[u8]) {
                rec_update(input);
            }
            #[cfg(kani)]
            pub(crate) fn b2b_dyn_finalize_at_rec(c: blake2b::ContextDyn, out: &mut [u8]) {
                assert!(out.len() * 8 == c.output_bits());
                rec_finalize(usize::MAX, out);
            }

            /// Checks the recorded chains against RFC 9106 3.3 for tag length `t`; `first` = number of updates the first chain
            /// must have (their content is checked by the caller).  `out` is the whole backing buffer (bytes >= t must equal `prior`).
            /// All log indices are loop constants; only the guards are symbolic.
            #[cfg(kani)]
            pub(crate) unsafe fn check_hprime_log<const MAX: usize, const RMAX: usize>(t: usize, first: usize, out: &[u8; MAX], prior: &[u8; MAX]) {
                let base = out.as_ptr() as usize;
                vassert!(H_NEW[0] == 1 && H_NUPD[0] == first, "H': every hash starts from a fresh unkeyed BLAKE2b context; first hash gets LE32(T) || A");
                vassert!(H_ULEN[0][0] == 4 && H_UW4[0][0] as usize == t, "H': input of the first hash starts with LE32(T)");
                if t <= 64 {
                    vassert!(H_N == 1, "H' (T <= 64): exactly one hash");
                    vassert!(H_PARAM[0] == t && (H_FINPARAM[0] == t || H_FINPARAM[0] == usize::MAX), "H' (T <= 64): digest length T");
                    vassert!(H_OUTADDR[0] == base && H_OUTLEN[0] == t, "H' (T <= 64): the digest is the output");
                    let mut i = 0;
                    while i < MAX && i < 64 {
                        if i < t {
                            vassert!(out[i] == H_DIGEST[0][i], "H': output = W_1 || .. || W_r || V_(r+1)");
                        }
                        i += 1;
                    }
                } else {
                    let r = ((t + 31) >> 5) - 2;
                    vassert!(H_N == r + 1, "H' (T > 64): r + 1 hashes, r = ceil(T/32) - 2");
                    vassert!(H_PARAM[0] == 64 && H_FINPARAM[0] == 64, "H' (T > 64): V_1 is a 64-byte digest");
                    let mut k = 0;
                    while k <= RMAX {
                        if k >= 1 && k <= r {
                            vassert!(H_NEW[k] == 1 && H_NUPD[k] == 1 && H_ULEN[k][0] == 64, "H' (T > 64): V_i hashes exactly the 64 bytes of V_(i-1)");
                            let mut j = 0;
                            while j < 64 {
                                vassert!(H_U64[k][j] == H_DIGEST[k - 1][j], "H' (T > 64): V_i = H(V_(i-1))");
                                j += 1;
                            }
                        }
                        if k >= 1 && k < r {
                            vassert!(H_PARAM[k] == 64 && H_FINPARAM[k] == 64, "H' (T > 64): V_2..V_r are 64-byte digests");
                        }
                        if k < r {
                            // W_{k+1} = first 32 bytes of V_{k+1} at offset 32k
                            let mut j = 0;
                            while j < 32 {
                                if 32 * k + j < MAX {
                                    vassert!(out[32 * k + j] == H_DIGEST[k][j], "H': output = W_1 || .. || W_r || V_(r+1)");
                                }
                                j += 1;
                            }
                        }
                        if k == r {
                            vassert!(H_PARAM[k] == t - 32 * r && (H_FINPARAM[k] == usize::MAX || H_FINPARAM[k] == t - 32 * r), "H' (T > 64): V_(r+1) has digest length T - 32r");
                            vassert!(H_OUTADDR[k] == base + 32 * r && H_OUTLEN[k] == t - 32 * r, "H' (T > 64): V_(r+1) is written behind W_r");
                            let mut j = 0;
                            while j < 64 {
                                if 32 * k + j < MAX && 32 * k + j < t {
                                    vassert!(out[32 * k + j] == H_DIGEST[k][j], "H': output = W_1 || .. || W_r || V_(r+1)");
                                }
                                j += 1;
                            }
                        }
                        k += 1;
                    }
                }
                let mut i = 0;
                while i < MAX {
                    if i >= t {
                        vassert!(out[i] == prior[i], "H': bytes beyond the output slice untouched");
                    }
                    i += 1;
                }
            }
        }
    };
}
b2b_recorder!(rs, 10);
b2b_recorder!(rb, 32);

// =====================================================================================================================
// RFC 9106 3.3: variable-length hash H'
//   T <= 64:  H'^T(A) = H^T(LE32(T) || A)
//   T  > 64:  r = ceil(T/32) - 2;  V_1 = H^64(LE32(T) || A);  V_i = H^64(V_(i-1)), i = 2..r;  V_(r+1) = H^(T-32r)(V_r);
//             H'^T(A) = W_1 || .. || W_r || V_(r+1),  W_i = first 32 bytes of V_i
// =====================================================================================================================
/// native specification of H' built on the crate's BLAKE2b (H^x = ContextDyn::new(x))
#[cfg(not(kani))]
pub(crate) fn spec_hprime(t: usize, a: &[u8]) -> std::vec::Vec<u8> {
    use std::vec::Vec;
    let h = |n: usize, parts: &[&[u8]]| -> Vec<u8> {
        let mut c = blake2b::ContextDyn::new(n);
        for p in parts {
            c.update_mut(p);
        }
        let mut o = std::vec![0u8; n];
        c.finalize_at(&mut o);
        o
    };
    let le = (t as u32).to_le_bytes();
    if t <= 64 {
        return h(t, &[&le, a]);
    }
    let r = (t + 31) / 32 - 2;
    let mut out = Vec::new();
    let mut v = h(64, &[&le, a]);
    out.extend_from_slice(&v[..32]);
    for _ in 2..=r {
        v = h(64, &[&v]);
        out.extend_from_slice(&v[..32]);
    }
    out.extend_from_slice(&h(t - 32 * r, &[&v]));
    out
}

const AMAX: usize = 72; // bytes of H' input in these harnesses (only its address and length matter to the recorder)
fn case_hprime<const MAX: usize, const RMAX: usize>(tmin: usize) {
    let a = Bytes::<AMAX>::any();
    let prior: [u8; MAX] = any();
    let t: usize = any();
    assume(t >= tmin && t <= MAX);
    vcover!(t == tmin, "shortest tag of this harness");
    vcover!(t == MAX, "longest tag of this harness");
    vcover!(t == 64 || t == 65 || tmin > 65, "at the 64-byte boundary");
    vcover!((t & 31) == 0 || MAX < 96, "multiple of 32");
    vcover!((t & 31) == 1 || MAX < 97, "one above a multiple of 32");
    vcover!(a.len == 0, "empty input");
    let mut out = prior;
    hprime(&mut out[..t], a.get());
    #[cfg(kani)]
    unsafe {
        vassert!(rs::H_NUPD[0] == 2 && rs::H_UADDR[0][1] == a.buf.as_ptr() as usize && rs::H_ULEN[0][1] == a.len, "H': input of the first hash is LE32(T) || A");
        rs::check_hprime_log::<MAX, RMAX>(t, 2, &out, &prior);
    }
    #[cfg(not(kani))]
    {
        let e = spec_hprime(t, a.get());
        for i in 0..MAX {
            if i < t {
                assert!(out[i] == e[i], "H': output = W_1 || .. || W_r || V_(r+1)");
            } else {
                assert!(out[i] == prior[i], "H': bytes beyond the output slice untouched");
            }
        }
    }
}
/// tag lengths 4..=64 (single hash with digest length T)
#[cfg_attr(kani, kani::proof)]
#[cfg_attr(kani, kani::unwind(66))]
#[doc = "verif-unwindset: argon2::hprime=3"]
#[cfg_attr(kani, kani::stub(crate::hashing::blake2b::Context::new, rs::b2b_new_rec))]
#[cfg_attr(kani, kani::stub(crate::hashing::blake2b::Context::update_mut, rs::b2b_update_mut_rec))]
#[cfg_attr(kani, kani::stub(crate::hashing::blake2b::Context::finalize_at, rs::b2b_finalize_at_rec))]
#[cfg_attr(kani, kani::stub(crate::hashing::blake2b::ContextDyn::new, rs::b2b_dyn_new_rec))]
#[cfg_attr(kani, kani::stub(crate::hashing::blake2b::ContextDyn::update_mut, rs::b2b_dyn_update_mut_rec))]
#[cfg_attr(kani, kani::stub(crate::hashing::blake2b::ContextDyn::finalize_at, rs::b2b_dyn_finalize_at_rec))]
pub(crate) fn c11_hprime_short() {
    case_hprime::<64, 1>(4);
}
/// tag lengths 65..=140 (iterated hash: r = 1..3; final digest shorter than 64 and exactly 64)
#[cfg_attr(kani, kani::proof)]
#[cfg_attr(kani, kani::unwind(142))]
#[doc = "verif-unwindset: argon2::hprime=5"]
#[cfg_attr(kani, kani::stub(crate::hashing::blake2b::Context::new, rs::b2b_new_rec))]
#[cfg_attr(kani, kani::stub(crate::hashing::blake2b::Context::update_mut, rs::b2b_update_mut_rec))]
#[cfg_attr(kani, kani::stub(crate::hashing::blake2b::Context::finalize_at, rs::b2b_finalize_at_rec))]
#[cfg_attr(kani, kani::stub(crate::hashing::blake2b::ContextDyn::new, rs::b2b_dyn_new_rec))]
#[cfg_attr(kani, kani::stub(crate::hashing::blake2b::ContextDyn::update_mut, rs::b2b_dyn_update_mut_rec))]
#[cfg_attr(kani, kani::stub(crate::hashing::blake2b::ContextDyn::finalize_at, rs::b2b_dyn_finalize_at_rec))]
pub(crate) fn c11_hprime_long() {
    case_hprime::<140, 3>(65);
}
/// tag lengths 65..=300 (r = 1..8), thorough tier
#[cfg_attr(kani, kani::proof)]
#[cfg_attr(kani, kani::unwind(302))]
#[doc = "verif-unwindset: argon2::hprime=10"]
#[cfg_attr(kani, kani::stub(crate::hashing::blake2b::Context::new, rs::b2b_new_rec))]
#[cfg_attr(kani, kani::stub(crate::hashing::blake2b::Context::update_mut, rs::b2b_update_mut_rec))]
#[cfg_attr(kani, kani::stub(crate::hashing::blake2b::Context::finalize_at, rs::b2b_finalize_at_rec))]
#[cfg_attr(kani, kani::stub(crate::hashing::blake2b::ContextDyn::new, rs::b2b_dyn_new_rec))]
#[cfg_attr(kani, kani::stub(crate::hashing::blake2b::ContextDyn::update_mut, rs::b2b_dyn_update_mut_rec))]
#[cfg_attr(kani, kani::stub(crate::hashing::blake2b::ContextDyn::finalize_at, rs::b2b_dyn_finalize_at_rec))]
pub(crate) fn c11_t_hprime_long_300() {
    case_hprime::<300, 8>(65);
}

/// 3.2 steps 4/5: B[i][c] = H'^1024(H0 || LE32(c) || LE32(i)) for ARBITRARY H0, column and lane numbers
/// (31 hashes, 1 KiB output: 2.5 min, almost all of it symbolic execution)
#[cfg_attr(kani, kani::proof)]
#[cfg_attr(kani, kani::unwind(1026))]
#[doc = "verif-unwindset: argon2::hprime_block_init=31"]
#[cfg_attr(kani, kani::stub(crate::hashing::blake2b::Context::new, rb::b2b_new_rec))]
#[cfg_attr(kani, kani::stub(crate::hashing::blake2b::Context::update_mut, rb::b2b_update_mut_rec))]
#[cfg_attr(kani, kani::stub(crate::hashing::blake2b::Context::finalize_at, rb::b2b_finalize_at_rec))]
pub(crate) fn c11_hprime_block_init() {
    let h0: [u8; 64] = any();
    let col: u32 = any();
    let lane: u32 = any();
    let prior: [u8; 1024] = any();
    vcover!(col == 1 && lane == 0xff_fffe, "second column, last possible lane");
    let mut out = prior;
    hprime_block_init(&mut out, &h0, col, lane);
    #[cfg(kani)]
    unsafe {
        vassert!(rb::H_NUPD[0] == 4 && rb::H_UADDR[0][1] == h0.as_ptr() as usize && rb::H_ULEN[0][1] == 64, "block init: first hash input is LE32(1024) || H0 || ..");
        vassert!(rb::H_ULEN[0][2] == 4 && rb::H_UW4[0][2] == col && rb::H_ULEN[0][3] == 4 && rb::H_UW4[0][3] == lane, "block init: .. || LE32(column) || LE32(lane)");
        rb::check_hprime_log::<1024, 30>(1024, 4, &out, &prior);
    }
    #[cfg(not(kani))]
    {
        let mut a = std::vec::Vec::new();
        a.extend_from_slice(&h0);
        a.extend_from_slice(&col.to_le_bytes());
        a.extend_from_slice(&lane.to_le_bytes());
        let e = spec_hprime(1024, &a);
        for i in 0..1024 {
            assert!(out[i] == e[i], "H': output = W_1 || .. || W_r || V_(r+1)");
        }
    }
}


// =====================================================================================================================
// RFC 9106 3.2 step 1:  H_0 = H^(64)(LE32(p) || LE32(T) || LE32(m) || LE32(t) || LE32(v) || LE32(y) ||
//                                   LE32(length(P)) || P || LE32(length(S)) || S || LE32(length(K)) || K || LE32(length(X)) || X)
// =====================================================================================================================
pub(crate) const ZU: usize = 16;
pub(crate) static mut Z_NEW: usize = 0;
pub(crate) static mut Z_PARAM: usize = 0;
pub(crate) static mut Z_NUPD: usize = 0;
pub(crate) static mut Z_FIN: usize = 0;
pub(crate) static mut Z_ADDR: [usize; ZU] = [0; ZU];
pub(crate) static mut Z_LEN: [usize; ZU] = [0; ZU];
pub(crate) static mut Z_W4: [u32; ZU] = [0; ZU];
pub(crate) static mut Z_DIGEST: [u8; 64] = [0; 64];
#[cfg(kani)]
pub(crate) fn z_new_rec<const BITS: usize>() -> blake2b::Context<BITS> {
    unsafe {
        Z_NEW += 1;
        Z_PARAM = (BITS + 7) / 8;
    }
    blake2b::Context::<BITS>::new_keyed(&[])
}
#[cfg(kani)]
pub(crate) fn z_update_mut_rec<const BITS: usize>(_c: &mut blake2b::Context<BITS>, input: &[u8]) {
    unsafe {
        if Z_FIN == 0 && Z_NUPD < ZU {
            Z_ADDR[Z_NUPD] = input.as_ptr() as usize;
            Z_LEN[Z_NUPD] = input.len();
            if input.len() == 4 {
                Z_W4[Z_NUPD] = u32::from_le_bytes([input[0], input[1], input[2], input[3]]);
            }
        }
        Z_NUPD += 1;
    }
}
#[cfg(kani)]
pub(crate) fn z_finalize_at_rec<const BITS: usize>(_c: blake2b::Context<BITS>, out: &mut [u8]) {
    let d: [u8; 64] = kani::any();
    unsafe {
        Z_FIN += 1;
        Z_DIGEST = d;
    }
    match <&mut [u8; 64]>::try_from(out) {
        Ok(a) => *a = d,
        Err(_) => kani::assert(false, "H0: digest length is 64"),
    }
}
#[inline(never)]
fn z_word(k: usize, v: u32) -> bool {
    unsafe { Z_LEN[k] == 4 && Z_W4[k] == v }
}
#[inline(never)]
fn z_slice(k: usize, s: &[u8]) -> bool {
    unsafe { Z_ADDR[k] == s.as_ptr() as usize && Z_LEN[k] == s.len() }
}
/// RFC 9106 3.1: y = 0 for Argon2d, 1 for Argon2i, 2 for Argon2id
pub(crate) fn spec_type_code(t: Type) -> u32 {
    match t {
        Type::Argon2d => 0,
        Type::Argon2i => 1,
        Type::Argon2id => 2,
    }
}
pub(crate) const INMAX: usize = 6; // password / salt / key / associated data: symbolic length 0..=INMAX each
/// H0::new for ARBITRARY parameters (every field an arbitrary u32, derived geometry fields arbitrary as well: they must not
/// matter) and arbitrary password / salt / key / associated-data slices (lengths 0..=6 each, independently)
#[cfg_attr(kani, kani::proof)]
#[cfg_attr(kani, kani::unwind(66))]
#[cfg_attr(kani, kani::stub(crate::hashing::blake2b::Context::new, z_new_rec))]
#[cfg_attr(kani, kani::stub(crate::hashing::blake2b::Context::update_mut, z_update_mut_rec))]
#[cfg_attr(kani, kani::stub(crate::hashing::blake2b::Context::finalize_at, z_finalize_at_rec))]
pub(crate) fn c11_h0() {
    let pw = Bytes::<INMAX>::any();
    let salt = Bytes::<INMAX>::any();
    let key = Bytes::<INMAX>::any();
    let aad = Bytes::<INMAX>::any();
    let (p, t, m, v, tag_length): (u32, u32, u32, u32, u32) = (any(), any(), any(), any(), any());
    let (g0, g1, g2): (u32, u32, u32) = (any(), any(), any());
    let ty = any_type();
    assume(p != 0 && t != 0);
    vcover!(pw.len == 0 && salt.len == 0 && key.len == 0 && aad.len == 0, "all inputs empty");
    vcover!(pw.len == 4 && salt.len == 4, "inputs as long as a length word");
    vcover!(pw.len == INMAX && key.len == 1 && aad.len == 2, "mixed lengths");
    vcover!(v == 0x10, "version 0x10");
    let params = Params { parallelism: nz(p), iterations: nz(t), memory_kb: m, version: v, hash_type: ty, memory_blocks: g0, segment_length: g1, lane_length: g2 };
    let h = H0::new(&params, pw.get(), salt.get(), key.get(), aad.get(), tag_length);
    #[cfg(kani)]
    unsafe {
        vassert!(Z_NEW == 1 && Z_PARAM == 64 && Z_FIN == 1, "H0: one unkeyed BLAKE2b-512 computation");
        vassert!(Z_NUPD == 14, "H0: the hashed stream has exactly the 14 fields of RFC 9106 3.2");
        vassert!(z_word(0, p), "H0: field 1 = LE32(p)");
        vassert!(z_word(1, tag_length), "H0: field 2 = LE32(T)");
        vassert!(z_word(2, m), "H0: field 3 = LE32(m)");
        vassert!(z_word(3, t), "H0: field 4 = LE32(t)");
        vassert!(z_word(4, v), "H0: field 5 = LE32(v)");
        vassert!(z_word(5, spec_type_code(ty)), "H0: field 6 = LE32(y)");
        vassert!(z_word(6, pw.len as u32) && z_slice(7, pw.get()), "H0: LE32(length(P)) || P");
        vassert!(z_word(8, salt.len as u32) && z_slice(9, salt.get()), "H0: LE32(length(S)) || S");
        vassert!(z_word(10, key.len as u32) && z_slice(11, key.get()), "H0: LE32(length(K)) || K");
        vassert!(z_word(12, aad.len as u32) && z_slice(13, aad.get()), "H0: LE32(length(X)) || X");
        let mut i = 0;
        while i < 64 {
            vassert!(h.0[i] == Z_DIGEST[i], "H0: the value is the 64-byte digest");
            i += 1;
        }
    }
    #[cfg(not(kani))]
    {
        let e = spec_h0(p, tag_length, m, t, v, ty, pw.get(), salt.get(), key.get(), aad.get());
        for i in 0..64 {
            assert!(h.0[i] == e[i], "H0: the value is the 64-byte digest");
        }
    }
}
#[cfg(not(kani))]
pub(crate) fn spec_h0(p: u32, tag: u32, m: u32, t: u32, v: u32, ty: Type, pw: &[u8], salt: &[u8], key: &[u8], aad: &[u8]) -> [u8; 64] {
    let mut s = std::vec::Vec::new();
    for w in [p, tag, m, t, v, spec_type_code(ty)] {
        s.extend_from_slice(&w.to_le_bytes());
    }
    for part in [pw, salt, key, aad] {
        s.extend_from_slice(&(part.len() as u32).to_le_bytes());
        s.extend_from_slice(part);
    }
    let mut c = blake2b::ContextDyn::new(64);
    c.update_mut(&s);
    let mut o = [0u8; 64];
    c.finalize_at(&mut o);
    o
}

// =====================================================================================================================
// argon2::<T> and argon2_at: same calls, same arguments
// =====================================================================================================================
pub(crate) static mut E_N: usize = 0; // H0::new calls
pub(crate) static mut E_ARGS: [[usize; 9]; 2] = [[0; 9]; 2]; // params addr, 4 x (addr, len)
pub(crate) static mut E_TAGLEN: [u32; 2] = [0; 2];
pub(crate) static mut E_H0: [[u8; 64]; 2] = [[0; 64]; 2];
pub(crate) static mut M_N: usize = 0; // Memory::new calls
pub(crate) static mut M_P: [usize; 2] = [0; 2];
pub(crate) static mut M_MARK: [u32; 2] = [0; 2];
pub(crate) static mut PR_N: usize = 0; // process calls
pub(crate) static mut PR_P: [usize; 2] = [0; 2];
pub(crate) static mut PR_H0: [[u8; 64]; 2] = [[0; 64]; 2];
pub(crate) static mut PR_MARK: [u32; 2] = [0; 2];
pub(crate) static mut PR_OUT: [usize; 2] = [0; 2];
pub(crate) static mut PR_OUTLEN: [usize; 2] = [0; 2];
pub(crate) const ETMAX: usize = 70;
pub(crate) static mut PR_TAG: [[u8; ETMAX]; 2] = [[0; ETMAX]; 2];
#[cfg(kani)]
fn h0_new_rec(params: &Params, password: &[u8], salt: &[u8], key: &[u8], aad: &[u8], tag_length: u32) -> H0 {
    let d: [u8; 64] = kani::any();
    unsafe {
        if E_N < 2 {
            E_ARGS[E_N] = [
                params as *const Params as usize,
                password.as_ptr() as usize,
                password.len(),
                salt.as_ptr() as usize,
                salt.len(),
                key.as_ptr() as usize,
                key.len(),
                aad.as_ptr() as usize,
                aad.len(),
            ];
            E_TAGLEN[E_N] = tag_length;
            E_H0[E_N] = d;
        }
        E_N += 1;
    }
    H0(d)
}
#[cfg(kani)]
fn memory_new_rec(params: &Params) -> Memory {
    let mark: u32 = kani::any();
    unsafe {
        if M_N < 2 {
            M_P[M_N] = params as *const Params as usize;
            M_MARK[M_N] = mark;
        }
        M_N += 1;
    }
    let blocks: Box<[Block]> = Box::new([]);
    Memory { lane_length: mark, blocks }
}
#[cfg(kani)]
fn process_rec(params: &Params, h0: &H0, memory: &mut Memory, out: &mut [u8]) {
    let d: [u8; ETMAX] = kani::any();
    unsafe {
        if PR_N < 2 {
            PR_P[PR_N] = params as *const Params as usize;
            PR_H0[PR_N] = h0.0;
            PR_MARK[PR_N] = memory.lane_length;
            PR_OUT[PR_N] = out.as_ptr() as usize;
            PR_OUTLEN[PR_N] = out.len();
            PR_TAG[PR_N] = d;
        }
        PR_N += 1;
    }
    assert!(out.len() <= ETMAX);
    let n = out.len();
    out.copy_from_slice(&d[..n]);
}
/// Both entry points, same arbitrary arguments.  Under Kani H0::new / Memory::new / process are recorded: each entry point
/// calls each of them exactly once, with the caller's arguments, the tag length being the array length T resp. the slice
/// length, the H0 and Memory handed to `process` being the ones just created, and the bytes `process` wrote being what the
/// caller receives.  With n == T all recorded arguments coincide, so (H0::new, Memory::new, process being functions of their
/// arguments) the two tags are equal.  Natively both run for real on a minimal parameter set and the tags are compared.
fn case_entry_points<const T: usize>() {
    let pw = Bytes::<4>::any();
    let salt = Bytes::<4>::any();
    let key = Bytes::<4>::any();
    let aad = Bytes::<4>::any();
    let prior: [u8; ETMAX] = any();
    let n: usize = any();
    let (p, t, m, v): (u32, u32, u32, u32) = (any(), any(), any(), any());
    let (g0, g1, g2): (u32, u32, u32) = (any(), any(), any());
    let ty = any_type();
    assume(n >= 4 && n <= ETMAX);
    assume(p != 0 && t != 0);
    vcover!(n == T, "slice length equal to the array length");
    vcover!(n != T, "slice length different from the array length");
    #[cfg(kani)]
    let params = Params { parallelism: nz(p), iterations: nz(t), memory_kb: m, version: v, hash_type: ty, memory_blocks: g0, segment_length: g1, lane_length: g2 };
    // native replay: a minimal valid parameter set derived from the same bytes (8 or 16 blocks, 1 or 2 lanes, 1 or 2 passes)
    #[cfg(not(kani))]
    let params = {
        let base = match ty {
            Type::Argon2d => Params::argon2d(),
            Type::Argon2i => Params::argon2i(),
            Type::Argon2id => Params::argon2id(),
        };
        let _ = (m, g0, g1, g2);
        ok(ok(ok(ok(base.parallelism(1 + (p & 1))).memory_kb(8)).iterations(1 + (t & 1))).version(if v & 1 == 0 { 0x13 } else { 0x10 }))
    };
    let a: [u8; T] = argon2::<T>(&params, pw.get(), salt.get(), key.get(), aad.get());
    let mut b = prior;
    argon2_at(&params, pw.get(), salt.get(), key.get(), aad.get(), &mut b[..n]);
    #[cfg(kani)]
    unsafe {
        vassert!(E_N == 2 && M_N == 2 && PR_N == 2, "entry points: H0::new, Memory::new and process are called once per entry point");
        let exp = [
            &params as *const Params as usize,
            pw.buf.as_ptr() as usize,
            pw.len,
            salt.buf.as_ptr() as usize,
            salt.len,
            key.buf.as_ptr() as usize,
            key.len,
            aad.buf.as_ptr() as usize,
            aad.len,
        ];
        let mut k = 0;
        while k < 2 {
            let mut j = 0;
            while j < 9 {
                vassert!(E_ARGS[k][j] == exp[j], "entry points: H0 is computed from the caller's parameters, password, salt, key and associated data");
                j += 1;
            }
            vassert!(M_P[k] == exp[0] && PR_P[k] == exp[0], "entry points: memory and filling use the caller's parameters");
            vassert!(PR_MARK[k] == M_MARK[k], "entry points: the freshly allocated memory is the one filled");
            let mut j = 0;
            while j < 64 {
                vassert!(PR_H0[k][j] == E_H0[k][j], "entry points: the H0 just computed seeds the filling");
                j += 1;
            }
            k += 1;
        }
        vassert!(E_TAGLEN[0] as usize == T && PR_OUTLEN[0] == T, "argon2::<T>: tag length T enters H0 and is the output length");
        vassert!(E_TAGLEN[1] as usize == n && PR_OUTLEN[1] == n && PR_OUT[1] == b.as_ptr() as usize, "argon2_at: the slice length enters H0 and the slice is the output");
        let mut i = 0;
        while i < ETMAX {
            if i < T {
                vassert!(a[i] == PR_TAG[0][i], "argon2::<T>: returns the bytes produced by the filling");
            }
            if i < n {
                vassert!(b[i] == PR_TAG[1][i], "argon2_at: the slice holds the bytes produced by the filling");
            } else {
                vassert!(b[i] == prior[i], "argon2_at: bytes beyond the slice untouched");
            }
            i += 1;
        }
    }
    #[cfg(not(kani))]
    {
        for i in 0..ETMAX {
            if i < n && n == T {
                assert!(a[i] == b[i], "argon2::<T> and argon2_at agree");
            }
            if i >= n {
                assert!(b[i] == prior[i], "argon2_at: bytes beyond the slice untouched");
            }
        }
    }
}
#[cfg_attr(kani, kani::proof)]
#[cfg_attr(kani, kani::unwind(72))]
#[cfg_attr(kani, kani::stub(H0::new, h0_new_rec))]
#[cfg_attr(kani, kani::stub(Memory::new, memory_new_rec))]
#[cfg_attr(kani, kani::stub(process, process_rec))]
pub(crate) fn c11_entry_points_t4() {
    case_entry_points::<4>();
}
#[cfg_attr(kani, kani::proof)]
#[cfg_attr(kani, kani::unwind(72))]
#[cfg_attr(kani, kani::stub(H0::new, h0_new_rec))]
#[cfg_attr(kani, kani::stub(Memory::new, memory_new_rec))]
#[cfg_attr(kani, kani::stub(process, process_rec))]
pub(crate) fn c11_entry_points_t32() {
    case_entry_points::<32>();
}
#[cfg_attr(kani, kani::proof)]
#[cfg_attr(kani, kani::unwind(72))]
#[cfg_attr(kani, kani::stub(H0::new, h0_new_rec))]
#[cfg_attr(kani, kani::stub(Memory::new, memory_new_rec))]
#[cfg_attr(kani, kani::stub(process, process_rec))]
pub(crate) fn c11_entry_points_t65() {
    case_entry_points::<65>();
}

// =====================================================================================================================
// RFC 9106 3.2 steps 4-8: `process` with hprime_block_init / fill_segment / hprime recorded
//   4,5: B[i][0], B[i][1] = H'^1024(H0 || LE32(0 resp. 1) || LE32(i)) for every lane i
//   6,7: t passes; within a pass the 4 slices in order; within a slice every lane (the lanes of one slice are independent:
//        fill_segment of lane l only reads finished segments of other lanes — c11_index_alpha_* — so the order among them is free)
//   8:   C = B[0][q-1] xor .. xor B[p-1][q-1];  tag = H'^T(C)
// =====================================================================================================================
pub(crate) const SKL: usize = 40;
pub(crate) static mut BI_N: usize = 0; // hprime_block_init calls
pub(crate) static mut BI_OUT: [usize; 8] = [0; 8]; // address of the destination block
pub(crate) static mut BI_H0: [usize; 8] = [0; 8];
pub(crate) static mut BI_COL: [u32; 8] = [0; 8];
pub(crate) static mut BI_LANE: [u32; 8] = [0; 8];
pub(crate) static mut FS_N: usize = 0; // fill_segment calls
pub(crate) static mut FS_ORDER_BI: [usize; SKL] = [0; SKL]; // BI_N at the time of the call (all initial blocks written before any filling)
pub(crate) static mut FS_POS: [[u32; 4]; SKL] = [[0; 4]; SKL]; // pass, lane, slice, index
pub(crate) static mut FS_PARAMS: [usize; SKL] = [0; SKL];
pub(crate) static mut FS_MEM: [usize; SKL] = [0; SKL];
pub(crate) static mut HP_N: usize = 0; // hprime calls
pub(crate) static mut HP_FS: usize = 0; // FS_N at the time of the call
pub(crate) static mut HP_OUT: usize = 0;
pub(crate) static mut HP_OUTLEN: usize = 0;
pub(crate) static mut HP_INLEN: usize = 0;
pub(crate) static mut HP_IN: [u64; 128] = [0; 128]; // the hashed block, as the words it is made of
pub(crate) static mut HP_TAG: [u8; 8] = [0; 8];
#[cfg(kani)]
fn block_init_rec(output: &mut [u8; 1024], h0: &[u8; 64], col: u32, lane: u32) {
    unsafe {
        if BI_N < 8 {
            BI_OUT[BI_N] = output.as_ptr() as usize;
            BI_H0[BI_N] = h0.as_ptr() as usize;
            BI_COL[BI_N] = col;
            BI_LANE[BI_N] = lane;
        }
        BI_N += 1;
    }
}
#[cfg(kani)]
fn fill_segment_rec(params: &Params, position: &BlockPos, memory: &mut Memory) {
    unsafe {
        if FS_N < SKL {
            FS_ORDER_BI[FS_N] = BI_N;
            FS_POS[FS_N] = [position.pass, position.lane, position.slice, position.index];
            FS_PARAMS[FS_N] = params as *const Params as usize;
            FS_MEM[FS_N] = memory as *const Memory as usize;
        }
        FS_N += 1;
    }
}
#[cfg(kani)]
fn hprime_rec(output: &mut [u8], input: &[u8]) {
    let d: [u8; 8] = kani::any();
    unsafe {
        HP_N += 1;
        HP_FS = FS_N;
        HP_OUT = output.as_ptr() as usize;
        HP_OUTLEN = output.len();
        HP_INLEN = input.len();
        if input.len() == 1024 {
            // the bytes are the in-memory view of a [u64; 128] (Block::as_u8): read them back as words (typed copy, no byte view)
            HP_IN = *(input.as_ptr() as *const [u64; 128]);
        }
        HP_TAG = d;
    }
    assert!(output.len() <= 8);
    let n = output.len();
    output.copy_from_slice(&d[..n]);
}
#[cfg(kani)]
fn reset_process_log() {
    unsafe {
        BI_N = 0;
        FS_N = 0;
        HP_N = 0;
    }
}
#[cfg(not(kani))]
fn reset_process_log() {}
#[inline(never)]
fn fs_pos(k: usize, j: usize) -> u32 {
    unsafe { FS_POS[k][j] }
}
#[inline(never)]
fn blk_word(m: &Memory, b: usize, w: usize) -> u64 {
    m.blocks[b].0[w]
}
/// process on a memory of P lanes x 8 blocks (segment length 2) with ARBITRARY last-column contents, t passes (concrete per call:
/// a symbolic pass count makes CBMC unwind the pass loop to the global bound),
/// tag length 4..=8 symbolic; natively (real callees) the tag is compared with a direct transcription of 3.2 built on the
/// separately decided pieces (spec_hprime, spec_g, spec_ref_index) — see spec_argon2 below.
fn case_process<const P: usize, const N: usize>(t: u32) {
    let h0b: [u8; 64] = any();
    let n: usize = any();
    let prior: [u8; 8] = any();
    let ty = any_type();
    let v10: bool = any();
    assume(n >= 4 && n <= 8);
    vcover!(n == 4, "shortest tag");
    vcover!(n == 8, "longest tag of the bound");
    let params = mk_params(ty, if v10 { 0x10 } else { 0x13 }, P as u32, t, 8 * P as u32, 2);
    let h0 = H0(h0b);
    // arbitrary contents of the last column (it is what the final hash reads; the recorders write nothing); typed local
    // backing array under Kani (see case_segment), Memory::new natively
    #[cfg(kani)]
    let last: [[u64; 128]; P] = any();
    #[cfg(kani)]
    let mut backing: [Block; N] = [const { Block([0u64; 128]) }; N];
    #[cfg(kani)]
    {
        let mut l = 0;
        while l < P {
            backing[8 * l + 7] = Block(last[l]);
            l += 1;
        }
    }
    #[cfg(kani)]
    let mut memory = unsafe { stack_memory(&mut backing, params.lane_length) };
    #[cfg(not(kani))]
    let mut memory = Memory::new(&params);
    let mut out = prior;
    process(&params, &h0, &mut memory, &mut out[..n]);
    #[cfg(kani)]
    unsafe {
        let base = memory.blocks.as_ptr() as usize;
        vassert!(BI_N == 2 * P, "process: two initial blocks per lane");
        let mut l = 0;
        while l < P {
            let mut c = 0;
            while c < 2 {
                // any order of the 2p initial blocks is fine; the code does lane-major
                let k = 2 * l + c;
                vassert!(BI_OUT[k] == base + 1024 * (l * 8 + c) && BI_COL[k] == c as u32 && BI_LANE[k] == l as u32, "process: B[i][c] = H'(H0 || LE32(c) || LE32(i)) is written to column c of lane i, c = 0, 1");
                vassert!(BI_H0[k] == h0.0.as_ptr() as usize, "process: the initial blocks are derived from H0");
                c += 1;
            }
            l += 1;
        }
        vassert!(FS_N == (t as usize) * 4 * P, "process: one segment per (pass, slice, lane)");
        let mut k = 0;
        let mut pass = 0;
        while pass < 3 {
            if pass < t {
                let mut sl = 0;
                while sl < 4 {
                    let mut l = 0;
                    while l < P {
                        vassert!(fs_pos(k, 0) == pass && fs_pos(k, 2) == sl && fs_pos(k, 1) == l as u32 && fs_pos(k, 3) == 0, "process: passes in order, slices in order within a pass, every lane within a slice");
                        vassert!(FS_ORDER_BI[k] == 2 * P && FS_PARAMS[k] == &params as *const Params as usize && FS_MEM[k] == &memory as *const Memory as usize, "process: filling starts after all initial blocks, on the same memory and parameters");
                        k += 1;
                        l += 1;
                    }
                    sl += 1;
                }
            }
            pass += 1;
        }
        vassert!(HP_N == 1 && HP_FS == (t as usize) * 4 * P, "process: the tag is computed once, after the last segment");
        vassert!(HP_OUT == out.as_ptr() as usize && HP_OUTLEN == n && HP_INLEN == 1024, "process: tag = H'^T of one 1024-byte block");
        let mut w = 0;
        while w < 128 {
            let mut x = 0u64;
            let mut l = 0;
            while l < P {
                x ^= blk_word(&memory, l * 8 + 7, w);
                l += 1;
            }
            vassert!(HP_IN[w] == x, "process: C = xor of the last column over all lanes");
            w += 1;
        }
        let mut i = 0;
        while i < 8 {
            if i < n {
                vassert!(out[i] == HP_TAG[i], "process: the output is the tag");
            } else {
                vassert!(out[i] == prior[i], "process: bytes beyond the output slice untouched");
            }
            i += 1;
        }
    }
    #[cfg(not(kani))]
    {
        let e = spec_fill_and_finalize(&params, &h0b, n);
        for i in 0..8 {
            if i < n {
                assert!(out[i] == e[i], "process: the output is the tag");
            } else {
                assert!(out[i] == prior[i], "process: bytes beyond the output slice untouched");
            }
        }
    }
    #[cfg(kani)]
    core::mem::forget(memory);
}
#[cfg_attr(kani, kani::proof)]
#[cfg_attr(kani, kani::unwind(130))]
#[cfg_attr(kani, kani::stub(hprime_block_init, block_init_rec))]
#[cfg_attr(kani, kani::stub(fill_segment, fill_segment_rec))]
#[cfg_attr(kani, kani::stub(hprime, hprime_rec))]
pub(crate) fn c11_process_p1() {
    case_process::<1, 8>(1);
    reset_process_log();
    case_process::<1, 8>(3);
}
#[cfg_attr(kani, kani::proof)]
#[cfg_attr(kani, kani::unwind(130))]
#[cfg_attr(kani, kani::stub(hprime_block_init, block_init_rec))]
#[cfg_attr(kani, kani::stub(fill_segment, fill_segment_rec))]
#[cfg_attr(kani, kani::stub(hprime, hprime_rec))]
pub(crate) fn c11_process_p3() {
    case_process::<3, 24>(2);
}

/// Native-only transcription of RFC 9106 3.2 steps 4-8 + 3.4 on top of the separately specified pieces; used by the native
/// twins of the skeleton harnesses (replay of counterexamples) — never under Kani.
#[cfg(not(kani))]
pub(crate) fn spec_fill_and_finalize(params: &Params, h0: &[u8; 64], taglen: usize) -> std::vec::Vec<u8> {
    use std::vec::Vec;
    let p = params.parallelism.get() as usize;
    let t = params.iterations.get();
    let seg = params.segment_length as usize;
    let q = 4 * seg;
    let y = spec_type_code(params.hash_type);
    let words = |b: &[u8]| -> [u64; 128] {
        let mut w = [0u64; 128];
        for k in 0..128 {
            let mut e = [0u8; 8];
            e.copy_from_slice(&b[8 * k..8 * k + 8]);
            w[k] = u64::from_le_bytes(e);
        }
        w
    };
    let mut b: Vec<[u64; 128]> = std::vec![[0u64; 128]; p * q];
    for i in 0..p {
        for c in 0..2u32 {
            let mut a = Vec::new();
            a.extend_from_slice(h0);
            a.extend_from_slice(&c.to_le_bytes());
            a.extend_from_slice(&(i as u32).to_le_bytes());
            b[i * q + c as usize] = words(&spec_hprime(1024, &a));
        }
    }
    let zero = [0u64; 128];
    for r in 0..t {
        for sl in 0..4usize {
            for l in 0..p {
                let di = y == 1 || (y == 2 && r == 0 && sl < 2);
                let mut addr = [0u64; 128];
                for i in 0..seg {
                    if r == 0 && sl == 0 && i < 2 {
                        continue;
                    }
                    let j = sl * seg + i;
                    let prev = if j == 0 { q - 1 } else { j - 1 };
                    let (j1, j2) = if di {
                        // 3.4.1.2: Z = (r, l, sl, m', t, y, counter), counter = 1 + i / 128; addresses = G(0, G(0, Z))
                        let first_of_segment = if r == 0 && sl == 0 { 2 } else { 0 };
                        if i % 128 == 0 || i == first_of_segment {
                            let mut z = [0u64; 128];
                            z[0] = r as u64;
                            z[1] = l as u64;
                            z[2] = sl as u64;
                            z[3] = (p * q) as u64;
                            z[4] = t as u64;
                            z[5] = y as u64;
                            z[6] = (i / 128 + 1) as u64;
                            addr = spec_g(&zero, &spec_g(&zero, &z));
                        }
                        let w = addr[i % 128];
                        (w as u32, (w >> 32) as u32)
                    } else {
                        let w = b[l * q + prev][0];
                        (w as u32, (w >> 32) as u32)
                    };
                    let rl = if r == 0 && sl == 0 { l } else { (j2 as usize) % p };
                    let (_w, z) = spec_ref_index(r, sl as u32, i as u32, seg as u32, j1, rl == l);
                    let g = spec_g(&b[l * q + prev], &b[rl * q + z as usize]);
                    let cur = &mut b[l * q + j];
                    for k in 0..128 {
                        cur[k] = if params.version == 0x13 && r > 0 { cur[k] ^ g[k] } else { g[k] };
                    }
                }
            }
        }
    }
    let mut c = [0u64; 128];
    for l in 0..p {
        for k in 0..128 {
            c[k] ^= b[l * q + q - 1][k];
        }
    }
    let mut cb = Vec::new();
    for k in 0..128 {
        cb.extend_from_slice(&c[k].to_le_bytes());
    }
    spec_hprime(taglen, &cb)
}

// =====================================================================================================================
// RFC 9106 3.4: one segment.  fill_block / next_addresses / index_alpha recorded (each decided on the real code above and
// in c11_next_addresses).  Blocks are identified by a tag in word 1 (block number), word 0 carries the data the addressing
// reads: arbitrary initial values, and a fresh value for every block the recorded fill_block "computes".
// =====================================================================================================================
pub(crate) const SGL: usize = 132; // recorded steps per segment
pub(crate) static mut IA_N: usize = 0;
pub(crate) static mut IA_POS: [[u32; 4]; SGL] = [[0; 4]; SGL];
pub(crate) static mut IA_J1: [u32; SGL] = [0; SGL];
pub(crate) static mut IA_SAME: [bool; SGL] = [false; SGL];
pub(crate) static mut IA_Z: [u32; SGL] = [0; SGL];
pub(crate) static mut IA_ZCAP: u32 = u32::MAX; // harness-chosen cap on the recorded reference index (memory smaller than a lane)
pub(crate) static mut FB_N: usize = 0;
pub(crate) static mut FB_PREV: [u64; SGL] = [0; SGL]; // tag of the block passed as prev
pub(crate) static mut FB_REF: [u64; SGL] = [0; SGL]; // tag of the block passed as ref
pub(crate) static mut FB_REF0: [u64; SGL] = [0; SGL]; // word 0 of ref at the time of the call
pub(crate) static mut FB_REF6: [u64; SGL] = [0; SGL]; // word 6 of ref at the time of the call
pub(crate) static mut FB_OLD: [u64; SGL] = [0; SGL]; // tag of the block passed as next (its previous content)
pub(crate) static mut FB_XOR: [bool; SGL] = [false; SGL];
pub(crate) static mut FB_MARK: [u64; SGL] = [0; SGL]; // fresh word 0 written to next
pub(crate) static mut FB_IA: [usize; SGL] = [0; SGL]; // IA_N at the time of the call
pub(crate) const NAL: usize = 3;
pub(crate) static mut NA_N: usize = 0;
pub(crate) static mut NA_IN: [[u64; 128]; NAL] = [[0; 128]; NAL]; // input block (after the counter increment)
pub(crate) static mut NA_OUT: [[u64; 128]; NAL] = [[0; 128]; NAL]; // fresh address block
pub(crate) static mut NA_FB: [usize; NAL] = [0; NAL]; // FB_N at the time of the call
pub(crate) static mut NA_ZERO0: [u64; NAL] = [0; NAL];
#[cfg(kani)]
fn index_alpha_rec(params: &Params, position: &BlockPos, pseudo_rand: u32, same_lane: bool) -> u32 {
    let z: u32 = kani::any();
    kani::assume(z < params.lane_length && z < unsafe { IA_ZCAP }); // contract: c11_index_alpha_* ("reference index inside the lane")
    unsafe {
        if IA_N < SGL {
            IA_POS[IA_N] = [position.pass, position.lane, position.slice, position.index];
            IA_J1[IA_N] = pseudo_rand;
            IA_SAME[IA_N] = same_lane;
            IA_Z[IA_N] = z;
        }
        IA_N += 1;
    }
    z
}
#[cfg(kani)]
fn fill_block_rec(prev_block: &Block, ref_block: &Block, next_block: &mut Block, with_xor: bool) {
    let mark: u64 = kani::any();
    unsafe {
        if FB_N < SGL {
            FB_PREV[FB_N] = prev_block.0[1];
            FB_REF[FB_N] = ref_block.0[1];
            FB_REF0[FB_N] = ref_block.0[0];
            FB_REF6[FB_N] = ref_block.0[6];
            FB_OLD[FB_N] = next_block.0[1];
            FB_XOR[FB_N] = with_xor;
            FB_MARK[FB_N] = mark;
            FB_IA[FB_N] = IA_N;
        }
        FB_N += 1;
    }
    next_block.0[0] = mark;
}
/// fill_block recorder for the segment harnesses: prev / ref are identified by ADDRESS (the reference block sits at a symbolic
/// index: reading through that pointer makes CBMC enumerate every byte offset of the memory; the address costs nothing)
#[cfg(kani)]
fn fill_block_seg_rec(prev_block: &Block, ref_block: &Block, next_block: &mut Block, with_xor: bool) {
    let mark: u64 = kani::any();
    unsafe {
        if FB_N < SGL {
            FB_PREV[FB_N] = prev_block as *const Block as usize as u64;
            FB_REF[FB_N] = ref_block as *const Block as usize as u64;
            FB_OLD[FB_N] = next_block.0[1];
            FB_XOR[FB_N] = with_xor;
            FB_MARK[FB_N] = mark;
            FB_IA[FB_N] = IA_N;
        }
        FB_N += 1;
    }
    next_block.0[0] = mark;
}
#[cfg(kani)]
fn next_addresses_rec(address_block: &mut Block, input_block: &mut Block, zero_block: &Block) {
    let o: [u64; 128] = kani::any();
    input_block.0[6] += 1; // contract: c11_next_addresses (counter incremented, then G(0, G(0, input)))
    unsafe {
        if NA_N < NAL {
            NA_IN[NA_N] = input_block.0;
            NA_OUT[NA_N] = o;
            NA_FB[NA_N] = FB_N;
            NA_ZERO0[NA_N] = zero_block.0[0] | zero_block.0[1] | zero_block.0[6] | zero_block.0[127];
        }
        NA_N += 1;
    }
    address_block.0 = o;
}

/// next_addresses on the real code, fill_block recorded: counter word 6 incremented first, then
/// address_block = G(zero, G(zero, input_block)), both without xor-into-existing.
#[cfg_attr(kani, kani::proof)]
#[cfg_attr(kani, kani::unwind(130))]
#[cfg_attr(kani, kani::stub(fill_block, fill_block_rec))]
pub(crate) fn c11_next_addresses() {
    let inp: [u64; 128] = any();
    let adr: [u64; 128] = any();
    assume(inp[6] < u64::MAX);
    vcover!(inp[6] == 0, "first address block of a segment");
    let mut input_block = Block(inp);
    let mut address_block = Block(adr);
    #[cfg(kani)]
    let zero_block = {
        // identity tags (word 1) instead of contents: zero = 1000, input = 2000, address = 3000
        let mut z = Block::new();
        z.0[1] = 1000;
        input_block.0[1] = 2000;
        address_block.0[1] = 3000;
        z
    };
    #[cfg(not(kani))]
    let zero_block = Block::new();
    next_addresses(&mut address_block, &mut input_block, &zero_block);
    #[cfg(kani)]
    unsafe {
        vassert!(FB_N == 2, "next_addresses: two applications of G");
        vassert!(input_block.0[6] == inp[6] + 1 && FB_REF6[0] == inp[6] + 1, "next_addresses: the counter is incremented before the first application");
        vassert!(FB_PREV[0] == 1000 && FB_REF[0] == 2000 && FB_REF0[0] == inp[0] && FB_OLD[0] == 3000 && !FB_XOR[0], "next_addresses: first application G(zero, input) into the address block, overwrite");
        vassert!(FB_PREV[1] == 1000 && FB_REF[1] == 3000 && FB_REF0[1] == FB_MARK[0] && FB_OLD[1] == 3000 && !FB_XOR[1], "next_addresses: second application G(zero, first result) into the address block, overwrite");
        vassert!(address_block.0[0] == FB_MARK[1], "next_addresses: the address block holds the second result");
        let mut k = 0;
        while k < 128 {
            if k != 6 && k != 1 {
                vassert!(input_block.0[k] == inp[k], "next_addresses: only the counter word of the input block changes");
            }
            k += 1;
        }
    }
    #[cfg(not(kani))]
    {
        let mut z = inp;
        z[6] += 1;
        let zero = [0u64; 128];
        let e = spec_g(&zero, &spec_g(&zero, &z));
        for k in 0..128 {
            assert!(address_block.0[k] == e[k], "next_addresses: the address block holds the second result");
            assert!(input_block.0[k] == z[k], "next_addresses: only the counter word of the input block changes");
        }
    }
}

/// Memory over a caller-owned typed array (Kani only; the Box must be forgotten, never dropped)
#[cfg(kani)]
unsafe fn stack_memory<const N: usize>(backing: &mut [Block; N], lane_length: u32) -> Memory {
    let blocks: Box<[Block]> = Box::from_raw(core::ptr::slice_from_raw_parts_mut(backing.as_mut_ptr(), N));
    Memory { lane_length, blocks }
}
#[inline(never)]
fn u64_at<const N: usize>(a: &[u64; N], i: usize) -> u64 {
    a[i]
}
#[inline(never)]
fn ia_pos(k: usize, j: usize) -> u32 {
    unsafe { IA_POS[k][j] }
}
#[inline(never)]
fn na_out(g: usize, j: usize) -> u64 {
    unsafe { NA_OUT[g][j] }
}
#[inline(never)]
fn na_in(g: usize, j: usize) -> u64 {
    unsafe { NA_IN[g][j] }
}
/// One fill_segment call on a memory of P lanes x 4 segments x SEG blocks (N = 4 * P * SEG blocks) at position
/// (pass, slice, lane); variant, version and iteration count symbolic; word 0 of every block arbitrary.
fn case_segment<const P: usize, const SEG: usize, const N: usize>(pass: u32, slice: u32, lane: u32) {
    let init: [u64; N] = any();
    let ty = any_type();
    let v10: bool = any();
    let t: u32 = any();
    assume(t > pass);
    let q = 4 * SEG;
    let version = if v10 { 0x10 } else { 0x13 };
    let params = mk_params(ty, version, P as u32, t, (4 * P * SEG) as u32, SEG as u32);
    // Under Kani the blocks live in a typed local array (a malloc'ed Vec is an untyped byte object for CBMC: every block copy
    // becomes a 1024-byte byte_update of a 32 KiB array and the SSA conversion needs > 20 GB); natively Memory::new.
    #[cfg(kani)]
    let mut backing: [Block; N] = [const { Block([0u64; 128]) }; N];
    #[cfg(kani)]
    {
        // two scalar writes per block (word 0: arbitrary data, word 1: block number); everything else zero
        let mut b = 0;
        while b < N {
            backing[b].0[0] = init[b];
            backing[b].0[1] = b as u64;
            b += 1;
        }
    }
    #[cfg(kani)]
    let mut memory = unsafe { stack_memory(&mut backing, params.lane_length) };
    // natively: word 0 as drawn (it is what data-dependent addressing reads), every other word a fixed pattern that differs from
    // block to block and is never zero — with an all-zero memory (typical solver counterexample) G(prev, ref) would not depend on
    // WHICH blocks are used and a wrong prev/ref/xor choice would not show in the bytes
    #[cfg(not(kani))]
    let mut memory = {
        let mut m = Memory::new(&params);
        for b in 0..m.blocks.len() {
            for k in 1..128 {
                m.blocks[b].0[k] = ((b as u64 + 1).wrapping_mul(0x9E37_79B9_7F4A_7C15)).rotate_left(k as u32) ^ (k as u64);
            }
        }
        for b in 0..N {
            m.blocks[b].0[0] = init[b];
        }
        m
    };
    #[cfg(not(kani))]
    let before: std::vec::Vec<[u64; 128]> = memory.blocks.iter().map(|x| x.0).collect();
    vcover!(ty == Type::Argon2i, "Argon2i");
    vcover!(ty == Type::Argon2d, "Argon2d");
    vcover!(ty == Type::Argon2id, "Argon2id");
    vcover!(v10, "version 0x10");
    let position = BlockPos { pass, lane, slice, index: 0 };
    fill_segment(&params, &position, &mut memory);

    // RFC 9106 3.4.1: data-independent addressing for Argon2i, and for Argon2id in the first two slices of the first pass
    let di = ty == Type::Argon2i || (ty == Type::Argon2id && pass == 0 && slice < 2);
    let start = if pass == 0 && slice == 0 { 2 } else { 0 };
    let steps = SEG - start;
    let first = (lane as usize) * q + (slice as usize) * SEG + start;
    #[cfg(kani)]
    unsafe {
        let base = memory.blocks.as_ptr() as usize as u64;
        vassert!(IA_N == steps && FB_N == steps, "segment: one reference computation and one G per block of the segment (the first two blocks of a lane are skipped)");
        let mut nrefresh = 0;
        let mut k = 0;
        while k < SEG {
            if k < steps {
                let i = start + k;
                let cur = first + k;
                let prev = if cur % q == 0 { cur + q - 1 } else { cur - 1 };
                // 3.4.1.1 / 3.4.1.2: where (J1, J2) come from
                let j = if di {
                    let g = i >> 7; // address block number within the segment; counter value g + 1
                    if (i & 127) == 0 || k == 0 {
                        vassert!(NA_FB[g] == k, "segment: a new address block is generated exactly when 128 addresses are used up (and before the first block)");
                        vassert!(na_in(g, 0) == pass as u64 && na_in(g, 1) == lane as u64 && na_in(g, 2) == slice as u64, "segment: address input Z = (r, l, sl, ..)");
                        vassert!(na_in(g, 3) == (4 * P * SEG) as u64 && na_in(g, 4) == t as u64 && na_in(g, 5) == spec_type_code(ty) as u64, "segment: address input Z = (.., m', t, y, ..)");
                        vassert!(na_in(g, 6) == g as u64 + 1 && NA_ZERO0[g] == 0, "segment: address block counter i = 1, 2, ..");
                        let mut w = 7;
                        while w < 128 {
                            vassert!(na_in(g, w) == 0, "segment: address input padded with zeros");
                            w += 1;
                        }
                        nrefresh += 1;
                    }
                    na_out(g, i & 127)
                } else if k == 0 {
                    u64_at(&init, prev)
                } else {
                    FB_MARK[k - 1] // the block just computed (prev = cur - 1)
                };
                let j1 = j as u32;
                let j2 = (j >> 32) as u32;
                let ref_lane = if pass == 0 && slice == 0 { lane as usize } else { (j2 as usize) % P };
                let same = ref_lane == lane as usize;
                vassert!(ia_pos(k, 0) == pass && ia_pos(k, 1) == lane && ia_pos(k, 2) == slice && ia_pos(k, 3) == i as u32, "segment: reference index computed for the position of the current block");
                vassert!(IA_J1[k] == j1 && IA_SAME[k] == same, "segment: J1 = low half, lane l = J2 mod p (own lane in the very first segment) of the pseudo-random word");
                vassert!(FB_IA[k] == k + 1, "segment: G follows the reference computation of the same block");
                vassert!(FB_PREV[k] == base + 1024 * prev as u64, "segment: G takes the previous block of the lane (wrapping to the last column)");
                vassert!(FB_REF[k] == base + 1024 * ((ref_lane * q) as u64 + IA_Z[k] as u64), "segment: G takes the reference block B[l][z]");
                vassert!(FB_OLD[k] == cur as u64, "segment: G works on a copy of the current block");
                vassert!(FB_XOR[k] == (!v10 && pass > 0), "segment: xor into the existing block exactly for version 0x13 after the first pass");
            }
            k += 1;
        }
        vassert!(NA_N == nrefresh, "segment: no address block for data-dependent addressing, no extra ones otherwise");
        let mut b = 0;
        while b < N {
            let blk = &memory.blocks[b];
            vassert!(blk.0[1] == b as u64, "segment: every block stays in place");
            if b >= first && b < first + steps {
                vassert!(blk.0[0] == FB_MARK[b - first], "segment: the result of G is stored as the current block");
            } else {
                vassert!(blk.0[0] == u64_at(&init, b), "segment: blocks outside the segment untouched");
            }
            b += 1;
        }
    }
    #[cfg(not(kani))]
    {
        // native twin: real G / addresses / index_alpha; the whole segment against the transcription of 3.4
        let e = spec_segment(&params, &before, pass, slice, lane);
        for b in 0..before.len() {
            for k in 0..128 {
                assert!(memory.blocks[b].0[k] == e[b][k], "segment: the result of G is stored as the current block");
            }
        }
        let _ = (di, steps, first, q);
    }
    #[cfg(kani)]
    core::mem::forget(memory);
}
#[cfg(not(kani))]
pub(crate) fn spec_segment(params: &Params, mem: &[[u64; 128]], r: u32, sl: u32, l: u32) -> std::vec::Vec<[u64; 128]> {
    let mut b: std::vec::Vec<[u64; 128]> = mem.to_vec();
    let p = params.parallelism.get() as usize;
    let t = params.iterations.get();
    let seg = params.segment_length as usize;
    let q = 4 * seg;
    let y = spec_type_code(params.hash_type);
    let (l, sl) = (l as usize, sl as usize);
    let di = y == 1 || (y == 2 && r == 0 && sl < 2);
    let zero = [0u64; 128];
    let mut addr = [0u64; 128];
    for i in 0..seg {
        if r == 0 && sl == 0 && i < 2 {
            continue;
        }
        let j = sl * seg + i;
        let prev = if j == 0 { q - 1 } else { j - 1 };
        let w = if di {
            let first_of_segment = if r == 0 && sl == 0 { 2 } else { 0 };
            if i % 128 == 0 || i == first_of_segment {
                let mut z = [0u64; 128];
                z[0] = r as u64;
                z[1] = l as u64;
                z[2] = sl as u64;
                z[3] = (p * q) as u64;
                z[4] = t as u64;
                z[5] = y as u64;
                z[6] = (i / 128 + 1) as u64;
                addr = spec_g(&zero, &spec_g(&zero, &z));
            }
            addr[i % 128]
        } else {
            b[l * q + prev][0]
        };
        let (j1, j2) = (w as u32, (w >> 32) as u32);
        let rl = if r == 0 && sl == 0 { l } else { (j2 as usize) % p };
        let (_w, z) = spec_ref_index(r, sl as u32, i as u32, seg as u32, j1, rl == l);
        let g = spec_g(&b[l * q + prev], &b[rl * q + z as usize]);
        let cur = &mut b[l * q + j];
        for k in 0..128 {
            cur[k] = if params.version == 0x13 && r > 0 { cur[k] ^ g[k] } else { g[k] };
        }
    }
    b
}

#[cfg(kani)]
fn reset_segment_log() {
    unsafe {
        IA_N = 0;
        FB_N = 0;
        NA_N = 0;
    }
}
#[cfg(not(kani))]
fn reset_segment_log() {}
/// Positions are concrete (a symbolic position makes every 1 KiB block copy a symbolic-index array update: 27 GB in CBMC's
/// SSA conversion); variant, version, iteration count, all block contents and all pseudo-random values stay symbolic.
/// Natively only the first listed position is executed per replay (one counterexample byte stream = one position).
#[cfg_attr(kani, kani::proof)]
#[cfg_attr(kani, kani::unwind(130))]
#[cfg_attr(kani, kani::stub(fill_block, fill_block_seg_rec))]
#[cfg_attr(kani, kani::stub(next_addresses, next_addresses_rec))]
#[cfg_attr(kani, kani::stub(index_alpha, index_alpha_rec))]
pub(crate) fn c11_segment_very_first_p2_seg4() {
    case_segment::<2, 4, 32>(0, 0, 1);
}
#[cfg_attr(kani, kani::proof)]
#[cfg_attr(kani, kani::unwind(130))]
#[cfg_attr(kani, kani::stub(fill_block, fill_block_seg_rec))]
#[cfg_attr(kani, kani::stub(next_addresses, next_addresses_rec))]
#[cfg_attr(kani, kani::stub(index_alpha, index_alpha_rec))]
pub(crate) fn c11_segment_pass0_slice1_p2_seg4() {
    case_segment::<2, 4, 32>(0, 1, 0);
}
#[cfg_attr(kani, kani::proof)]
#[cfg_attr(kani, kani::unwind(130))]
#[cfg_attr(kani, kani::stub(fill_block, fill_block_seg_rec))]
#[cfg_attr(kani, kani::stub(next_addresses, next_addresses_rec))]
#[cfg_attr(kani, kani::stub(index_alpha, index_alpha_rec))]
pub(crate) fn c11_segment_pass0_slice2_p2_seg4() {
    case_segment::<2, 4, 32>(0, 2, 1);
}
#[cfg_attr(kani, kani::proof)]
#[cfg_attr(kani, kani::unwind(130))]
#[cfg_attr(kani, kani::stub(fill_block, fill_block_seg_rec))]
#[cfg_attr(kani, kani::stub(next_addresses, next_addresses_rec))]
#[cfg_attr(kani, kani::stub(index_alpha, index_alpha_rec))]
pub(crate) fn c11_segment_pass1_slice0_p2_seg4() {
    case_segment::<2, 4, 32>(1, 0, 1);
}
#[cfg_attr(kani, kani::proof)]
#[cfg_attr(kani, kani::unwind(130))]
#[cfg_attr(kani, kani::stub(fill_block, fill_block_seg_rec))]
#[cfg_attr(kani, kani::stub(next_addresses, next_addresses_rec))]
#[cfg_attr(kani, kani::stub(index_alpha, index_alpha_rec))]
pub(crate) fn c11_segment_pass2_slice3_p3_seg2() {
    case_segment::<3, 2, 24>(2, 3, 2);
}
/// the remaining (pass class, slice, lane) combinations of the 2-lane memory (five positions per harness, recorder reset in between)
#[cfg_attr(kani, kani::proof)]
#[cfg_attr(kani, kani::unwind(130))]
#[cfg_attr(kani, kani::stub(fill_block, fill_block_seg_rec))]
#[cfg_attr(kani, kani::stub(next_addresses, next_addresses_rec))]
#[cfg_attr(kani, kani::stub(index_alpha, index_alpha_rec))]
pub(crate) fn c11_segment_pass0_rest_p2_seg4() {
    case_segment::<2, 4, 32>(0, 0, 0);
    reset_segment_log();
    case_segment::<2, 4, 32>(0, 1, 1);
    reset_segment_log();
    case_segment::<2, 4, 32>(0, 2, 0);
    reset_segment_log();
    case_segment::<2, 4, 32>(0, 3, 0);
    reset_segment_log();
    case_segment::<2, 4, 32>(0, 3, 1);
}
#[cfg_attr(kani, kani::proof)]
#[cfg_attr(kani, kani::unwind(130))]
#[cfg_attr(kani, kani::stub(fill_block, fill_block_seg_rec))]
#[cfg_attr(kani, kani::stub(next_addresses, next_addresses_rec))]
#[cfg_attr(kani, kani::stub(index_alpha, index_alpha_rec))]
pub(crate) fn c11_segment_later_rest_p2_seg4() {
    case_segment::<2, 4, 32>(1, 0, 0);
    reset_segment_log();
    case_segment::<2, 4, 32>(1, 1, 1);
    reset_segment_log();
    case_segment::<2, 4, 32>(1, 2, 0);
    reset_segment_log();
    case_segment::<2, 4, 32>(3, 3, 1);
    reset_segment_log();
    case_segment::<2, 4, 32>(u32::MAX - 1, 1, 0);
}
/// segment length 130 (> 128): the address block is regenerated in the middle of the segment (index 128).  Single lane, the
/// very first segment (starts at index 2).  Only the 130 blocks this segment can touch are modelled: the recorded reference
/// index is capped at 130 (IA_ZCAP) instead of the lane length 520.
#[cfg_attr(kani, kani::proof)]
#[cfg_attr(kani, kani::unwind(132))]
#[cfg_attr(kani, kani::stub(fill_block, fill_block_seg_rec))]
#[cfg_attr(kani, kani::stub(next_addresses, next_addresses_rec))]
#[cfg_attr(kani, kani::stub(index_alpha, index_alpha_rec))]
pub(crate) fn c11_segment_seg130_first() {
    unsafe {
        IA_ZCAP = 130;
    }
    case_segment::<1, 130, 130>(0, 0, 0);
}

// =====================================================================================================================
// Oracle validation (native only, not a deciding step): the RFC transcription used by the native twins reproduces the
// three test vectors of RFC 9106 section 5 and the version-0x10 / single-lane / long-tag behaviour of the real code.
//   RUSTFLAGS="--cfg cryptoxide_verif" cargo test --lib verif_argon2::oracle     (in an overlay scratch copy)
// =====================================================================================================================
#[cfg(all(test, not(kani)))]
mod oracle {
    use super::*;
    fn spec_argon2(params: &Params, pw: &[u8], salt: &[u8], key: &[u8], aad: &[u8], taglen: usize) -> std::vec::Vec<u8> {
        let h0 = spec_h0(params.parallelism.get(), taglen as u32, params.memory_kb, params.iterations.get(), params.version, params.hash_type, pw, salt, key, aad);
        spec_fill_and_finalize(params, &h0, taglen)
    }
    fn rfc_params(base: Params) -> Params {
        ok(ok(ok(base.memory_kb(32)).iterations(3)).parallelism(4))
    }
    #[test]
    fn oracle_rfc9106_section5_vectors() {
        let d: [u8; 32] = [
            0x51, 0x2b, 0x39, 0x1b, 0x6f, 0x11, 0x62, 0x97, 0x53, 0x71, 0xd3, 0x09, 0x19, 0x73, 0x42, 0x94, 0xf8, 0x68, 0xe3, 0xbe, 0x39, 0x84, 0xf3, 0xc1, 0xa1, 0x3a, 0x4d, 0xb9, 0xfa, 0xbe, 0x4a, 0xcb,
        ];
        let i: [u8; 32] = [
            0xc8, 0x14, 0xd9, 0xd1, 0xdc, 0x7f, 0x37, 0xaa, 0x13, 0xf0, 0xd7, 0x7f, 0x24, 0x94, 0xbd, 0xa1, 0xc8, 0xde, 0x6b, 0x01, 0x6d, 0xd3, 0x88, 0xd2, 0x99, 0x52, 0xa4, 0xc4, 0x67, 0x2b, 0x6c, 0xe8,
        ];
        let id: [u8; 32] = [
            0x0d, 0x64, 0x0d, 0xf5, 0x8d, 0x78, 0x76, 0x6c, 0x08, 0xc0, 0x37, 0xa3, 0x4a, 0x8b, 0x53, 0xc9, 0xd0, 0x1e, 0xf0, 0x45, 0x2d, 0x75, 0xb6, 0x5e, 0xb5, 0x25, 0x20, 0xe9, 0x6b, 0x01, 0xe6, 0x59,
        ];
        assert_eq!(spec_argon2(&rfc_params(Params::argon2d()), &[1; 32], &[2; 16], &[3; 8], &[4; 12], 32), d);
        assert_eq!(spec_argon2(&rfc_params(Params::argon2i()), &[1; 32], &[2; 16], &[3; 8], &[4; 12], 32), i);
        assert_eq!(spec_argon2(&rfc_params(Params::argon2id()), &[1; 32], &[2; 16], &[3; 8], &[4; 12], 32), id);
    }
    /// transcription == real implementation on shapes the repository's tests never run: version 0x10, one lane, memory not
    /// divisible by 4p, segment length above 128, tags on both sides of 64 bytes, empty inputs
    #[test]
    fn oracle_agrees_with_implementation_off_the_tested_path() {
        for (ty, ver, p, m, t, taglen) in [(0u8, 0x10u32, 1u32, 8u32, 2u32, 4usize), (1, 0x10, 2, 19, 2, 65), (2, 0x13, 1, 523, 2, 96), (2, 0x10, 3, 37, 3, 97), (1, 0x13, 1, 520, 1, 300), (0, 0x13, 5, 47, 1, 64)] {
            let base = match ty {
                0 => Params::argon2d(),
                1 => Params::argon2i(),
                _ => Params::argon2id(),
            };
            let params = ok(ok(ok(ok(base.parallelism(p)).memory_kb(m)).iterations(t)).version(ver));
            let mut tag = std::vec![0u8; taglen];
            argon2_at(&params, b"pw", b"", b"k", b"", &mut tag);
            assert_eq!(spec_argon2(&params, b"pw", b"", b"k", b"", taglen), tag, "type {} version {:#x} p {} m {} t {} tag {}", ty, ver, p, m, t, taglen);
        }
    }
}
