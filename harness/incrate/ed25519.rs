// C13 / C14 — Ed25519 glue (src/ed25519.rs; child module of crate::ed25519).
// RFC 8032 5.1.5-5.1.7 are data-flow statements about four primitives: SHA-512, reduction / multiply-add mod L,
// fixed-base and double-scalar multiplication, point encoding.  Under Kani these are recorders (loop-free event log,
// arbitrary results); each harness asserts that keypair / sign / verify / exchange wire them exactly as the RFC says,
// for every seed, key, signature and message (message length symbolic, bytes identified by address).
// The primitives themselves are other obligations (C01/C02 SHA-512 glue, C15 limb arithmetic, scalar and group harnesses).
#![allow(dead_code, unused_imports, missing_docs)]
use super::*;
use crate::hashing::sha2::Context512;
use crate::verif_lib::*;

// ---- ghost logs: one small log per primitive, ordered by a global sequence number -----------------------------------
pub(crate) static mut SEQ: usize = 0;
fn tick() -> usize {
    unsafe {
        SEQ += 1;
        SEQ
    }
}
// SHA-512 update(): address, length, and the bytes themselves when the piece is exactly 32 or 64 bytes long
pub(crate) const NU: usize = 8;
pub(crate) static mut UN: usize = 0;
pub(crate) static mut U_SEQ: [usize; NU] = [0; NU];
pub(crate) static mut U_PTR: [usize; NU] = [0; NU];
pub(crate) static mut U_LEN: [usize; NU] = [0; NU];
pub(crate) static mut U_HEAD: [[u8; 64]; NU] = [[0; 64]; NU];
// SHA-512 finalize(): arbitrary 64-byte outputs
pub(crate) const NF: usize = 4;
pub(crate) static mut FN_: usize = 0;
pub(crate) static mut F_SEQ: [usize; NF] = [0; NF];
pub(crate) static mut F_OUT: [[u8; 64]; NF] = [[0; 64]; NF];
// reduce_from_wide_bytes(): input, arbitrary output
pub(crate) const NR: usize = 3;
pub(crate) static mut RN: usize = 0;
pub(crate) static mut R_SEQ: [usize; NR] = [0; NR];
pub(crate) static mut R_IN: [[u8; 64]; NR] = [[0; 64]; NR];
pub(crate) static mut R_OUT: [[u8; 32]; NR] = [[0; 32]; NR];
// scalarmult_base(): scalar ; Ge::to_bytes / GePartial::to_bytes: arbitrary encodings
pub(crate) const NB: usize = 3;
pub(crate) static mut BN: usize = 0;
pub(crate) static mut B_SEQ: [usize; NB] = [0; NB];
pub(crate) static mut B_SCALAR: [[u8; 32]; NB] = [[0; 32]; NB];
pub(crate) static mut EN_: usize = 0;
pub(crate) static mut E_SEQ: [usize; NB] = [0; NB];
pub(crate) static mut E_OUT: [[u8; 32]; NB] = [[0; 32]; NB];
// muladd(a, b, c) -> arbitrary
pub(crate) static mut MN: usize = 0;
pub(crate) static mut M_SEQ: usize = 0;
pub(crate) static mut M_A: [u8; 32] = [0; 32];
pub(crate) static mut M_B: [u8; 32] = [0; 32];
pub(crate) static mut M_C: [u8; 32] = [0; 32];
pub(crate) static mut M_OUT: [u8; 32] = [0; 32];
// verify side: point decoding, double-scalar product, X25519, birational map
pub(crate) static mut DN: usize = 0;
pub(crate) static mut D_SEQ: usize = 0;
pub(crate) static mut D_IN: [u8; 32] = [0; 32];
pub(crate) static mut DECODE_OK: bool = true;
pub(crate) static mut SN: usize = 0;
pub(crate) static mut S_SEQ: usize = 0;
pub(crate) static mut S_A: [u8; 32] = [0; 32];
pub(crate) static mut S_B: [u8; 32] = [0; 32];
pub(crate) static mut XN: usize = 0;
pub(crate) static mut X_SEQ: usize = 0;
pub(crate) static mut X_N: [u8; 32] = [0; 32];
pub(crate) static mut X_P: [u8; 32] = [0; 32];
pub(crate) static mut X_OUT: [u8; 32] = [0; 32];
pub(crate) static mut TN: usize = 0;
pub(crate) static mut T_SEQ: usize = 0;
pub(crate) static mut T_IN: [u8; 32] = [0; 32];
pub(crate) static mut T_OUT: [u8; 32] = [0; 32];

fn lo32(x: &[u8; 64]) -> [u8; 32] {
    let mut o = [0u8; 32];
    let mut i = 0;
    while i < 32 {
        o[i] = x[i];
        i += 1;
    }
    o
}
fn eq32(a: &[u8], b: &[u8]) -> bool {
    let mut ok = a.len() >= 32 && b.len() >= 32;
    let mut i = 0;
    while i < 32 {
        if ok && a[i] != b[i] {
            ok = false;
        }
        i += 1;
    }
    ok
}
fn eq64(a: &[u8; 64], b: &[u8; 64]) -> bool {
    let mut ok = true;
    let mut i = 0;
    while i < 64 {
        if a[i] != b[i] {
            ok = false;
        }
        i += 1;
    }
    ok
}

// ---- recorders ----------------------------------------------------------------------------------------------------
#[cfg(kani)]
pub(crate) fn sha_update_rec(c: Context512, input: &[u8]) -> Context512 {
    unsafe {
        if UN < NU {
            U_SEQ[UN] = tick();
            U_PTR[UN] = input.as_ptr() as usize;
            U_LEN[UN] = input.len();
            if input.len() == 32 || input.len() == 64 {
                let mut i = 0;
                while i < 64 {
                    if i < input.len() {
                        U_HEAD[UN][i] = input[i];
                    }
                    i += 1;
                }
            }
        }
        UN += 1;
    }
    c
}
#[cfg(kani)]
pub(crate) fn sha_finalize_rec(_c: Context512) -> [u8; 64] {
    let out: [u8; 64] = kani::any();
    unsafe {
        if FN_ < NF {
            F_SEQ[FN_] = tick();
            F_OUT[FN_] = out;
        }
        FN_ += 1;
    }
    out
}
#[cfg(kani)]
pub(crate) fn basemul_rec(a: &Scalar) -> Ge {
    unsafe {
        if BN < NB {
            B_SEQ[BN] = tick();
            B_SCALAR[BN] = a.to_bytes();
        }
        BN += 1;
    }
    Ge::ZERO
}
#[cfg(kani)]
fn enc_rec() -> [u8; 32] {
    let o: [u8; 32] = kani::any();
    unsafe {
        if EN_ < NB {
            E_SEQ[EN_] = tick();
            E_OUT[EN_] = o;
        }
        EN_ += 1;
    }
    o
}
#[cfg(kani)]
pub(crate) fn ge_to_bytes_rec(_g: &Ge) -> [u8; 32] {
    enc_rec()
}
#[cfg(kani)]
pub(crate) fn partial_to_bytes_rec(_g: &GePartial) -> [u8; 32] {
    enc_rec()
}
#[cfg(kani)]
pub(crate) fn reduce_rec(s: &[u8; 64]) -> Scalar {
    let o: [u8; 32] = kani::any();
    unsafe {
        if RN < NR {
            R_SEQ[RN] = tick();
            R_IN[RN] = *s;
            R_OUT[RN] = o;
        }
        RN += 1;
    }
    Scalar::from_bytes(&o)
}
#[cfg(kani)]
pub(crate) fn muladd_rec(a: &Scalar, b: &Scalar, c: &Scalar) -> Scalar {
    let o: [u8; 32] = kani::any();
    unsafe {
        M_SEQ = tick();
        M_A = a.to_bytes();
        M_B = b.to_bytes();
        M_C = c.to_bytes();
        M_OUT = o;
        MN += 1;
    }
    Scalar::from_bytes(&o)
}
#[cfg(kani)]
pub(crate) fn dsm_rec(a_scalar: &Scalar, _a_point: Ge, b_scalar: &Scalar) -> GePartial {
    unsafe {
        S_SEQ = tick();
        S_A = a_scalar.to_bytes();
        S_B = b_scalar.to_bytes();
        SN += 1;
    }
    GePartial::ZERO
}
#[cfg(kani)]
pub(crate) fn ge_from_bytes_rec(s: &[u8; 32]) -> Option<Ge> {
    unsafe {
        D_SEQ = tick();
        D_IN = *s;
        DN += 1;
        if DECODE_OK {
            Some(Ge::ZERO)
        } else {
            None
        }
    }
}
#[cfg(kani)]
pub(crate) fn curve25519_rec(n: &[u8; 32], p: &[u8; 32]) -> [u8; 32] {
    let o: [u8; 32] = kani::any();
    unsafe {
        X_SEQ = tick();
        X_N = *n;
        X_P = *p;
        X_OUT = o;
        XN += 1;
    }
    o
}
#[cfg(kani)]
pub(crate) fn mont_rec(ed_y: &Fe) -> Fe {
    let o: [u8; 32] = kani::any();
    let f = Fe::from_bytes(&o);
    unsafe {
        T_SEQ = tick();
        T_IN = ed_y.to_bytes();
        T_OUT = f.to_bytes();
        TN += 1;
    }
    f
}

/// RFC 8032 5.1.5 step 2 on the low 32 bytes of a hash
fn spec_clamp(h: &[u8; 64]) -> [u8; 32] {
    let mut s = lo32(h);
    s[0] &= 248;
    s[31] &= 127;
    s[31] |= 64;
    s
}

// ---- C13 ------------------------------------------------------------------------------------------------------------
#[cfg_attr(kani, kani::proof)]
#[cfg_attr(kani, kani::unwind(66))]
pub(crate) fn c13_clamp_scalar() {
    let h: [u8; 64] = any();
    let mut x = h;
    clamp_scalar(&mut x);
    let want = spec_clamp(&h);
    let mut i = 0;
    while i < 64 {
        if i < 32 {
            vassert!(x[i] == want[i], "clamp_scalar: clear bits 0-2 and 255, set bit 254 (RFC 8032 5.1.5)");
        } else {
            vassert!(x[i] == h[i], "clamp_scalar: the prefix half of the hash is untouched");
        }
        i += 1;
    }
}

#[cfg_attr(kani, kani::proof)]
#[cfg_attr(kani, kani::unwind(66))]
#[cfg_attr(kani, kani::stub(Context512::update, sha_update_rec))]
#[cfg_attr(kani, kani::stub(Context512::finalize, sha_finalize_rec))]
#[cfg_attr(kani, kani::stub(Ge::scalarmult_base, basemul_rec))]
#[cfg_attr(kani, kani::stub(Ge::to_bytes, ge_to_bytes_rec))]
pub(crate) fn c13_keypair_layout() {
    let seed: [u8; 32] = any();
    let (kp, pk) = keypair(&seed);
    #[cfg(kani)]
    unsafe {
        vassert!(UN == 1 && FN_ == 1 && BN == 1 && EN_ == 1, "keypair: one hash, one fixed-base multiplication, one point encoding");
        vassert!(U_PTR[0] == seed.as_ptr() as usize && U_LEN[0] == 32 && U_SEQ[0] < F_SEQ[0], "keypair: h = SHA-512(seed)");
        let s = spec_clamp(&F_OUT[0]);
        vassert!(F_SEQ[0] < B_SEQ[0] && eq32(&B_SCALAR[0], &s), "keypair: A = [clamp(h[0..32])] B");
        vassert!(B_SEQ[0] < E_SEQ[0] && eq32(&E_OUT[0], &pk), "keypair: public key = encoding of A");
    }
    vassert!(eq32(&kp[0..32], &seed) && eq32(&kp[32..64], &pk), "keypair: layout seed || public key");
    #[cfg(not(kani))]
    {
        let ext = extended_secret(&seed);
        assert!(pk == extended_to_public(&ext), "keypair: public key = encoding of A");
    }
}

/// which = 0: signature(message, keypair)   which = 1: signature_extended(message, extended)
fn case_sign(which: u8) {
    let key: [u8; 64] = any();
    let msg = Bytes::<3>::any();
    let m = msg.get();
    let sig = if which == 0 { signature(m, &key) } else { signature_extended(m, &key) };
    #[cfg(kani)]
    unsafe {
        // az: hash of the seed (signature) or the given extended secret (signature_extended); u0/f0/b0/e0 = index of the first nonce-side entry per log
        let mut az = key;
        let mut public = [0u8; 32];
        let (u0, f0, b0, e0);
        if which == 0 {
            vassert!(U_PTR[0] == key.as_ptr() as usize && U_LEN[0] == 32 && U_SEQ[0] < F_SEQ[0] && F_SEQ[0] < U_SEQ[1], "signature: az = SHA-512(seed), seed = keypair[0..32]");
            az = F_OUT[0];
            let cl = spec_clamp(&F_OUT[0]);
            let mut i = 0;
            while i < 32 {
                az[i] = cl[i];
                public[i] = key[32 + i];
                i += 1;
            }
            u0 = 1;
            f0 = 1;
            b0 = 0;
            e0 = 0;
        } else {
            vassert!(eq32(&B_SCALAR[0], &key[0..32]) && B_SEQ[0] < E_SEQ[0] && E_SEQ[0] < U_SEQ[0], "signature_extended: A = [extended[0..32]] B, public key = its encoding");
            public = E_OUT[0];
            u0 = 0;
            f0 = 0;
            b0 = 1;
            e0 = 1;
        }
        vassert!(UN == u0 + 4 && FN_ == f0 + 2 && RN == 2 && BN == b0 + 1 && EN_ == e0 + 1 && MN == 1, "sign: exactly two hashes (two pieces each), two reductions, one fixed-base product, one encoding, one multiply-add");
        // r = SHA-512(prefix || M) mod L
        vassert!(U_LEN[u0] == 32 && eq32(&U_HEAD[u0], &az[32..64]), "sign: nonce hash starts with the 32-byte prefix az[32..64]");
        vassert!(U_PTR[u0 + 1] == m.as_ptr() as usize && U_LEN[u0 + 1] == m.len(), "sign: nonce hash continues with the whole message");
        vassert!(U_SEQ[u0] < U_SEQ[u0 + 1] && U_SEQ[u0 + 1] < F_SEQ[f0] && F_SEQ[f0] < R_SEQ[0], "sign: nonce hash finalised then reduced");
        vassert!(eq64(&R_IN[0], &F_OUT[f0]), "sign: r = SHA-512(prefix || M) mod L (all 64 hash bytes reduced)");
        // R = [r]B
        vassert!(R_SEQ[0] < B_SEQ[b0] && eq32(&B_SCALAR[b0], &R_OUT[0]) && B_SEQ[b0] < E_SEQ[e0], "sign: R = encoding of [r]B");
        // h = SHA-512(R || A || M) mod L
        vassert!(E_SEQ[e0] < U_SEQ[u0 + 2] && U_LEN[u0 + 2] == 64 && eq32(&U_HEAD[u0 + 2][0..32], &E_OUT[e0]) && eq32(&U_HEAD[u0 + 2][32..64], &public), "sign: second hash starts with R || A");
        vassert!(U_PTR[u0 + 3] == m.as_ptr() as usize && U_LEN[u0 + 3] == m.len(), "sign: second hash continues with the whole message");
        vassert!(U_SEQ[u0 + 2] < U_SEQ[u0 + 3] && U_SEQ[u0 + 3] < F_SEQ[f0 + 1] && F_SEQ[f0 + 1] < R_SEQ[1], "sign: second hash finalised then reduced");
        vassert!(eq64(&R_IN[1], &F_OUT[f0 + 1]), "sign: h = SHA-512(R || A || M) mod L (all 64 hash bytes reduced)");
        // S = (h * a + r) mod L
        vassert!(R_SEQ[1] < M_SEQ && eq32(&M_A, &R_OUT[1]) && eq32(&M_B, &az[0..32]) && eq32(&M_C, &R_OUT[0]), "sign: S = (h * a + r) mod L with a = az[0..32]");
        vassert!(eq32(&sig[0..32], &E_OUT[e0]) && eq32(&sig[32..64], &M_OUT), "sign: signature = R || S");
    }
    #[cfg(not(kani))]
    {
        // native twin: both signing interfaces agree on the same expanded key material and the signature verifies
        if which == 0 {
            let mut seed = [0u8; 32];
            seed.copy_from_slice(&key[0..32]);
            let ext = extended_secret(&seed);
            let (_kp, pk) = keypair(&seed);
            if key[32..64] == pk[..] {
                assert!(sig == signature_extended(m, &ext), "sign: signature = R || S");
                assert!(verify(m, &pk, &sig), "sign: signature = R || S");
            }
        }
    }
}
#[cfg_attr(kani, kani::proof)]
#[cfg_attr(kani, kani::unwind(66))]
#[cfg_attr(kani, kani::stub(Context512::update, sha_update_rec))]
#[cfg_attr(kani, kani::stub(Context512::finalize, sha_finalize_rec))]
#[cfg_attr(kani, kani::stub(Ge::scalarmult_base, basemul_rec))]
#[cfg_attr(kani, kani::stub(Ge::to_bytes, ge_to_bytes_rec))]
#[cfg_attr(kani, kani::stub(Scalar::reduce_from_wide_bytes, reduce_rec))]
#[cfg_attr(kani, kani::stub(scalar::muladd, muladd_rec))]
pub(crate) fn c13_signature_dataflow() {
    case_sign(0);
}
#[cfg_attr(kani, kani::proof)]
#[cfg_attr(kani, kani::unwind(66))]
#[cfg_attr(kani, kani::stub(Context512::update, sha_update_rec))]
#[cfg_attr(kani, kani::stub(Context512::finalize, sha_finalize_rec))]
#[cfg_attr(kani, kani::stub(Ge::scalarmult_base, basemul_rec))]
#[cfg_attr(kani, kani::stub(Ge::to_bytes, ge_to_bytes_rec))]
#[cfg_attr(kani, kani::stub(Scalar::reduce_from_wide_bytes, reduce_rec))]
#[cfg_attr(kani, kani::stub(scalar::muladd, muladd_rec))]
pub(crate) fn c13_signature_extended_dataflow() {
    case_sign(1);
}

/// exchange(pk, seed) = X25519(clamp(SHA-512(seed)[0..32]), u) with u = (1 + y) / (1 - y) of the Edwards y in pk
#[cfg_attr(kani, kani::proof)]
#[cfg_attr(kani, kani::unwind(66))]
#[cfg_attr(kani, kani::stub(Context512::update, sha_update_rec))]
#[cfg_attr(kani, kani::stub(Context512::finalize, sha_finalize_rec))]
#[cfg_attr(kani, kani::stub(crate::curve25519::curve25519, curve25519_rec))]
#[cfg_attr(kani, kani::stub(edwards_to_montgomery_x, mont_rec))]
pub(crate) fn c13_exchange_dataflow() {
    let pk: [u8; 32] = any();
    let seed: [u8; 32] = any();
    let out = exchange(&pk, &seed);
    #[cfg(kani)]
    unsafe {
        vassert!(TN == 1 && UN == 1 && FN_ == 1 && XN == 1, "exchange: birational map, one hash, one X25519");
        vassert!(eq32(&T_IN, &Fe::from_bytes(&pk).to_bytes()), "exchange: u derived from the y coordinate decoded from the public key");
        vassert!(U_PTR[0] == seed.as_ptr() as usize && U_LEN[0] == 32 && U_SEQ[0] < F_SEQ[0], "exchange: SHA-512(seed)");
        let s = spec_clamp(&F_OUT[0]);
        vassert!(F_SEQ[0] < X_SEQ && T_SEQ < X_SEQ && eq32(&X_N, &s) && eq32(&X_P, &T_OUT), "exchange: X25519(clamped hash, u)");
        vassert!(eq32(&out, &X_OUT), "exchange: returns the X25519 output");
    }
}

// ---- C14 ------------------------------------------------------------------------------------------------------------
/// verify(M, A, R||S) is true exactly when: A decodes, A is not the all-zero string, S < L, and the 32-byte encoding of
/// [S]B - [h]A (h = SHA-512(R||A||M) mod L) equals R.  Point decoding / the double-scalar product / the hash are recorded.
#[cfg_attr(kani, kani::proof)]
#[cfg_attr(kani, kani::unwind(66))]
#[cfg_attr(kani, kani::stub(Context512::update, sha_update_rec))]
#[cfg_attr(kani, kani::stub(Context512::finalize, sha_finalize_rec))]
#[cfg_attr(kani, kani::stub(Ge::from_bytes, ge_from_bytes_rec))]
#[cfg_attr(kani, kani::stub(Scalar::reduce_from_wide_bytes, reduce_rec))]
#[cfg_attr(kani, kani::stub(GePartial::double_scalarmult_vartime, dsm_rec))]
#[cfg_attr(kani, kani::stub(GePartial::to_bytes, partial_to_bytes_rec))]
pub(crate) fn c14_verify_skeleton() {
    let pk: [u8; 32] = any();
    let sig: [u8; 64] = any();
    let msg = Bytes::<3>::any();
    let decodes: bool = any();
    let m = msg.get();
    #[cfg(kani)]
    unsafe {
        DECODE_OK = decodes;
    }
    let mut allzero = true;
    let mut sb = [0u8; 32];
    let mut i = 0;
    while i < 32 {
        if pk[i] != 0 {
            allzero = false;
        }
        sb[i] = sig[32 + i];
        i += 1;
    }
    let s_canonical = crate::curve25519::scalar::verif_scalar::lt_l(&crate::curve25519::scalar::verif_scalar::words(&sb));
    vcover!(decodes && !allzero && s_canonical, "all gates open");
    vcover!(allzero && decodes && s_canonical, "all-zero key that decodes");
    vcover!(!s_canonical && decodes && !allzero, "non-canonical S");
    let ok = verify(m, &pk, &sig);
    #[cfg(kani)]
    unsafe {
        if !decodes || !s_canonical || allzero {
            vassert!(!ok, "verify: rejects undecodable keys, the all-zero key and S >= L");
        } else {
            vassert!(DN == 1 && UN == 3 && FN_ == 1 && RN == 1 && SN == 1 && EN_ == 1, "verify: one decode, one hash of three pieces, one reduction, one double-scalar product, one encoding");
            vassert!(eq32(&D_IN, &pk), "verify: the public key is decoded as a point");
            vassert!(U_LEN[0] == 32 && eq32(&U_HEAD[0], &sig[0..32]), "verify: hash starts with R");
            vassert!(U_LEN[1] == 32 && eq32(&U_HEAD[1], &pk), "verify: then the public key A");
            vassert!(U_PTR[2] == m.as_ptr() as usize && U_LEN[2] == m.len(), "verify: then the whole message");
            vassert!(U_SEQ[0] < U_SEQ[1] && U_SEQ[1] < U_SEQ[2] && U_SEQ[2] < F_SEQ[0] && F_SEQ[0] < R_SEQ[0] && R_SEQ[0] < S_SEQ && S_SEQ < E_SEQ[0], "verify: h = SHA-512(R || A || M) mod L, then the product, then its encoding");
            vassert!(eq64(&R_IN[0], &F_OUT[0]), "verify: all 64 hash bytes reduced");
            vassert!(eq32(&S_A, &R_OUT[0]) && eq32(&S_B, &sig[32..64]), "verify: computes [h](decoded A) + [S]B with the received S");
            let equal = eq32(&E_OUT[0], &sig[0..32]);
            vcover!(equal, "recomputed R matches");
            vcover!(!equal && E_OUT[0][31] != sig[31] && E_OUT[0][0] == sig[0], "differs only late");
            vassert!(ok == equal, "verify: accepts exactly when all 32 bytes of the recomputed R equal the received R");
        }
    }
    #[cfg(not(kani))]
    {
        if allzero || !s_canonical {
            assert!(!ok, "verify: rejects undecodable keys, the all-zero key and S >= L");
        }
        // The recorded run does not depend on curve values, so the solver's (key, signature) is almost never a valid triple. Confirm natively on
        // fixed non-degenerate variants as well; any failing triple is a genuine violation of the for-all statement.
        let l: [u8; 32] = [0xed, 0xd3, 0xf5, 0x5c, 0x1a, 0x63, 0x12, 0x58, 0xd6, 0x9c, 0xf7, 0xa2, 0xde, 0xf9, 0xde, 0x14, 0, 0, 0, 0, 0, 0, 0, 0, 0, 0, 0, 0, 0, 0, 0, 0x10];
        for seed in 0..96u8 {
            let mut sk = [seed; 32];
            sk[1] = seed.wrapping_mul(37);
            let (kp, public) = keypair(&sk);
            let msg = [seed, 1, 2];
            let good = signature(&msg, &kp);
            assert!(verify(&msg, &public, &good), "verify: accepts exactly when all 32 bytes of the recomputed R equal the received R");
            // S + L (when it still fits in 256 bits) must be refused
            let mut mall = good;
            let mut carry = 0u16;
            for i in 0..32 {
                let t = good[32 + i] as u16 + l[i] as u16 + carry;
                mall[32 + i] = t as u8;
                carry = t >> 8;
            }
            if carry == 0 {
                assert!(!verify(&msg, &public, &mall), "verify: rejects undecodable keys, the all-zero key and S >= L");
            }
            let mut bad = good;
            bad[31] ^= 0x10;
            assert!(!verify(&msg, &public, &bad), "verify: accepts exactly when all 32 bytes of the recomputed R equal the received R");
        }
        // the all-zero key decodes to a point of order 4: with R = B, S = 1 and a message whose h is a multiple of 4 the equation holds, yet the key must be refused
        let zero_key = [0u8; 32];
        let mut crafted = [0u8; 64];
        crafted[0] = 0x58;
        for b in crafted[1..32].iter_mut() {
            *b = 0x66;
        }
        crafted[32] = 1;
        for m0 in 0..64u8 {
            let msg = [m0, 0xaa];
            let h = Sha512::new().update(&crafted[0..32]).update(&zero_key).update(&msg).finalize();
            if Scalar::reduce_from_wide_bytes(&h).to_bytes()[0] & 3 == 0 {
                assert!(!verify(&msg, &zero_key, &crafted), "verify: rejects undecodable keys, the all-zero key and S >= L");
            }
        }
    }
}
