// C04 — deterministic random generator (src/drg/chacha.rs; child module of crate::drg::chacha).
// Every request must be "run the cipher over a ZEROED destination of exactly the requested size" — then, by the C04
// process_mut step lemma, the bytes returned are the next keystream bytes whatever the request sizes were and whatever
// the destination held before.  Under Kani ChaCha::process_mut is a recorder (address, length, whether the buffer was
// all zero when it ran; it then fills the buffer with arbitrary bytes it logs); natively the real cipher runs and the
// outputs are compared with a second generator in the same state drawing through bytes::<N>().
#![allow(dead_code, unused_imports, missing_docs)]
use super::*;
use crate::chacha::verif_chacha::{spec_init, words_eq};
use crate::chacha20::verif_ctx::{chacha_parts, mk_chacha};
use crate::verif_lib::*;

pub(crate) const MAXN: usize = 9;
pub(crate) static mut PN: usize = 0;
pub(crate) static mut P_PTR: usize = 0;
pub(crate) static mut P_LEN: usize = 0;
pub(crate) static mut P_ZERO: bool = false;
pub(crate) static mut P_OUT: [u8; MAXN] = [0; MAXN];
#[cfg(kani)]
pub(crate) fn pm_rec<const ROUNDS: usize>(_c: &mut ChaCha<ROUNDS>, data: &mut [u8]) {
    let fill: [u8; MAXN] = kani::any();
    unsafe {
        PN += 1;
        P_PTR = data.as_ptr() as usize;
        P_LEN = data.len();
        P_OUT = fill;
        let mut z = true;
        let mut i = 0;
        while i < MAXN {
            if i < data.len() {
                if data[i] != 0 {
                    z = false;
                }
                data[i] = fill[i];
            }
            i += 1;
        }
        P_ZERO = z;
    }
}
fn arb_drg() -> (Drg<2>, Drg<2>) {
    let w: [u32; 16] = any();
    let cached: [u8; 64] = any();
    let offset: usize = any();
    assume(offset <= 64);
    (Drg(mk_chacha::<2>(w, cached, offset)), Drg(mk_chacha::<2>(w, cached, offset)))
}

fn case_bytes<const N: usize>() {
    let (mut d, mut _e) = arb_drg();
    let out: [u8; N] = d.bytes::<N>();
    #[cfg(kani)]
    unsafe {
        vassert!(PN == 1 && P_LEN == N && P_ZERO, "Drg::bytes: one cipher pass over a zeroed N-byte buffer");
        let mut i = 0;
        while i < N {
            vassert!(out[i] == P_OUT[i], "Drg::bytes: returns the cipher output");
            i += 1;
        }
    }
    let _ = out;
}
fn case_fill_bytes<const N: usize>() {
    let (mut d, mut e) = arb_drg();
    let prior: [u8; N] = any();
    let mut out = prior;
    d.fill_bytes::<N>(&mut out);
    #[cfg(kani)]
    unsafe {
        vassert!(PN == 1 && P_PTR == out.as_ptr() as usize && P_LEN == N, "Drg::fill_bytes: one cipher pass over the whole destination");
        vassert!(P_ZERO, "Drg::fill_bytes: the next N keystream bytes, independent of prior buffer contents");
        let mut i = 0;
        while i < N {
            vassert!(out[i] == P_OUT[i], "Drg::fill_bytes: returns the cipher output");
            i += 1;
        }
    }
    #[cfg(not(kani))]
    assert!(out == e.bytes::<N>(), "Drg::fill_bytes: the next N keystream bytes, independent of prior buffer contents");
    let _ = &mut e;
}
fn case_fill_slice<const N: usize>() {
    let (mut d, mut e) = arb_drg();
    let prior: [u8; N] = any();
    let n: usize = any();
    assume(n <= N);
    vcover!(n == 0, "empty request");
    vcover!(n == N, "largest request");
    let mut out = prior;
    d.fill_slice(&mut out[..n]);
    #[cfg(kani)]
    unsafe {
        vassert!(PN == 1 && P_PTR == out.as_ptr() as usize && P_LEN == n, "Drg::fill_slice: one cipher pass over exactly the slice");
        vassert!(P_ZERO, "Drg::fill_slice: the next keystream bytes, independent of prior buffer contents");
        let mut i = 0;
        while i < N {
            if i < n {
                vassert!(out[i] == P_OUT[i], "Drg::fill_slice: returns the cipher output");
            } else {
                vassert!(out[i] == prior[i], "Drg::fill_slice: bytes beyond the slice untouched");
            }
            i += 1;
        }
    }
    #[cfg(not(kani))]
    {
        let mut r = [0u8; N];
        e.0.process_mut(&mut r[..n]);
        assert!(out[..n] == r[..n], "Drg::fill_slice: the next keystream bytes, independent of prior buffer contents");
    }
    let _ = &mut e;
}

#[cfg_attr(kani, kani::proof)]
#[cfg_attr(kani, kani::unwind(12))]
#[cfg_attr(kani, kani::stub(ChaCha::process_mut, pm_rec))]
pub(crate) fn c04_drg_bytes_n1() {
    case_bytes::<1>();
}
#[cfg_attr(kani, kani::proof)]
#[cfg_attr(kani, kani::unwind(12))]
#[cfg_attr(kani, kani::stub(ChaCha::process_mut, pm_rec))]
pub(crate) fn c04_drg_bytes_n9() {
    case_bytes::<9>();
}
#[cfg_attr(kani, kani::proof)]
#[cfg_attr(kani, kani::unwind(12))]
#[cfg_attr(kani, kani::stub(ChaCha::process_mut, pm_rec))]
pub(crate) fn c04_drg_u32() {
    let (mut d, _e) = arb_drg();
    let v = d.u32();
    #[cfg(kani)]
    unsafe {
        vassert!(PN == 1 && P_LEN == 4 && P_ZERO, "Drg::u32: one cipher pass over a zeroed 4-byte buffer");
        let e = ((P_OUT[0] as u32) << 24) | ((P_OUT[1] as u32) << 16) | ((P_OUT[2] as u32) << 8) | (P_OUT[3] as u32);
        vassert!(v == e, "Drg::u32: next 4 keystream bytes, big-endian");
    }
    let _ = v;
}
#[cfg_attr(kani, kani::proof)]
#[cfg_attr(kani, kani::unwind(12))]
#[cfg_attr(kani, kani::stub(ChaCha::process_mut, pm_rec))]
pub(crate) fn c04_drg_u64() {
    let (mut d, _e) = arb_drg();
    let v = d.u64();
    #[cfg(kani)]
    unsafe {
        vassert!(PN == 1 && P_LEN == 8 && P_ZERO, "Drg::u64: one cipher pass over a zeroed 8-byte buffer");
        let mut e = 0u64;
        let mut i = 0;
        while i < 8 {
            e = (e << 8) | (P_OUT[i] as u64);
            i += 1;
        }
        vassert!(v == e, "Drg::u64: next 8 keystream bytes, big-endian");
    }
    let _ = v;
}
#[cfg_attr(kani, kani::proof)]
#[cfg_attr(kani, kani::unwind(12))]
#[cfg_attr(kani, kani::stub(ChaCha::process_mut, pm_rec))]
pub(crate) fn c04_drg_fill_bytes_n5() {
    case_fill_bytes::<5>();
}
#[cfg_attr(kani, kani::proof)]
#[cfg_attr(kani, kani::unwind(12))]
#[cfg_attr(kani, kani::stub(ChaCha::process_mut, pm_rec))]
pub(crate) fn c04_drg_fill_slice_le6() {
    case_fill_slice::<6>();
}
/// Drg::new(seed) == IETF ChaCha keyed with the seed, all-zero 96-bit nonce, block 0, nothing cached
#[cfg_attr(kani, kani::proof)]
#[cfg_attr(kani, kani::unwind(66))]
pub(crate) fn c04_drg_new() {
    let seed: [u8; 32] = any();
    let d = Drg::<20>::new(&seed);
    let (w, _c, off) = chacha_parts(&d.0);
    vassert!(words_eq(&w, &spec_init(&seed, &[0u8; 12])), "Drg::new: ChaCha state for (seed, zero nonce, block 0)");
    vassert!(off == 64, "Drg::new: nothing cached");
}
