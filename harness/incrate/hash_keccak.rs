// C02 — the four Keccak context types of src/hashing/keccak.rs (child module of crate::hashing::keccak) are thin wrappers of
// sha3::Engine<DIGESTLEN, 0>; the engine lemmas are in hash_sha3.rs.  process/output recorded (see sponge_ctx_case there).
#![allow(dead_code, unused_imports, unused_variables, unused_macros, missing_docs, static_mut_refs)]
use super::*;
use crate::hashing::sha3::verif_sha3::*;
use crate::verif_lib::*;

#[cfg_attr(kani, kani::proof)]
#[cfg_attr(kani, kani::unwind(202))]
#[cfg_attr(kani, kani::stub(crate::hashing::sha3::Engine::process, process_rec))]
#[cfg_attr(kani, kani::stub(crate::hashing::sha3::Engine::output, output_rec))]
pub(crate) fn c02_keccak_context_wrappers() {
    sponge_ctx_case!(Context224, 28);
    sponge_ctx_case!(Context256, 32);
    sponge_ctx_case!(Context384, 48);
    sponge_ctx_case!(Context512, 64);
}
