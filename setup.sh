#!/bin/bash
# offline setup: nothing to fetch or build ahead of time; verify the tools the checks rely on are present.
set -e
cd "$(dirname "$(readlink -f "$0")")"
export CARGO_NET_OFFLINE=true
cargo kani --version
cbmc --version
cargo +nightly --version
python3-vt -c "import z3; print('z3', z3.get_version_string())"
python3 -c "import json,re,subprocess"
mkdir -p evidence replays
echo setup ok
