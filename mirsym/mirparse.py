"""Parser for the textual MIR printed by `rustc -Zunpretty=mir` (nightly 1.97).

Only what the limb-arithmetic and kernel bodies of cryptoxide use. A function is kept as
  Fn(name, header, args=[(local, type)], ret, locals={n: type}, blocks={n: (stmts, term)})
with statements/terminators parsed lazily into small tuples by parse_stmt / parse_term.
"""
import re

FN_RE = re.compile(r"^(?:const )?fn (.*?)\((.*)\) -> (.*) \{\s*$")
CONST_RE = re.compile(r"^(?:pub )?(?:const|static) (.+?): ([^=]*?) = \{\s*$")
LET_RE = re.compile(r"^\s*let (?:mut )?_(\d+): (.*);\s*$")
BB_RE = re.compile(r"^\s*bb(\d+)(?: \(cleanup\))?: \{\s*$")


class Fn:
    def __init__(self, name, header, args, ret):
        self.name, self.header, self.args, self.ret = name, header, args, ret
        self.locals = {}
        self.blocks = {}
        self.ctfe = False
        self._parsed = {}
        self.debug = {}   # source variable name -> [locals] (from `debug x => _N;` lines)

    def block(self, n):
        if n not in self._parsed:
            stmts, term = self.blocks[n]
            self._parsed[n] = ([parse_stmt(s) for s in stmts], parse_term(term))
        return self._parsed[n]


def split_top(s, sep=","):
    """split on sep at bracket depth 0 (also ignoring string literals)"""
    out, depth, cur, i, instr = [], 0, [], 0, False
    while i < len(s):
        c = s[i]
        if instr:
            cur.append(c)
            if c == "\\":
                cur.append(s[i + 1])
                i += 1
            elif c == '"':
                instr = False
        elif c == '"':
            instr = True
            cur.append(c)
        elif c in "([{<":
            # '<' only counts as a bracket inside type-ish contexts; comparisons do not occur in MIR operands
            depth += 1
            cur.append(c)
        elif c in ")]}>":
            if c == ">" and i > 0 and s[i - 1] == "-":
                cur.append(c)  # '->'
            else:
                depth -= 1
                cur.append(c)
        elif c == sep and depth == 0:
            out.append("".join(cur).strip())
            cur = []
        else:
            cur.append(c)
        i += 1
    if "".join(cur).strip():
        out.append("".join(cur).strip())
    return out


def parse_file(path):
    fns, consts = {}, {}
    cur = None
    curblock = None
    ctfe_next = False
    kind = None
    for raw in open(path):
        line = raw.rstrip("\n")
        if cur is None:
            if line.startswith("// MIR FOR CTFE"):
                ctfe_next = True
                continue
            m = FN_RE.match(line)
            if m and (line.startswith("fn ") or line.startswith("const fn ")):
                name, argstr, ret = m.group(1), m.group(2), m.group(3)
                args = []
                for a in split_top(argstr):
                    am = re.match(r"_(\d+): (.*)$", a)
                    if am:
                        args.append((int(am.group(1)), am.group(2)))
                cur = Fn(name, line, args, ret)
                cur.ctfe = ctfe_next
                ctfe_next = False
                kind = "fn"
                for (n, t) in args:
                    cur.locals[n] = t
                continue
            m = re.match(r"^(?:pub )?(?:const|static) ([^=]+?): ([^=]+?) = const (.*);\s*$", line)
            if m:
                c = Fn(m.group(1).strip(), line, [], m.group(2))
                c.blocks[0] = (["_0 = const %s;" % m.group(3)], "return;")
                consts.setdefault(c.name, []).append(c)
                continue
            if re.match(r"^(?:pub )?(?:const|static) ", line) and line.rstrip().endswith(" = {"):
                body = re.sub(r"^(?:pub )?(?:const|static) ", "", line.rstrip()[:-4])
                # split `name: type` at the last ': ' outside <...>
                depth, cut = 0, None
                for i, ch in enumerate(body):
                    if ch == "<":
                        depth += 1
                    elif ch == ">" and body[i - 1] != "-":
                        depth -= 1
                    elif ch == ":" and depth == 0 and body[i:i + 2] == ": " and body[i - 1] != ":":
                        cut = i
                if cut is not None:
                    cur = Fn(body[:cut].strip(), line, [], body[cut + 2:])
                    kind = "const"
                    continue
            continue
        # inside an item
        if line == "}":
            if kind == "fn":
                fns.setdefault(cur.name, []).append(cur)
            else:
                consts.setdefault(cur.name, []).append(cur)
            cur, curblock = None, None
            continue
        m = BB_RE.match(line)
        if m:
            curblock = int(m.group(1))
            cur.blocks[curblock] = ([], None)
            continue
        if curblock is None:
            m = LET_RE.match(line)
            if m:
                cur.locals[int(m.group(1))] = m.group(2)
            else:
                m = re.match(r"^\s*debug (\w+) => _(\d+);", line)
                if m:
                    cur.debug.setdefault(m.group(1), []).append(int(m.group(2)))
            continue
        s = line.strip()
        if s == "}":
            curblock = None
            continue
        if not s or s.startswith("//"):
            continue
        stmts, term = cur.blocks[curblock]
        if is_terminator(s):
            cur.blocks[curblock] = (stmts, s)
        else:
            stmts.append(s)
    return fns, consts


def is_terminator(s):
    return (s.startswith(("goto ->", "switchInt(", "return;", "assert(", "unreachable;", "drop(", "resume;", "falseEdge", "falseUnwind"))
            or "-> [return:" in s or s.endswith("-> unwind continue;") or "-> unwind " in s)


# ------------------------------------------------------------------------------------------------ places / operands
class PlaceParser:
    def __init__(self, s):
        self.s, self.i = s, 0

    def peek(self):
        return self.s[self.i] if self.i < len(self.s) else ""

    def expect(self, t):
        assert self.s.startswith(t, self.i), "expected %r at %d in %r" % (t, self.i, self.s)
        self.i += len(t)

    def parse(self):
        p = self.place()
        assert self.i == len(self.s), "trailing %r in place %r" % (self.s[self.i:], self.s)
        return p

    def place(self):
        if self.peek() == "(":
            self.i += 1
            if self.peek() == "*":
                self.i += 1
                inner = self.place()
                self.expect(")")
                node = ("deref", inner)
            else:
                inner = self.place()
                if self.s.startswith(" as ", self.i):
                    self.i += 4
                    j = self.s.index(")", self.i)
                    variant = self.s[self.i:j]
                    self.i = j + 1
                    node = ("downcast", inner, variant)
                else:
                    self.expect(".")
                    m = re.match(r"\d+", self.s[self.i:])
                    fld = int(m.group(0))
                    self.i += len(m.group(0))
                    self.expect(": ")
                    # skip the type up to the matching ')'
                    depth = 0
                    j = self.i
                    while True:
                        c = self.s[j]
                        if c in "([<":
                            depth += 1
                        elif c in ")]>":
                            if c == ")" and depth == 0:
                                break
                            if not (c == ">" and self.s[j - 1] == "-"):
                                depth -= 1
                        j += 1
                    self.i = j + 1
                    node = ("field", inner, fld)
        else:
            m = re.match(r"_(\d+)", self.s[self.i:])
            assert m, "bad place %r at %d" % (self.s, self.i)
            self.i += len(m.group(0))
            node = ("local", int(m.group(1)))
        while self.peek() == "[":
            j = self.s.index("]", self.i)
            idx = self.s[self.i + 1:j]
            self.i = j + 1
            m = re.match(r"_(\d+)$", idx)
            if m:
                node = ("index", node, int(m.group(1)))
                continue
            m = re.match(r"(\d+) of (\d+)$", idx)
            if m:
                node = ("cindex", node, int(m.group(1)))
                continue
            m = re.match(r"-(\d+) of (\d+)$", idx)
            if m:
                node = ("cindex_end", node, int(m.group(1)))
                continue
            m = re.match(r"(\d+):(-?\d*)$", idx) or re.match(r"(\d+)\.\.(-?\d*)$", idx)
            if m:
                node = ("subslice", node, int(m.group(1)), m.group(2))
                continue
            raise AssertionError("bad index %r in %r" % (idx, self.s))
        return node


def parse_place(s):
    return PlaceParser(s.strip()).parse()


INT_LIT = re.compile(r"^(-?\d+)_(u|i)(8|16|32|64|128|size)$")


def parse_operand(s):
    s = s.strip()
    if s.startswith("copy "):
        return ("place", parse_place(s[5:]))
    if s.startswith("move "):
        return ("place", parse_place(s[5:]))
    if s.startswith("const "):
        c = s[6:].strip()
        m = INT_LIT.match(c)
        if m:
            bits = 64 if m.group(3) == "size" else int(m.group(3))
            return ("int", int(m.group(1)), m.group(2) + ("size" if m.group(3) == "size" else m.group(3)))
        if c in ("true", "false"):
            return ("bool", c == "true")
        if c == "()":
            return ("unit",)
        m = re.match(r'^b"(.*)"$', c)
        if m:
            return ("bytes", bytes(m.group(1), "latin1").decode("unicode_escape").encode("latin1"))
        return ("named", c)
    if re.match(r"^[A-Za-z_<]", s) and not s.startswith(("copy", "move")):
        return ("named", s)  # function item / path used as an operand
    raise AssertionError("bad operand %r" % s)


BINOPS = ("AddWithOverflow", "SubWithOverflow", "MulWithOverflow", "AddUnchecked", "SubUnchecked", "MulUnchecked", "ShlUnchecked", "ShrUnchecked",
          "Add", "Sub", "Mul", "Div", "Rem", "BitAnd", "BitOr", "BitXor", "Shl", "Shr", "Lt", "Le", "Gt", "Ge", "Eq", "Ne", "Offset", "Cmp")
UNOPS = ("Not", "Neg", "PtrMetadata")


def parse_rvalue(s):
    s = s.strip()
    if s.startswith("no_retag "):
        s = s[len("no_retag "):]
    m = re.match(r"^(\w+)\((.*)\)$", s)
    if m and m.group(1) in BINOPS:
        a, b = split_top(m.group(2))
        return ("binop", m.group(1), parse_operand(a), parse_operand(b))
    if m and m.group(1) in UNOPS:
        return ("unop", m.group(1), parse_operand(m.group(2)))
    if m and m.group(1) == "Len":
        return ("len", parse_place(m.group(2)))
    if m and m.group(1) == "discriminant":
        return ("discr", parse_place(m.group(2)))
    m = re.match(r"^(.*) as (.*?) \((\w+(?:\([^)]*\))?)\)$", s)
    if m and (m.group(1).startswith(("copy ", "move ", "const "))):
        return ("cast", parse_operand(m.group(1)), m.group(2), m.group(3))
    if s.startswith("&raw mut ") or s.startswith("&raw const "):
        return ("ref", parse_place(s.split(" ", 2)[2]))
    if s.startswith("&mut "):
        return ("ref", parse_place(s[5:]))
    if s.startswith("&"):
        return ("ref", parse_place(s[1:]))
    if s.startswith(("copy ", "move ", "const ")):
        return ("use", parse_operand(s))
    if s.startswith("["):
        inner = s[1:-1]
        parts = split_top(inner, ";")
        if len(parts) == 2:
            return ("repeat", parse_operand(parts[0]), parts[1].strip())
        return ("array", [parse_operand(x) for x in split_top(inner)])
    if s.startswith("("):
        inner = s[1:-1]
        return ("tuple", [parse_operand(x) for x in split_top(inner)])
    # Struct { f: v, .. }  |  TupleStruct(v, ..)  | Enum::Variant(v)
    m = re.match(r"^([\w:<>, &\[\];']+?) \{ (.*) \}$", s)
    if m:
        flds = []
        for f in split_top(m.group(2)):
            k, v = f.split(": ", 1)
            flds.append((k.strip(), parse_operand(v)))
        return ("struct", m.group(1), flds)
    m = re.match(r"^([\w:<>, &\[\];']+?)\((.*)\)$", s)
    if m:
        return ("ctor", m.group(1), [parse_operand(x) for x in split_top(m.group(2))])
    m = re.match(r"^([\w:<>, &\[\];']+)$", s)
    if m:
        return ("ctor", m.group(1), [])
    raise AssertionError("bad rvalue %r" % s)


def parse_stmt(s):
    s = s.rstrip(";")
    if s.startswith(("StorageLive", "StorageDead", "nop", "FakeRead", "PlaceMention", "Retag", "AscribeUserType", "Coverage", "ConstEvalCounter", "BackwardIncompatibleDropHint")):
        return ("nop",)
    m = re.match(r"^discriminant\((.*)\) = (\d+)$", s)
    if m:
        return ("setdiscr", parse_place(m.group(1)), int(m.group(2)))
    if s.startswith("assume("):
        return ("nop",)
    lhs, rhs = s.split(" = ", 1)
    return ("assign", parse_place(lhs), parse_rvalue(rhs))


def parse_term(s):
    s = s.strip()
    if s.startswith("goto -> "):
        return ("goto", int(re.search(r"bb(\d+)", s).group(1)))
    if s.startswith("return"):
        return ("return",)
    if s.startswith("unreachable") or s.startswith("resume"):
        return ("unreachable",)
    if s.startswith("switchInt("):
        m = re.match(r"^switchInt\((.*)\) -> \[(.*)\];$", s)
        tg = []
        other = None
        for t in split_top(m.group(2)):
            k, v = t.split(": ")
            bb = int(v.strip()[2:])
            if k.strip() == "otherwise":
                other = bb
            else:
                tg.append((int(k), bb))
        return ("switch", parse_operand(m.group(1)), tg, other)
    if s.startswith("assert("):
        m = re.match(r"^assert\((.*)\) -> \[success: bb(\d+), unwind[^\]]*\];$", s) or re.match(r"^assert\((.*)\) -> bb(\d+);$", s)
        parts = split_top(m.group(1))
        cond = parts[0]
        neg = cond.startswith("!")
        if neg:
            cond = cond[1:]
        return ("assert", neg, parse_operand(cond), parts[1] if len(parts) > 1 else "", int(m.group(2)))
    if s.startswith("drop("):
        m = re.search(r"return: bb(\d+)", s)
        return ("goto", int(m.group(1)))
    if s.startswith(("falseEdge", "falseUnwind")):
        m = re.search(r"bb(\d+)", s)
        return ("goto", int(m.group(1)))
    m = re.match(r"^(.*?) = (.*) -> (\[return: bb(\d+), unwind[^\]]*\]|bb(\d+)|unwind .*);$", s)
    if m:
        dest, callexpr = m.group(1), m.group(2)
        assert callexpr.endswith(")"), "bad call %r" % s
        depth, j = 0, len(callexpr) - 1
        while j >= 0:
            c = callexpr[j]
            if c == ")":
                depth += 1
            elif c == "(":
                depth -= 1
                if depth == 0:
                    break
            j -= 1
        fname, argstr = callexpr[:j].strip(), callexpr[j + 1:-1]
        ret = m.group(4) or m.group(5)
        return ("call", parse_place(dest), fname, [parse_operand(x) for x in split_top(argstr)], int(ret) if ret else None)
    raise AssertionError("bad terminator %r" % s)
