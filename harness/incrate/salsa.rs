// C03 / C04 — Salsa20 family (src/salsa20.rs; child module of crate::salsa20).
// Specification side transcribed from D. J. Bernstein, "Salsa20 specification" (quarterround, rowround, columnround,
// doubleround, expansion) and "Extending the Salsa20 nonce" (HSalsa20: words 0,5,10,15,6,7,8,9 of the permuted
// state, no feed-forward).
#![allow(dead_code, unused_imports, missing_docs)]
use super::*;
use crate::chacha20::verif_ctx::{case_clone, case_process_eq, case_process_len_mismatch, case_process_mut_step, case_update, Ctx};
use crate::verif_lib::*;

fn le32(b: &[u8], i: usize) -> u32 {
    (b[i] as u32) | ((b[i + 1] as u32) << 8) | ((b[i + 2] as u32) << 16) | ((b[i + 3] as u32) << 24)
}
fn rotl(x: u32, n: u32) -> u32 {
    (x << n) | (x >> (32 - n))
}
/// "expand 32-byte k" / "expand 16-byte k" as four little-endian words
const SIGMA: [u32; 4] = [0x61707865, 0x3320646e, 0x79622d32, 0x6b206574];
const TAU: [u32; 4] = [0x61707865, 0x3120646e, 0x79622d36, 0x6b206574];

/// quarterround(y0,y1,y2,y3) on positions (a,b,c,d) of the 4x4 matrix
fn spec_qr(y: &mut [u32; 16], a: usize, b: usize, c: usize, d: usize) {
    y[b] ^= rotl(y[a].wrapping_add(y[d]), 7);
    y[c] ^= rotl(y[b].wrapping_add(y[a]), 9);
    y[d] ^= rotl(y[c].wrapping_add(y[b]), 13);
    y[a] ^= rotl(y[d].wrapping_add(y[c]), 18);
}
/// doubleround = rowround(columnround(x))
pub(crate) fn spec_double_round(x: &mut [u32; 16]) {
    // columnround
    spec_qr(x, 0, 4, 8, 12);
    spec_qr(x, 5, 9, 13, 1);
    spec_qr(x, 10, 14, 2, 6);
    spec_qr(x, 15, 3, 7, 11);
    // rowround
    spec_qr(x, 0, 1, 2, 3);
    spec_qr(x, 5, 6, 7, 4);
    spec_qr(x, 10, 11, 8, 9);
    spec_qr(x, 15, 12, 13, 14);
}
/// Salsa20 expansion: (c0, k0[0..16], c1, n[0..16], c2, k1[0..16], c3); n = nonce(8) || counter(8, zero) for the stream
/// cipher, the full 16 bytes for HSalsa20; 16-byte key: k1 = k0 and tau constants.
pub(crate) fn spec_init(key: &[u8], nonce: &[u8]) -> [u32; 16] {
    let c = if key.len() == 32 { SIGMA } else { TAU };
    let o = if key.len() == 32 { 16 } else { 0 };
    let mut s = [0u32; 16];
    s[0] = c[0];
    s[1] = le32(key, 0);
    s[2] = le32(key, 4);
    s[3] = le32(key, 8);
    s[4] = le32(key, 12);
    s[5] = c[1];
    s[6] = le32(nonce, 0);
    s[7] = le32(nonce, 4);
    if nonce.len() == 16 {
        s[8] = le32(nonce, 8);
        s[9] = le32(nonce, 12);
    }
    s[10] = c[2];
    s[11] = le32(key, o);
    s[12] = le32(key, o + 4);
    s[13] = le32(key, o + 8);
    s[14] = le32(key, o + 12);
    s[15] = c[3];
    s
}
fn spec_output_bytes(s: &[u32; 16]) -> [u8; 64] {
    let mut o = [0u8; 64];
    let mut i = 0;
    while i < 16 {
        o[4 * i] = s[i] as u8;
        o[4 * i + 1] = (s[i] >> 8) as u8;
        o[4 * i + 2] = (s[i] >> 16) as u8;
        o[4 * i + 3] = (s[i] >> 24) as u8;
        i += 1;
    }
    o
}
fn words_eq(a: &[u32; 16], b: &[u32; 16]) -> bool {
    let mut ok = true;
    let mut i = 0;
    while i < 16 {
        if a[i] != b[i] {
            ok = false;
        }
        i += 1;
    }
    ok
}
/// Salsa20 hash with `dr` double rounds: permute, add the input words, serialise little-endian
pub(crate) fn spec_block(w: &[u32; 16], dr: usize) -> [u8; 64] {
    let mut s = *w;
    let mut i = 0;
    while i < dr {
        spec_double_round(&mut s);
        i += 1;
    }
    let mut i = 0;
    while i < 16 {
        s[i] = s[i].wrapping_add(w[i]);
        i += 1;
    }
    spec_output_bytes(&s)
}
/// 64-bit block counter in words 8 (low) and 9 (high)
pub(crate) fn spec_advance(w: &[u32; 16]) -> [u32; 16] {
    let c = ((w[8] as u64) | ((w[9] as u64) << 32)).wrapping_add(1);
    let mut n = *w;
    n[8] = c as u32;
    n[9] = (c >> 32) as u32;
    n
}

macro_rules! impl_ctx {
    ($t:ident) => {
        impl<const R: usize> Ctx for $t<R> {
            fn spec_adv(w: &[u32; 16]) -> [u32; 16] {
                spec_advance(w)
            }
            fn spec_blk(w: &[u32; 16], dr: usize) -> [u8; 64] {
                spec_block(w, dr)
            }
            fn mk(w: [u32; 16], output: [u8; 64], offset: usize) -> Self {
                $t { state: State::<R> { state: w }, output, offset }
            }
            fn words(&self) -> [u32; 16] {
                self.state.state
            }
            fn cached(&self) -> [u8; 64] {
                self.output
            }
            fn off(&self) -> usize {
                self.offset
            }
            fn pm(&mut self, data: &mut [u8]) {
                self.process_mut(data)
            }
            fn p(&mut self, input: &[u8], output: &mut [u8]) {
                self.process(input, output)
            }
            fn upd(&mut self) {
                self.update()
            }
            fn cached_addr(&self) -> usize {
                self.output.as_ptr() as usize
            }
        }
    };
}
impl_ctx!(Salsa);
impl_ctx!(XSalsa);

#[cfg(kani)]
pub(crate) fn salsa_update_rec<const ROUNDS: usize>(c: &mut Salsa<ROUNDS>) {
    let (w, blk) = crate::chacha20::verif_ctx::upd_common(spec_advance, c.state.state);
    c.state.state = w;
    c.output = blk;
    c.offset = 0;
}
#[cfg(kani)]
pub(crate) fn salsa_pm_rec<const ROUNDS: usize>(_c: &mut Salsa<ROUNDS>, data: &mut [u8]) {
    crate::chacha20::verif_ctx::pm_note(data)
}
#[cfg(kani)]
pub(crate) fn xsalsa_pm_rec<const ROUNDS: usize>(_c: &mut XSalsa<ROUNDS>, data: &mut [u8]) {
    crate::chacha20::verif_ctx::pm_note(data)
}
#[cfg(kani)]
pub(crate) fn xsalsa_update_rec<const ROUNDS: usize>(c: &mut XSalsa<ROUNDS>) {
    let (w, blk) = crate::chacha20::verif_ctx::upd_common(spec_advance, c.state.state);
    c.state.state = w;
    c.output = blk;
    c.offset = 0;
}

// ------------------------------------------------------------------------------------------------ C03: engine
#[cfg_attr(kani, kani::proof)]
#[cfg_attr(kani, kani::unwind(18))]
pub(crate) fn c03_salsa_init() {
    let k32: [u8; 32] = any();
    let k16: [u8; 16] = any();
    let n8: [u8; 8] = any();
    let n16: [u8; 16] = any();
    vassert!(words_eq(&State::<20>::init(&k32, &n8).state, &spec_init(&k32, &n8)), "Salsa init: 256-bit key, 64-bit nonce, counter words 8,9 = 0");
    vassert!(words_eq(&State::<20>::init(&k16, &n8).state, &spec_init(&k16, &n8)), "Salsa init: 128-bit key (tau constants, key repeated)");
    vassert!(words_eq(&State::<20>::init(&k32, &n16).state, &spec_init(&k32, &n16)), "HSalsa init: 256-bit key, 128-bit input in words 6..9");
    vassert!(words_eq(&State::<20>::init(&k16, &n16).state, &spec_init(&k16, &n16)), "HSalsa init: 128-bit key");
}
#[cfg_attr(kani, kani::proof)]
#[cfg_attr(kani, kani::unwind(18))]
pub(crate) fn c03_salsa_double_round() {
    let w: [u32; 16] = any();
    let mut s = State::<2> { state: w };
    s.rounds();
    let mut e = w;
    spec_double_round(&mut e);
    vassert!(words_eq(&s.state, &e), "Salsa rounds() with ROUNDS=2 == one specification doubleround");
}
#[cfg_attr(kani, kani::proof)]
#[cfg_attr(kani, kani::unwind(18))]
pub(crate) fn c03_salsa_rounds_r4() {
    let w: [u32; 16] = any();
    let mut s = State::<4> { state: w };
    s.rounds();
    let mut e = w;
    spec_double_round(&mut e);
    spec_double_round(&mut e);
    vassert!(words_eq(&s.state, &e), "Salsa rounds() with ROUNDS=4 == two specification doublerounds");
}
#[cfg_attr(kani, kani::proof)]
#[cfg_attr(kani, kani::unwind(66))]
pub(crate) fn c03_t_salsa_block_r8() {
    let w: [u32; 16] = any();
    let ini = State::<8> { state: w };
    let mut s = ini.clone();
    s.rounds();
    s.add_back(&ini);
    let mut out = [0u8; 64];
    s.output_bytes(&mut out);
    let exp = spec_block(&w, 4);
    let mut i = 0;
    while i < 64 {
        vassert!(out[i] == exp[i], "Salsa20/8 block == specification");
        i += 1;
    }
}
#[cfg_attr(kani, kani::proof)]
#[cfg_attr(kani, kani::unwind(66))]
pub(crate) fn c03_salsa_counter_addback_output() {
    let w: [u32; 16] = any();
    let v: [u32; 16] = any();
    vcover!(w[8] == u32::MAX, "low counter word at 2^32-1");
    vcover!(w[8] == u32::MAX && w[9] == u32::MAX, "64-bit counter at 2^64-1");
    let mut s = State::<20> { state: w };
    s.increment();
    vassert!(words_eq(&s.state, &spec_advance(&w)), "Salsa increment: 64-bit counter in words 8,9 + 1 with carry, nothing else");
    let mut s = State::<20> { state: w };
    s.add_back(&State::<20> { state: v });
    let mut i = 0;
    while i < 16 {
        vassert!(s.state[i] == w[i].wrapping_add(v[i]), "Salsa add_back: word-wise addition mod 2^32");
        i += 1;
    }
    let s = State::<20> { state: w };
    let mut out = [0u8; 64];
    s.output_bytes(&mut out);
    let exp = spec_output_bytes(&w);
    let mut i = 0;
    while i < 64 {
        vassert!(out[i] == exp[i], "Salsa output_bytes: 16 little-endian words");
        i += 1;
    }
    // HSalsa20 output: words 0,5,10,15,6,7,8,9
    let mut ad = [0u8; 32];
    s.output_ad_bytes(&mut ad);
    let idx = [0usize, 5, 10, 15, 6, 7, 8, 9];
    let mut j = 0;
    while j < 8 {
        let mut b = 0;
        while b < 4 {
            vassert!(ad[4 * j + b] == exp[4 * idx[j] + b], "HSalsa output: words 0,5,10,15,6,7,8,9 little-endian");
            b += 1;
        }
        j += 1;
    }
}

// ------------------------------------------------------------------------------------------------ C03: contexts
#[cfg_attr(kani, kani::proof)]
#[cfg_attr(kani, kani::unwind(66))]
pub(crate) fn c03_salsa_new_layout() {
    let k32: [u8; 32] = any();
    let k16: [u8; 16] = any();
    let n8: [u8; 8] = any();
    let a = Salsa::<20>::new(&k32, &n8);
    vassert!(words_eq(&a.words(), &spec_init(&k32, &n8)) && a.off() == 64, "Salsa::new 256-bit key: specification layout, nothing cached");
    let a = Salsa::<12>::new(&k16, &n8);
    vassert!(words_eq(&a.words(), &spec_init(&k16, &n8)) && a.off() == 64, "Salsa::new 128-bit key: specification layout, nothing cached");
}
#[cfg_attr(kani, kani::proof)]
#[cfg_attr(kani, kani::unwind(66))]
pub(crate) fn c03_t_xsalsa_new_r8() {
    let key: [u8; 32] = any();
    let nonce: [u8; 24] = any();
    let x = XSalsa::<8>::new(&key, &nonce);
    let mut s = spec_init(&key, &nonce[0..16]);
    let mut i = 0;
    while i < 4 {
        spec_double_round(&mut s);
        i += 1;
    }
    let full = spec_output_bytes(&s);
    let idx = [0usize, 5, 10, 15, 6, 7, 8, 9];
    let mut sub = [0u8; 32];
    let mut j = 0;
    while j < 8 {
        let mut b = 0;
        while b < 4 {
            sub[4 * j + b] = full[4 * idx[j] + b];
            b += 1;
        }
        j += 1;
    }
    let exp = spec_init(&sub, &nonce[16..24]);
    vassert!(words_eq(&x.words(), &exp), "XSalsa::new: state = init(HSalsa(key, nonce[0..16]), nonce[16..24])");
    vassert!(x.off() == 64, "XSalsa::new: nothing cached");
}
#[cfg_attr(kani, kani::proof)]
#[cfg_attr(kani, kani::unwind(66))]
pub(crate) fn c03_ctx_update_salsa() {
    case_update::<Salsa<2>>(1);
}
#[cfg_attr(kani, kani::proof)]
#[cfg_attr(kani, kani::unwind(66))]
pub(crate) fn c03_ctx_update_xsalsa() {
    case_update::<XSalsa<2>>(1);
}

// ------------------------------------------------------------------------------------------------ C04
#[cfg_attr(kani, kani::proof)]
#[cfg_attr(kani, kani::unwind(66))]
#[doc = "verif-unwindset: ::process_mut$=6"]
#[cfg_attr(kani, kani::stub(Salsa::update, salsa_update_rec))]
#[cfg_attr(kani, kani::stub(crate::cryptoutil::xor_keystream_mut, crate::chacha20::verif_ctx::xor_rec))]
pub(crate) fn c04_salsa_process_mut_step() {
    case_process_mut_step::<Salsa<2>, 136>(1);
}
#[cfg_attr(kani, kani::proof)]
#[cfg_attr(kani, kani::unwind(66))]
#[doc = "verif-unwindset: ::process_mut$=6"]
#[cfg_attr(kani, kani::stub(XSalsa::update, xsalsa_update_rec))]
#[cfg_attr(kani, kani::stub(crate::cryptoutil::xor_keystream_mut, crate::chacha20::verif_ctx::xor_rec))]
pub(crate) fn c04_xsalsa_process_mut_step() {
    case_process_mut_step::<XSalsa<2>, 136>(1);
}
#[cfg_attr(kani, kani::proof)]
#[cfg_attr(kani, kani::unwind(10))]
#[cfg_attr(kani, kani::stub(Salsa::process_mut, salsa_pm_rec))]
pub(crate) fn c04_salsa_process_eq() {
    case_process_eq::<Salsa<2>>();
}
#[cfg_attr(kani, kani::proof)]
#[cfg_attr(kani, kani::unwind(10))]
#[cfg_attr(kani, kani::stub(XSalsa::process_mut, xsalsa_pm_rec))]
pub(crate) fn c04_xsalsa_process_eq() {
    case_process_eq::<XSalsa<2>>();
}
#[cfg_attr(kani, kani::proof)]
#[cfg_attr(kani, kani::should_panic)]
#[cfg_attr(kani, kani::unwind(66))]
#[doc = "verif-unwindset: ::process_mut$=5, xor_keystream_mut=5"]
pub(crate) fn c04_salsa_process_len_mismatch_panics() {
    case_process_len_mismatch::<Salsa<2>>();
}
#[cfg_attr(kani, kani::proof)]
#[cfg_attr(kani, kani::should_panic)]
#[cfg_attr(kani, kani::unwind(66))]
#[doc = "verif-unwindset: ::process_mut$=5, xor_keystream_mut=5"]
pub(crate) fn c04_xsalsa_process_len_mismatch_panics() {
    case_process_len_mismatch::<XSalsa<2>>();
}
#[cfg_attr(kani, kani::proof)]
#[cfg_attr(kani, kani::unwind(66))]
pub(crate) fn c04_salsa_clone() {
    case_clone::<Salsa<20>>();
    case_clone::<XSalsa<20>>();
}
