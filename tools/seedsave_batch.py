#!/usr/bin/env python3
"""tools/seedsave_batch.py: save every seeded change whose queue log (/tmp/seedq/mut-<id>.log) shows a confirmed demonstration; needs-text from NEEDS below"""
import re, os, sys, subprocess, glob, json
NEEDS = {
 'C04-A': "a process() call entered mid-block (offset 1..63): keystream zipped from the start of the cached block",
 'C04-B': "Salsa/XSalsa: a call that starts mid-block and ends before the block end, followed by another call (offset forced to 64)",
 'C04-C': "Drg::u32 consumes 8 keystream bytes: only visible in the request following a u32()",
 'C04-D': "xor_keystream_mut word-wise rewrite: tail bytes un-XORed when fewer than 8 keystream bytes remain (mid-block re-entry with (64-offset)%8 != 0)",
 'C05-A': "Poly1305 input: buffered partial block followed by one input completing it and carrying >= 16 more bytes",
 'C05-B': "Poly1305 block drops the final h0->h1 carry; finish then loses a bit for accumulators with h1 near 2^26 (crafted wrap-around message)",
 'C05-C': "Poly1305 finish + s: carry lost when a 32-bit word of the reduced accumulator is 0xffffffff with carry-in",
 'C06-A': "finalize_raw pads 16 extra zero bytes when the plaintext length is a multiple of 16",
 'C06-B': "ChaCha process_mut: a call served entirely from the cached block does not advance the offset (needs >= 3 streamed pieces)",
 'C06-C': "Poly1305 input advances by `have` instead of `need` after completing a pending block (pending != 8 bytes, piece longer than 16-have)",
 'C07-A': "array ct_eq folds byte differences into 8 lanes with XOR: tags differing equally in bytes i and i+8 compare equal",
 'C07-B': "finalize_raw MACs an extra zero block when the ciphertext length is a multiple of 16 (genuine tag rejected, non-RFC tag accepted)",
 'C07-C': "decrypt_mut decrypts before MACing: tag computed over plaintext, only through the in-place incremental path",
 'C15-A': "fe64 is_negative reads parity of limb 0: wrong for non-canonical internal values (decodings of p..2^255-1, a - a)",
 'C15-B': "scalar64 lt_order drops the limb-3 borrow: accepts some S >= L with limb 4 equal to L's and limb 3 non-zero",
 'C08-A': "HMAC key of exactly the digest block size (hashed instead of zero-padded)",
 'C08-B': "HMAC over Sha512Trunc256/Sha512Trunc224: wrapper reports block size 64 instead of 128",
 'C08-C': "ipad/opad XOR done 16 bytes at a time drops the trailing partial chunk: digests whose block size is not a multiple of 16 (SHA3-256/384/512, Keccak)",
 'C08-D': "Hmac::reset only resets after a result: reset of a partially fed object keeps the old input",
 'C08-E': "legacy Blake2b::reset no longer resets the context: mid-message Hmac::reset over BLAKE2b",
 'C09-A': "Hmac::reset skips re-keying unless a result was taken: new -> input(x) -> reset -> input(m) -> result returns HMAC(x||m)",
 'C09-B': "Poly1305: finish clears leftover and reset no longer does: reset with a buffered partial block and no result in between",
 'C09-C': "legacy SHA-2 wrappers: second result() without reset silently returns the hash of the empty message (also Hmac<Sha2>)",
 'C09-D': "BLAKE2b reset_with_key no longer zeroes the block buffer: re-keying with a key shorter than the buffered bytes / previous key",
 'C10-A': "HKDF-Expand limit check by floor division: lengths in (255*HashLen, 256*HashLen) return output with counter wrapped to 0",
 'C10-B': "PBKDF2 partial last block with c > 1: U_2 computed from a truncated U_1",
 'C10-C': "scrypt BlockMix output position uses | instead of +: r not a power of two (3, 5, 6, 7)",
 'C10-D': "HMAC key of exactly one block hashed first: breaks HKDF/PBKDF2/scrypt for 64-byte (SHA-256) salts/PRKs/passwords",
 'C12-A': "Fe::from_bytes does not mask bit 255 of the u-coordinate (Ed25519 decoder masks it separately): u with bit 255 set",
 'C12-B': "Fe::to_packed final subtraction loses a borrow: results whose low 51 bits are in 2^51-19..2^51-1",
 'C12-C': "Fe::invert asserts non-zero: small-order / zero u-coordinates make curve25519 panic",
 'C13-A': "Engine512 length field shrunk to 64 bits with 8-byte padding reserve: SHA-512 wrong for lengths 112..=119 mod 128 (Ed25519 messages of 48..55, 80..87 bytes)",
 'C13-B': "barrett_reduce256 top-limb borrow uses << 56 instead of << 40: about 1 reduction in 2700",
 'C13-C': "scalarmult_base recoding loop covers all 64 nibbles and drops the top carry: scalars >= 0x7777...78",
 'C14-A': "scalar64 lt_order drops the limb-3 borrow: crafted S >= L accepted",
 'C14-B': "verify: all-zero public key check removed (the key decodes to an order-4 point)",
 'C14-C': "Scalar::bits() unpacks 252 bits: canonical S in [2^252, L) evaluated as (S - 2^252)",
 'C14-D': "decompression sign test uses s[31] > 0x80 instead of the top bit: keys whose last byte is exactly 0x80",
 'C15-C': "double_scalarmult_vartime starts the digit scan at 254: sliding-window recoding can carry into digit 255",
 'C16-A': "AVX SHA-256 digest_block: batch split computed with % 256 but looped with chunks of 512: a 256-byte half batch is skipped (n mod 8 in 4..=7 blocks)",
 'C16-B': "BLAKE2s AVX compression: shuffle selector swaps message words m[8], m[9] in round 6 (AVX builds, messages > 32 bytes)",
 'C16-C': "SSE2 ChaCha increment done as 64-bit add: carry into the nonce word when the 32-bit counter wraps",
 'C11-A': "BLAKE2b ContextDyn final writes only outlen/8 whole words: Argon2 tag lengths not a multiple of 8",
 'C11-B': "Argon2 H0 hashes the rounded memory size m' instead of m: m not divisible by 4p",
 'C11-C': "Argon2 reference lane = J2 & (p-1) instead of J2 % p: lane counts that are not a power of two",
 'C17-A': "scalar64 lt_order drops the limb-3 borrow: 64-bit backend accepts S >= L that the 32-bit backend rejects",
 'C17-B': "scalar32 check_s_lt_l never compares byte 0: 32-bit backend rejects the canonical scalars L-237..L-1",
 'C17-C': "fe64 is_negative reads parity of limb 0: wrong on non-canonical internal values, 64-bit backend only",
 'C17-D': "fe32 precomp table: transposed digits in GE_BASE[20][7].y_minus_x: 32-bit scalarmult_base wrong for digit -8 at position 40/41",
 'C20-A': "HKDF-Expand refuses by floor division: a partial 256th block is produced with counter 0 instead of a refusal",
 'C20-B': "ChaCha 32-bit counter increment uses += : overflow-checked builds panic at block 2^32-1, release wraps",
 'C20-C': "BLAKE2b reset_with_key loses its key-length assert: 65..=128-byte keys accepted when re-keying",
 'C20-D': "ChaCha::new key-length assert dropped and engine init falls through to the 32-byte path: illegal key lengths accepted (two cooperating sites)",
 'C01-A': "Engine512 byte counter u64 with 8-byte padding reserve: SHA-384/512/512-224/512-256 wrong for lengths 112..=119 mod 128",
 'C01-B': "SHA-3 set_pad uses = 0x80 instead of |= : the single-byte 0x86/0x81 padding case (length = rate-1 mod rate)",
 'C01-C': "BLAKE2b update_mut >= instead of > (two cooperating comparisons): messages that are an exact multiple of 128 bytes",
 'C02-A': "FixedBuffer::input whole-block count taken from the full input length: a call that tops up a partial buffer and still holds a whole block panics",
 'C02-B': "BLAKE2b reset_with_key no longer zeroes the buffer: re-keyed contexts include stale bytes in the key block",
 'C02-C': "BLAKE2s ContextDyn update_mut >= instead of >: last update leaving an exact multiple of 64 bytes",
}
only = sys.argv[1:] or None
for log in sorted(glob.glob("/tmp/seedq/mut-*.log")):
    sid = os.path.basename(log)[4:-4]
    if only and sid not in only:
        continue
    t = open(log).read()
    if "DOES NOT APPLY" in t or "seedcheck" not in t:
        continue
    p, x = sid.split("-")
    src = "/tmp/mut-%s/%s" % (p, x)
    viol = re.findall(r"VIOLATION property=(C\d+) replay=\S*/(C\d+-[\w_]+)\.json", t)
    rcs = re.findall(r"seedcheck \S+ (C\d+) rc=(\d+)", t)
    demo_fail = "test result: FAILED" in t or re.search(r"^test \S+ \.\.\. FAILED", t, re.M) is not None
    suite_ok = "63 passed" in t
    if not (demo_fail and suite_ok):
        print("SKIP (demonstration not confirmed)", sid)
        continue
    caught = "; ".join(sorted(set("%s: %s" % (a, b.split("-", 1)[1]) for a, b in viol))) or ("MISSED (checks run: %s)" % ", ".join("%s rc=%s" % r for r in rcs))
    subprocess.check_call(["python3", "/verif/tools/seedsave.py", src, sid, p, caught, NEEDS.get(sid, "")])
    m = json.load(open("/verif/seeded/%s/meta.json" % sid))
    m["check_run"] = "tools/seedcheck.sh seeded/%s %s" % (sid, " / ".join(sorted(set(a for a, _ in rcs))))
    json.dump(m, open("/verif/seeded/%s/meta.json" % sid, "w"), indent=1)
subprocess.call(["python3", "/verif/tools/seedindex.py"])
