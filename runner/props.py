"""Property registry: which harness-name prefixes decide which property, bounds text, assumptions, extra engines."""

PROPS = {
    "C18": dict(
        prefixes=["c18_"],
        level="model_checking",
        bounds="integers: full width (all 2^64 / 2^128 operand pairs); fixed arrays N in {0,1,5,16,32} (u8), {0,1,5} (u64); "
               "byte slices of symbolic length 0..=40, u64 slices 0..=9; big-endian ordering N in {1,2,8,32}; "
               "limb-array swap/set N=5 (u64) and N=10 (i32); MacResult lengths 0..=20 each side; Tag 16 bytes",
        outside="array lengths other than the listed instantiations (the code is one generic loop per impl); slices longer than the bound",
        assumptions=["Choice values are 0 or 1 (the only values the crate constructs)"],
        trusted=[],
        explanation="bounded model checking of the real constant_time.rs / mac.rs / chacha20poly1305.rs code against the plain operators",
        level_text="Every helper is compared with its plain operator by CBMC over ALL operand values at full width (no sampling); array and "
                   "slice helpers for the listed sizes/lengths. A counterexample is replayed natively (dev and release) before it is reported.",
        level_note="Assumes Choice holds 0/1. Bounds: arrays N in {0,1,5,16,32}/{0,1,5}, slices <= 40 bytes / 9 words, BE ordering N in {1,2,8,32}, "
                   "MacResult <= 20 bytes. Trusted: Kani's MIR->goto translation, CBMC, CaDiCaL.",
    ),
}

_PENDING = "not yet built in this round; see DESIGN.md section 4 for the plan"
NOT_APPLICABLE = {
    "C19": "property is about the program-counter trace of the optimised machine code; no installed engine can encode machine code or LLVM IR "
           "symbolically, and a MIR-level surrogate is unsound in both directions (DESIGN.md 4/C19)",
}
for _i in range(1, 21):
    _p = "C%02d" % _i
    if _p not in PROPS and _p not in NOT_APPLICABLE:
        NOT_APPLICABLE[_p] = _PENDING

ENGINES = [
    dict(name="kani-overlay", path="runner/ + harness/incrate/", serves_properties=sorted(PROPS.keys()),
         kind_free_text="Kani 0.68 / CBMC 6.11 bounded model checking of the real crate: harness files mounted as child modules of a scratch copy of /repo"),
]
