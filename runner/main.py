#!/usr/bin/env python3
"""./check <Cnn> [--tier quick|thorough] [--replay <file>] [--keep]

exit 0  every obligation explored held (KNOWN-FINDING lines for listed, re-observed findings)
exit 1  a violation not listed in known_findings.txt, reproduced natively: `VIOLATION property=<id> replay=<path>`
exit 2  inconclusive (timeout, OOM, solver unknown, harness no longer compiles, counterexample that does not reproduce)
"""
import os, sys, json, time, re, argparse, traceback

sys.path.insert(0, os.path.dirname(os.path.abspath(__file__)))
import overlay, kanirun
from props import PROPS

VERIF = overlay.VERIF
OUT = os.environ.get("VERIF_OUT") or (VERIF if not os.environ.get("VERIF_ONLY") else "/tmp/verif-partial")
# where evidence/ and replays/ are written: seed runs redirect it; partial runs (VERIF_ONLY) never overwrite the committed evidence


def load_known():
    """-> list of dict(kind, property, harness, check, text)"""
    out = []
    p = os.path.join(VERIF, "known_findings.txt")
    if not os.path.exists(p):
        return out
    for line in open(p):
        line = line.strip()
        if not line or line.startswith("#"):
            continue
        m = re.match(r"(finding|fixed): property=(C\d+)\s+(.*)$", line)
        if not m:
            continue
        kind, prop, rest = m.groups()
        hm = re.search(r"harness=(\S+)", rest)
        cm = re.search(r'check="([^"]*)"', rest)
        out.append(dict(kind=kind, property=prop, harness=hm.group(1) if hm else None,
                        check=cm.group(1) if cm else None, text=rest))
    return out


def is_known(known, prop, harness, desc):
    for k in known:
        if k["kind"] == "finding" and k["property"] == prop and k["harness"] == harness and k["check"] == desc:
            return k
    return None


def select(prop, tier):
    cfg = PROPS[prop]
    hs = overlay.all_harnesses()
    sel = []
    only = os.environ.get("VERIF_ONLY")
    for name, h in sorted(hs.items()):
        if only and not re.search(only, name):
            continue
        for pre in cfg["prefixes"]:
            if name.startswith(pre):
                thorough_only = re.match(r"c\d\d_t_", name) is not None
                if thorough_only and tier != "thorough":
                    continue
                sel.append(h)
                break
    return sel


def failure_items(h, r):
    """list of (description, kind) that make harness h count as failed"""
    items = []
    for c in r["failed"]:
        items.append((c["description"], "check", c))
    for c in r["covers"]:
        d = c["description"]
        if d.startswith("MUST-NOT"):
            if c["status"] == "Satisfied":
                items.append((d, "mustnot", c))
    if h["should_panic"]:
        # Kani: Success == at least one panic; anything else means no panic was reachable
        if r["status"] != "Success":
            items.append(("should_panic: no panic reachable", "nopanic", {}))
        # under should_panic the panics are expected; keep only non-panic failures
        items = [it for it in items if it[1] != "check" or not expected_panic(it[2])]
    return items


def expected_panic(c):
    # in a should_panic harness, assertion-category failures are the expected refusals
    return c.get("category") in ("assertion",) or "panic" in c.get("description", "")


def vacuous_covers(r):
    return [c["description"] for c in r["covers"]
            if not c["description"].startswith("MUST-NOT") and c["status"] != "Satisfied"]


def run_property(prop, tier, seed, keep=False):
    t0 = time.time()
    cfg = PROPS[prop]
    known = load_known()
    lines, samples, assumptions = [], [], list(cfg.get("assumptions", []))
    viol, inconcl, knownhits = [], [], []
    n_oblig = n_disch = n_eval = n_nontriv = 0
    pending = []  # failing harnesses whose counterexample still has to be replayed natively
    solver_s = 0.0
    base = overlay.make_scratch(prop + "-" + tier)
    try:
        feature_sets = cfg.get("feature_sets", [[]])
        harnesses = select(prop, tier)
        if seed:
            import random
            random.Random(seed).shuffle(harnesses)  # job order only
        caps = cfg.get("caps", {}).get(tier, {})
        jobs = int(os.environ.get("VERIF_JOBS") or caps.get("jobs", 16 if tier == "quick" else 8))
        htime = caps.get("harness_timeout", 600 if tier == "quick" else 3600)
        mem = caps.get("mem_gb", 12 if tier == "quick" else 24)
        for feats in feature_sets:
            hs = [h for h in harnesses if feats == [] or h["name"] in cfg.get("feature_harnesses", {}).get(",".join(feats), [h["name"]])]
            if not hs:
                continue
            tag = "%s-%s%s" % (prop, tier, "-" + "-".join(feats) if feats else "")
            res, err = kanirun.run_group(base, hs, feats, jobs, htime, mem, tag)
            if res is None:
                inconcl.append("kani group %s: %s" % (tag, err))
                continue
            native_built = False
            for h in hs:
                r = res[h["name"]]
                n_eval += 1
                n_oblig += max(r["n_checks"], 1)
                solver_s += r["stats"].get("runtime_solver_s", 0) or 0
                items = failure_items(h, r)
                vac = vacuous_covers(r)
                sample = dict(harness=h["name"], engine="kani/cbmc", features=feats, unwind=h["unwind"],
                              stubs=h["stubs"], should_panic=h["should_panic"], status=r["status"],
                              checks=r["n_checks"], covers_satisfied=sum(1 for c in r["covers"] if c["status"] == "Satisfied"),
                              covers_total=len(r["covers"]), wall_s=r["duration_s"],
                              solver_s=r["stats"].get("runtime_solver_s"), symex_s=r["stats"].get("runtime_symex_s"))
                if r["status"] in ("Missing", "Timeout") or (r["status"] not in ("Success", "Failure")):
                    inconcl.append("%s: no verdict (%s %s)" % (h["name"], r["status"], r["err"]))
                    sample["verdict"] = "inconclusive"
                    samples.append(sample)
                    continue
                if not items:
                    if r["status"] == "Failure" and not h["should_panic"]:
                        inconcl.append("%s: Kani reports failure without a failed check: %s" % (h["name"], r["err"]))
                        sample["verdict"] = "inconclusive"
                    elif vac:
                        inconcl.append("%s: vacuity witness not satisfied: %s" % (h["name"], vac))
                        sample["verdict"] = "vacuous"
                    else:
                        n_disch += max(r["n_checks"], 1)
                        n_nontriv += 1
                        sample["verdict"] = "holds"
                    samples.append(sample)
                    continue
                # --- failure: known or new?
                n_disch += max(r["n_checks"], 1) - len(items)
                unknown = [it for it in items if not is_known(known, prop, h["name"], it[0])]
                for it in items:
                    k = is_known(known, prop, h["name"], it[0])
                    if k:
                        knownhits.append((h["name"], it[0], k["text"]))
                sample["failed_checks"] = [it[0] for it in items]
                if not unknown:
                    sample["verdict"] = "known-finding"
                    samples.append(sample)
                    continue
                pending.append((h, feats, r, unknown, sample, mem, htime))
                samples.append(sample)
        # --- confirm solver counterexamples: concrete playback (parallel) + native replay on binaries built once
        if pending:
            from concurrent.futures import ThreadPoolExecutor
            with ThreadPoolExecutor(max_workers=8) as ex:
                pb = list(ex.map(lambda t: kanirun.playback(base, t[0], t[1], t[5], t[6] + 600, t[2].get("unwindset"), t[2].get("cbmc_args")), pending))
            for (h, feats, r, unknown, sample, mem, htime), (tests, pout) in zip(pending, pb):
                confirmed = None
                tried = []
                unknown_descs = set(it[0] for it in unknown)
                fallback = False
                if not tests and not h["should_panic"]:
                    # CBMC could not produce a trace (e.g. out of memory while generating it): the native twin still runs its fixed
                    # non-degenerate variants on an all-zero stream; only a native failure of one of the SAME checks counts
                    tests = [("no playback vector from CBMC: native twin on an all-zero byte stream (fixed variants of the twin)", bytes(4096))]
                    fallback = True
                for (what, data) in tests:
                    for profile in ("dev", "release"):
                        verdict, msg = kanirun.native_replay(base, h["name"], data, feats, profile)
                        tried.append(dict(what=what, profile=profile, verdict=verdict, msg=msg[:300]))
                        ok = False
                        if verdict == "panicked":
                            if h["should_panic"]:
                                ok = False
                            else:
                                # the native panic must not be (only) a listed finding
                                ok = (msg in unknown_descs) or (not fallback and not is_known(known, prop, h["name"], msg))
                        elif verdict == "returned":
                            ok = h["should_panic"] and any(it[1] in ("mustnot", "nopanic") for it in unknown)
                        if ok and confirmed is None:
                            confirmed = dict(what=what, bytes_hex=data.hex(), profile=profile, native=verdict, msg=msg[:300])
                    if confirmed:
                        break
                rp = os.path.join(OUT, "replays", "%s-%s.json" % (prop, h["name"]))
                os.makedirs(os.path.dirname(rp), exist_ok=True)
                json.dump(dict(property=prop, harness=h["name"], features=feats, failed_checks=sorted(unknown_descs),
                               confirmed=confirmed, tried=tried,
                               how="./check %s --replay %s" % (prop, rp)), open(rp, "w"), indent=1)
                if confirmed:
                    viol.append((h["name"], sorted(unknown_descs), rp))
                    sample["verdict"] = "VIOLATION"
                else:
                    inconcl.append("%s: solver counterexample for %s did not reproduce natively (%d playback vectors); see %s"
                                   % (h["name"], sorted(unknown_descs), len(tests), rp))
                    sample["verdict"] = "inconclusive-counterexample"
        # --- extra (non-Kani) obligations
        for fn in cfg.get("extra", []):
            try:
                ex = fn(base, tier, seed, known)
            except Exception as e:
                traceback.print_exc()
                inconcl.append("extra obligation %s crashed: %r" % (getattr(fn, "__name__", fn), e))
                continue
            n_oblig += ex.get("obligations", 0)
            n_disch += ex.get("discharged", 0)
            n_eval += ex.get("evaluations", 0)
            n_nontriv += ex.get("distinct_nontrivial", 0)
            solver_s += ex.get("solver_s", 0)
            samples += ex.get("samples", [])
            assumptions += ex.get("assumptions", [])
            viol += ex.get("violations", [])
            inconcl += ex.get("inconclusive", [])
            knownhits += ex.get("known", [])
    finally:
        if not keep:
            if not os.environ.get("VERIF_KEEP"):
                overlay.remove_scratch(base)
    wall = time.time() - t0
    for (hn, desc, text) in knownhits:
        print("KNOWN-FINDING: property=%s harness=%s check=\"%s\" %s" % (prop, hn, desc, text))
    for (hn, descs, rp) in viol:
        print("VIOLATION property=%s replay=%s" % (prop, rp))
        print("  harness=%s failed=%s" % (hn, descs))
    for m in inconcl:
        print("INCONCLUSIVE: " + m)
    ev = dict(property_id=prop, tier=tier, seed=seed, level=cfg.get("level", "model_checking"),
              coverage=dict(
                  evaluations=max(n_eval, 0), distinct_nontrivial=n_nontriv,
                  rule="one evaluation = one solver-decided harness/query over ALL values of its symbolic inputs within the stated bounds; "
                       "counted non-trivial when it held AND every reachability (cover) witness in it was satisfied (non-vacuous)",
                  obligations=n_oblig, discharged=n_disch,
                  checker_cmd="./check %s --tier %s" % (prop, tier),
                  trusted_base=cfg.get("trusted", []) + ["rustc/Kani 0.68 MIR->goto translation", "CBMC 6.11 + CaDiCaL", "z3 (python3-vt wheel) for mirsym queries; cvc5 re-decides a sample of them in the thorough tier"],
                  samples=samples, solver_time_s=round(solver_s, 3),
                  bounds=cfg.get("bounds", ""), outside_claim=cfg.get("outside", ""),
                  explanation=cfg.get("explanation", ""),
                  known_findings_reobserved=[dict(harness=a, check=b) for (a, b, c) in knownhits],
                  inconclusive=inconcl),
              assumptions=assumptions, wall_s=round(wall, 1), violations=len(viol))
    os.makedirs(os.path.join(OUT, "evidence"), exist_ok=True)
    json.dump(ev, open(os.path.join(OUT, "evidence", prop + ".json"), "w"), indent=1)
    print("[%s %s] harnesses/queries=%d obligations=%d discharged=%d known=%d violations=%d inconclusive=%d wall=%.0fs"
          % (prop, tier, n_eval, n_oblig, n_disch, len(knownhits), len(viol), len(inconcl), wall))
    if viol:
        return 1
    if inconcl:
        return 2
    return 0


def do_replay(prop, path):
    d = json.load(open(path))
    c = d.get("confirmed")
    if not c:
        print("no confirmed counterexample in", path)
        return 2
    base = overlay.make_scratch(prop + "-replay")
    try:
        h = overlay.all_harnesses()[d["harness"]]
        rc = 0
        for profile in ("dev", "release"):
            verdict, msg = kanirun.native_replay(base, d["harness"], bytes.fromhex(c["bytes_hex"]), d.get("features", []), profile)
            print("replay %s [%s]: %s %s" % (d["harness"], profile, verdict, msg))
            bad = (verdict == "panicked") != h["should_panic"]
            if bad:
                rc = 1
        if rc:
            print("VIOLATION property=%s replay=%s" % (prop, path))
        return rc
    finally:
        if not os.environ.get("VERIF_KEEP"):
            overlay.remove_scratch(base)


def main():
    ap = argparse.ArgumentParser()
    ap.add_argument("prop")
    ap.add_argument("--tier", default=os.environ.get("VERIF_TIER", "quick"))
    ap.add_argument("--replay")
    ap.add_argument("--keep", action="store_true")
    a = ap.parse_args()
    if a.prop not in PROPS:
        print("unknown or not-applicable property", a.prop)
        sys.exit(2)
    if a.replay:
        sys.exit(do_replay(a.prop, a.replay))
    seed = int(os.environ.get("VERIF_SEED", "0") or 0)
    sys.exit(run_property(a.prop, a.tier if a.tier in ("quick", "thorough") else "quick", seed, a.keep))


if __name__ == "__main__":
    main()
