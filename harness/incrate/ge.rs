// C13 / C14 / C15 — group-element glue (src/curve25519/ge.rs; child module of crate::curve25519::ge).
// The field arithmetic under these functions is C15's mirsym obligation; the group formulas are ring-level obligations.
// Here: the CONTROL and DIGIT logic around them, with the field/group kernels recorded:
//   scalarmult_base : signed radix-16 recoding (digits in [-8, 8], sum d_i 16^i = a) and the table-walk order
//   GePrecomp::select: constant-time table lookup with conditional negation == plain signed lookup
//   GeAffine::from_bytes: acceptance / sign-selection gate of point decompression
//   double_scalarmult_vartime: sliding-window walk starts at the top non-zero digit and applies every digit
#![allow(dead_code, unused_imports, missing_docs)]
use super::*;
use crate::verif_lib::*;

// ------------------------------------------------------------------------------------------------ scalarmult_base
pub(crate) const K_SELECT: u8 = 1;
pub(crate) const K_ADDP: u8 = 2;
pub(crate) const K_DBL: u8 = 3;
pub(crate) static mut OPN: usize = 0;
pub(crate) static mut OP_KIND: [u8; 140] = [0; 140];
pub(crate) static mut OP_POS: [u8; 140] = [0; 140];
pub(crate) static mut OP_DIG: [i8; 140] = [0; 140];
#[cfg(kani)]
fn op(kind: u8, pos: u8, dig: i8) {
    unsafe {
        if OPN < 140 {
            OP_KIND[OPN] = kind;
            OP_POS[OPN] = pos;
            OP_DIG[OPN] = dig;
        }
        OPN += 1;
    }
}
#[cfg(kani)]
pub(crate) fn select_rec(pos: usize, b: i8) -> GePrecomp {
    op(K_SELECT, pos as u8, b);
    GePrecomp::ZERO
}
#[cfg(kani)]
pub(crate) fn add_precomp_rec<'a, 'b>(_a: &'a Ge, _b: &'b GePrecomp) -> GeP1P1
where
    'a: 'a,
    'b: 'b,
{
    op(K_ADDP, 0, 0);
    GeP1P1 { x: Fe::ZERO, y: Fe::ONE, z: Fe::ONE, t: Fe::ONE }
}
#[cfg(kani)]
pub(crate) fn p1p1_to_full_rec(_a: &GeP1P1) -> Ge {
    Ge::ZERO
}
#[cfg(kani)]
pub(crate) fn dbl_partial_rec(_a: &Ge) -> GePartial {
    op(K_DBL, 0, 0);
    GePartial::ZERO
}
#[cfg(kani)]
pub(crate) fn partial_dbl_rec(_a: &GePartial) -> GePartial {
    op(K_DBL, 0, 0);
    GePartial::ZERO
}
#[cfg(kani)]
pub(crate) fn partial_dbl_full_rec(_a: &GePartial) -> Ge {
    op(K_DBL, 0, 0);
    Ge::ZERO
}

/// scalarmult_base(a), a < 2^255: the sequence of table selections is  (j, d[2j+1]) for j = 0..31, then four doublings, then
/// (j, d[2j]) for j = 0..31, each followed by one mixed addition, where d is a signed radix-16 representation of a:
/// every digit in [-8, 8] and  sum d_i 16^i = a  (checked by exact 256-bit arithmetic).  With the table contract
/// T[j][k] = (k+1) 256^j B this is  16 * sum_j d[2j+1] 256^j B + sum_j d[2j] 256^j B = a B.
#[cfg_attr(kani, kani::proof)]
#[cfg_attr(kani, kani::unwind(70))]
#[cfg_attr(kani, kani::stub(GePrecomp::select, select_rec))]
#[cfg_attr(kani, kani::stub(<&Ge as Add<&GePrecomp>>::add, add_precomp_rec))]
#[cfg_attr(kani, kani::stub(GeP1P1::to_full, p1p1_to_full_rec))]
#[cfg_attr(kani, kani::stub(Ge::double_partial, dbl_partial_rec))]
#[cfg_attr(kani, kani::stub(GePartial::double, partial_dbl_rec))]
#[cfg_attr(kani, kani::stub(GePartial::double_full, partial_dbl_full_rec))]
pub(crate) fn c13_scalarmult_base_recoding() {
    let b: [u8; 32] = any();
    assume(b[31] < 128); // documented operand range: a < 2^255
    vcover!(b[31] == 127 && b[30] == 255, "top nibbles saturated");
    vcover!(b[0] == 0x88, "digit 8 / carry at the bottom");
    let a = Scalar::from_bytes(&b);
    let _r = Ge::scalarmult_base(&a);
    #[cfg(kani)]
    unsafe {
        vassert!(OPN == 32 * 2 + 4 + 32 * 2, "scalarmult_base: 32 odd-digit additions, 4 doublings, 32 even-digit additions");
        let mut d = [0i8; 64];
        let mut k = 0;
        let mut j = 0;
        while j < 32 {
            vassert!(OP_KIND[k] == K_SELECT && OP_POS[k] == j as u8 && OP_KIND[k + 1] == K_ADDP, "scalarmult_base: first pass selects table row j for the odd digit 2j+1 and adds it");
            d[2 * j + 1] = OP_DIG[k];
            k += 2;
            j += 1;
        }
        vassert!(OP_KIND[k] == K_DBL && OP_KIND[k + 1] == K_DBL && OP_KIND[k + 2] == K_DBL && OP_KIND[k + 3] == K_DBL, "scalarmult_base: exactly four doublings (x16) between the passes");
        k += 4;
        let mut j = 0;
        while j < 32 {
            vassert!(OP_KIND[k] == K_SELECT && OP_POS[k] == j as u8 && OP_KIND[k + 1] == K_ADDP, "scalarmult_base: second pass selects table row j for the even digit 2j and adds it");
            d[2 * j] = OP_DIG[k];
            k += 2;
            j += 1;
        }
        // digits in range and sum d_i 16^i == a, exactly: four 64-bit words, 16 digits each, signed carries between words
        let mut carry: i128 = 0;
        let mut w = 0;
        while w < 4 {
            let mut acc: i128 = carry;
            let mut i = 0;
            while i < 16 {
                let di = d[16 * w + i];
                vassert!(di >= -8 && di <= 8, "scalarmult_base: every recoded digit lies in [-8, 8]");
                acc += (di as i128) << (4 * i);
                i += 1;
            }
            let mut word = 0u64;
            let mut i = 0;
            while i < 8 {
                word |= (b[8 * w + i] as u64) << (8 * i);
                i += 1;
            }
            vassert!((acc as u64) == word, "scalarmult_base: sum of digits * 16^i equals the scalar (word-wise)");
            carry = acc >> 64;
            w += 1;
        }
        vassert!(carry == 0, "scalarmult_base: no digit weight is lost above 2^256 (top carry kept)");
    }
    #[cfg(not(kani))]
    {
        // native twin: a*B by plain binary double-and-add over the group operations (no recoding, no table), for the counterexample scalar and
        // for two fixed scalars that exercise the top digit; any failing scalar is a genuine violation
        let mut top = [0xffu8; 32];
        top[31] = 0x7f;
        let mut mid = [0x77u8; 32];
        mid[31] = 0x78;
        for sc in [b, top, mid] {
            assert!(Ge::scalarmult_base(&Scalar::from_bytes(&sc)).to_bytes() == native_binary_mul_base(&sc), "scalarmult_base: no digit weight is lost above 2^256 (top carry kept)");
        }
    }
}
#[cfg(not(kani))]
fn native_binary_mul_base(k: &[u8; 32]) -> [u8; 32] {
    // the decoder returns the NEGATED point, so decoding the encoding of -B yields B
    let mut enc = [0x66u8; 32];
    enc[0] = 0x58;
    enc[31] |= 0x80;
    let b = Ge::from_bytes(&enc).unwrap();
    let bc = b.to_cached();
    let mut acc = Ge::ZERO;
    let mut i = 256;
    while i > 0 {
        i -= 1;
        acc = acc.double();
        if (k[i >> 3] >> (i & 7)) & 1 == 1 {
            acc = (&acc + &bc).to_full();
        }
    }
    acc.to_bytes()
}

// ------------------------------------------------------------------------------------------------ select
fn fe_eq_limbs(a: &Fe, b: &Fe) -> bool {
    let mut ok = true;
    let mut i = 0;
    while i < a.0.len() {
        if a.0[i] != b.0[i] {
            ok = false;
        }
        i += 1;
    }
    ok
}
/// select(POS, b) for b in [-8, 8]: the neutral element for 0, table entry |b|-1 of row POS for b > 0, and for b < 0 that entry with
/// y+x / y-x exchanged and xy2d negated (as a field VALUE).  The row is a concrete instantiation (a symbolic row index makes CBMC copy the
/// whole 30 KB constant table per access and runs out of memory); rows 0, 17, 31 in quick, eight more in thorough.
fn case_select<const POS: usize>() {
    let b: i8 = any();
    assume(b >= -8 && b <= 8);
    vcover!(b == -8, "most negative digit");
    vcover!(b == 0, "zero digit");
    vcover!(b == 8, "largest digit");
    let t = GePrecomp::select(POS, b);
    if b == 0 {
        vassert!(fe_eq_limbs(&t.y_plus_x, &Fe::ONE) && fe_eq_limbs(&t.y_minus_x, &Fe::ONE) && fe_eq_limbs(&t.xy2d, &Fe::ZERO), "select: digit 0 gives the neutral element");
    } else {
        let k = (if b < 0 { -(b as i16) } else { b as i16 }) as usize - 1;
        let row = &precomp::GE_BASE[POS];
        let e = &row[k];
        if b > 0 {
            vassert!(fe_eq_limbs(&t.y_plus_x, &e.y_plus_x) && fe_eq_limbs(&t.y_minus_x, &e.y_minus_x) && fe_eq_limbs(&t.xy2d, &e.xy2d), "select: positive digit b gives table entry [pos][b-1]");
        } else {
            vassert!(fe_eq_limbs(&t.y_plus_x, &e.y_minus_x) && fe_eq_limbs(&t.y_minus_x, &e.y_plus_x), "select: negative digit exchanges y+x and y-x of entry [pos][|b|-1]");
            let s = &t.xy2d + &e.xy2d;
            vassert!(!s.is_nonzero(), "select: negative digit negates xy2d (as a field value)");
        }
    }
}
#[cfg_attr(kani, kani::proof)]
#[cfg_attr(kani, kani::unwind(34))]
pub(crate) fn zz_c13_precomp_select_rows_0_17_31() {
    case_select::<0>();
    case_select::<17>();
    case_select::<31>();
}
#[cfg_attr(kani, kani::proof)]
#[cfg_attr(kani, kani::unwind(34))]
pub(crate) fn zz_c13_t_precomp_select_more_rows() {
    case_select::<1>();
    case_select::<2>();
    case_select::<7>();
    case_select::<8>();
    case_select::<15>();
    case_select::<16>();
    case_select::<24>();
    case_select::<30>();
}

// ------------------------------------------------------------------------------------------------ decompression gate
pub(crate) static mut NZ_N: usize = 0;
pub(crate) static mut NZ_ANS: [bool; 2] = [false; 2];
pub(crate) static mut NEG_ANS: bool = false;
pub(crate) static mut NEGATE_N: usize = 0;
pub(crate) static mut SQRTM1_N: usize = 0;
#[cfg(kani)]
pub(crate) fn fe_unop_rec(_a: &Fe) -> Fe {
    Fe::ONE
}
#[cfg(kani)]
pub(crate) fn fe_binop_rec<'a>(_a: &'a Fe, b: &Fe) -> Fe
where
    'a: 'a,
{
    unsafe {
        if fe_eq_limbs(b, &Fe::SQRTM1) {
            SQRTM1_N += 1;
        }
    }
    Fe::ONE
}
#[cfg(kani)]
pub(crate) fn is_nonzero_rec(_a: &Fe) -> bool {
    unsafe {
        let r = if NZ_N < 2 { NZ_ANS[NZ_N] } else { false };
        NZ_N += 1;
        r
    }
}
#[cfg(kani)]
pub(crate) fn is_negative_rec(_a: &Fe) -> bool {
    unsafe { NEG_ANS }
}
#[cfg(kani)]
pub(crate) fn negate_mut_rec(_a: &mut Fe) {
    unsafe {
        NEGATE_N += 1;
    }
}
/// GeAffine::from_bytes gate: with vxx = v*x^2, accept iff vxx == u, or vxx == -u (then x is multiplied by sqrt(-1)); otherwise
/// reject.  The returned x is negated exactly when its sign bit EQUALS the encoded sign bit (this decoder returns -A by design: verify
/// computes [S]B + [h](-A)); the sign bit is bit 255 of the input and nothing else of the last byte.
#[cfg_attr(kani, kani::proof)]
#[cfg_attr(kani, kani::unwind(34))]
#[cfg_attr(kani, kani::stub(Fe::square, fe_unop_rec))]
#[cfg_attr(kani, kani::stub(Fe::pow25523, fe_unop_rec))]
#[cfg_attr(kani, kani::stub(<&Fe as core::ops::Mul<&Fe>>::mul, fe_binop_rec))]
#[cfg_attr(kani, kani::stub(<&Fe as core::ops::Add<&Fe>>::add, fe_binop_rec))]
#[cfg_attr(kani, kani::stub(<&Fe as core::ops::Sub<&Fe>>::sub, fe_binop_rec))]
#[cfg_attr(kani, kani::stub(Fe::is_nonzero, is_nonzero_rec))]
#[cfg_attr(kani, kani::stub(Fe::is_negative, is_negative_rec))]
#[cfg_attr(kani, kani::stub(Fe::negate_mut, negate_mut_rec))]
pub(crate) fn c14_decompress_gate() {
    let s: [u8; 32] = any();
    let nz: [bool; 2] = any();
    let neg: bool = any();
    #[cfg(kani)]
    unsafe {
        NZ_ANS = nz;
        NEG_ANS = neg;
    }
    vcover!(s[31] == 0x80, "only the sign bit set in the last byte");
    vcover!(s[31] == 0x7f, "sign bit clear, other bits set");
    let r = GeAffine::from_bytes(&s);
    #[cfg(kani)]
    unsafe {
        let sign = (s[31] >> 7) != 0;
        if !nz[0] {
            vassert!(r.is_some() && NZ_N == 1 && SQRTM1_N == 0, "decompress: vxx == u accepts x as computed");
        } else if !nz[1] {
            vassert!(r.is_some() && NZ_N == 2 && SQRTM1_N == 1, "decompress: vxx == -u accepts x * sqrt(-1)");
        } else {
            vassert!(r.is_none(), "decompress: neither vxx == u nor vxx == -u: not a point, rejected");
        }
        if r.is_some() {
            vassert!((NEGATE_N == 1) == (neg == sign) && NEGATE_N <= 1, "decompress: x negated exactly when its parity equals bit 255 of the encoding");
        }
    }
    let _ = (r.is_some(), nz, neg);
    #[cfg(not(kani))]
    {
        // native twin: decode then re-encode. The decoder returns -A, so encode(0 - decode(e)) must give back e for every valid encoding e.
        // Tried on the counterexample string and on the encodings of k*B, k = 1..4000 (about sixteen of them have 0x80 as last byte).
        let check = |e: &[u8; 32]| {
            if let Some(minus_a) = Ge::from_bytes(e) {
                let a = (&Ge::ZERO - &minus_a.to_cached()).to_full();
                let back = a.to_bytes();
                // only canonical encodings of non-exceptional points round-trip byte for byte
                let canonical = Fe::from_bytes(e).to_bytes()[..31] == e[..31] && (Fe::from_bytes(e).to_bytes()[31] | (e[31] & 0x80)) == e[31];
                if canonical {
                    assert!(&back == e, "decompress: x negated exactly when its parity equals bit 255 of the encoding");
                }
            }
        };
        check(&s);
        let mut k = [0u8; 32];
        for i in 1..4000u32 {
            k[0] = i as u8;
            k[1] = (i >> 8) as u8;
            let e = Ge::scalarmult_base(&Scalar::from_bytes(&k)).to_bytes();
            check(&e);
        }
    }
}

// ------------------------------------------------------------------------------------------------ double_scalarmult_vartime walk
pub(crate) static mut SLIDE_N: usize = 0;
pub(crate) static mut SLIDE_A: [i8; 256] = [0; 256];
pub(crate) static mut SLIDE_B: [i8; 256] = [0; 256];
pub(crate) static mut W_NDBL: usize = 0;              // doublings of the running sum so far = walk iterations started
pub(crate) static mut W_A: [i8; 257] = [0; 257];      // per iteration n (1-based): signed (table index + 1) applied for the A digit, 0 = none
pub(crate) static mut W_B: [i8; 257] = [0; 257];
pub(crate) static mut W_ARRAYS: bool = true;           // false: only the scalar summaries below are kept (walk-start harness: symbolic iteration count)
pub(crate) static mut W_FIRST_A: i8 = 0;               // what the FIRST iteration applied
pub(crate) static mut W_FIRST_B: i8 = 0;
pub(crate) static mut W_LATE: u32 = 0;                 // additions/subtractions in later iterations
pub(crate) static mut W_NCACHED: u64 = 0;             // to_cached() calls so far: tags the odd multiples A, 3A, ..., 15A
#[cfg(kani)]
pub(crate) fn slide_rec(_s: &Scalar) -> [i8; 256] {
    unsafe {
        SLIDE_N += 1;
        if SLIDE_N == 1 {
            SLIDE_A
        } else {
            SLIDE_B
        }
    }
}
#[cfg(kani)]
pub(crate) fn to_cached_rec(_g: &Ge) -> GeCached {
    unsafe {
        W_NCACHED += 1;
        let mut z = Fe::ZERO;
        z.0[0] = W_NCACHED as _;
        GeCached { y_plus_x: Fe::ONE, y_minus_x: Fe::ONE, z, t2d: Fe::ZERO }
    }
}
#[cfg(kani)]
pub(crate) fn ge_double_p1p1_rec(_g: &Ge) -> GeP1P1 {
    GeP1P1 { x: Fe::ZERO, y: Fe::ONE, z: Fe::ONE, t: Fe::ONE }
}
#[cfg(kani)]
pub(crate) fn partial_double_p1p1_rec(_r: &GePartial) -> GeP1P1 {
    unsafe {
        W_NDBL += 1;
    }
    GeP1P1 { x: Fe::ZERO, y: Fe::ONE, z: Fe::ONE, t: Fe::ONE }
}
#[cfg(kani)]
pub(crate) fn p1p1_to_partial_rec(_a: &GeP1P1) -> GePartial {
    GePartial::ZERO
}
#[cfg(kani)]
fn note_a(sign: i8, c: &GeCached) -> GeP1P1 {
    unsafe {
        if W_ARRAYS {
            if W_NDBL > 0 && W_NDBL < 257 {
                W_A[W_NDBL] = sign * (c.z.0[0] as i8);
            }
        } else if W_NDBL == 1 {
            W_FIRST_A = sign * (c.z.0[0] as i8);
        } else {
            W_LATE += 1;
        }
    }
    GeP1P1 { x: Fe::ZERO, y: Fe::ONE, z: Fe::ONE, t: Fe::ONE }
}
#[cfg(kani)]
pub(crate) fn add_cached_rec<'a, 'b>(_a: &'a Ge, c: &'b GeCached) -> GeP1P1
where
    'a: 'a,
    'b: 'b,
{
    note_a(1, c)
}
#[cfg(kani)]
pub(crate) fn sub_cached_rec<'a, 'b>(_a: &'a Ge, c: &'b GeCached) -> GeP1P1
where
    'a: 'a,
    'b: 'b,
{
    note_a(-1, c)
}
#[cfg(kani)]
fn note_b(sign: i8, p: &GePrecomp) -> GeP1P1 {
    unsafe {
        // the eight odd multiples of B are told apart by the first limb of y+x (pairwise distinct constants)
        let l0 = p.y_plus_x.0[0];
        let idx: i8 = if l0 == precomp::BI[0].y_plus_x.0[0] {
            1
        } else if l0 == precomp::BI[1].y_plus_x.0[0] {
            2
        } else if l0 == precomp::BI[2].y_plus_x.0[0] {
            3
        } else if l0 == precomp::BI[3].y_plus_x.0[0] {
            4
        } else if l0 == precomp::BI[4].y_plus_x.0[0] {
            5
        } else if l0 == precomp::BI[5].y_plus_x.0[0] {
            6
        } else if l0 == precomp::BI[6].y_plus_x.0[0] {
            7
        } else if l0 == precomp::BI[7].y_plus_x.0[0] {
            8
        } else {
            0
        };
        if W_ARRAYS {
            if W_NDBL > 0 && W_NDBL < 257 {
                W_B[W_NDBL] = sign * idx;
            }
        } else if W_NDBL == 1 {
            W_FIRST_B = sign * idx;
        } else {
            W_LATE += 1;
        }
    }
    GeP1P1 { x: Fe::ZERO, y: Fe::ONE, z: Fe::ONE, t: Fe::ONE }
}
#[cfg(kani)]
pub(crate) fn add_precomp_bi_rec<'a, 'b>(_a: &'a Ge, p: &'b GePrecomp) -> GeP1P1
where
    'a: 'a,
    'b: 'b,
{
    note_b(1, p)
}
#[cfg(kani)]
pub(crate) fn sub_precomp_bi_rec<'a, 'b>(_a: &'a Ge, p: &'b GePrecomp) -> GeP1P1
where
    'a: 'a,
    'b: 'b,
{
    note_b(-1, p)
}
fn digit_ok(d: i8) -> bool {
    d == 0 || (d & 1 == 1 && d >= -15 && d <= 15)
}
/// signed (table index + 1) that the walk must apply for digit d: odd multiple |d| lives at index |d|/2
fn want(d: i8) -> i8 {
    if d > 0 {
        d / 2 + 1
    } else if d < 0 {
        -((-d) / 2 + 1)
    } else {
        0
    }
}

/// double_scalarmult_vartime: for ANY pair of digit vectors that slide() may return (0 or odd, |d| <= 15) whose highest non-zero
/// position is TOP, the walk performs exactly one doubling per position from TOP down to 0, and at position i adds/subtracts the odd
/// multiple |a_i| of A (table index |a_i|/2) and |b_i| of B.  With the contracts of slide, the odd-multiple tables and the group
/// formulas this is a*A + b*B.  (TOP is concrete per harness so that the recorder's iteration counter is: a symbolic start
/// position made every log access a symbolic array index and did not finish in 1 h; the start search over all 256 positions is
/// c14_double_scalarmult_walk_start.  CBMC needs --max-field-sensitivity-array-size 300: with the default of 64 the elements of a
/// 256-digit array are not constant-propagated, the loop counters become symbolic and the walk does not finish.)
fn case_walk<const TOP: usize, const LO: usize, const ATOP: i8, const BTOP: i8>() {
    // the digits AT the top position are concrete (ATOP, BTOP; not both zero) so that the start search is decided by constant
    // propagation; every digit below is symbolic
    let mut da = [0i8; 256];
    let mut db = [0i8; 256];
    // (positions below LO hold concrete zeros: only doublings happen there)
    let mut i = LO;
    while i < TOP {
        da[i] = any();
        db[i] = any();
        assume(digit_ok(da[i]) && digit_ok(db[i]));
        i += 1;
    }
    da[TOP] = ATOP;
    db[TOP] = BTOP;
    let top = TOP;
    vcover!(da[LO] == -15 && db[LO] == 0 && db[LO + 1] == 7, "small mixed case");
    vcover!(da[LO + 1] == 0 && db[LO + 1] == 0 && da[LO] == 0 && db[LO] == 0, "positions without any addition");
    #[cfg(kani)]
    unsafe {
        SLIDE_A = da;
        SLIDE_B = db;
        let _r = GePartial::double_scalarmult_vartime(&Scalar::from_bytes(&[0u8; 32]), Ge::ZERO, &Scalar::from_bytes(&[0u8; 32]));
        vassert!(W_NCACHED == 8, "double_scalarmult: eight odd multiples of A prepared");
        vassert!(W_NDBL == top + 1, "double_scalarmult: walk starts at the highest non-zero position (any of the 256) and visits every position down to 0");
        let mut n = 1;
        while n <= TOP + 1 {
            let pos = top + 1 - n;
            vassert!(W_A[n] == want(da[pos]), "double_scalarmult: position i applies the odd multiple |a_i| of A with the sign of a_i");
            vassert!(W_B[n] == want(db[pos]), "double_scalarmult: position i applies the odd multiple |b_i| of B with the sign of b_i");
            n += 1;
        }
    }
    #[cfg(not(kani))]
    walk_native(&da, &db);
}

#[cfg(not(kani))]
fn walk_native(da: &[i8; 256], db: &[i8; 256]) {
        // native twin: scalars reconstructed from the digit vectors (when they denote values in [0, 2^255)), A = decoded base point (= -B by the
        // decoder's convention): a*(-B) + b*B must encode like ((b - a) mod L) * B
        let val = |d: &[i8; 256]| -> Option<[u8; 32]> {
            let mut limbs = [0i128; 4];
            for i in 0..256 {
                limbs[i / 64] += (d[i] as i128) << (i % 64);
            }
            let mut carry = 0i128;
            let mut out = [0u8; 32];
            for w in 0..4 {
                let v = limbs[w] + carry;
                let word = v as u64;
                carry = v >> 64;
                out[8 * w..8 * w + 8].copy_from_slice(&word.to_le_bytes());
            }
            if carry == 0 && out[31] < 128 { Some(out) } else { None }
        };
        let check = |ab: [u8; 32], bb: [u8; 32]| {
            let mut enc = [0x66u8; 32];
            enc[0] = 0x58;
            let minus_b = Ge::from_bytes(&enc).unwrap();
            let (sa, sb) = (Scalar::from_bytes(&ab), Scalar::from_bytes(&bb));
            let got = GePartial::double_scalarmult_vartime(&sa, minus_b, &sb).to_bytes();
            let mut lm1 = [0u8; 32]; // L - 1
            lm1.copy_from_slice(&[0xec, 0xd3, 0xf5, 0x5c, 0x1a, 0x63, 0x12, 0x58, 0xd6, 0x9c, 0xf7, 0xa2, 0xde, 0xf9, 0xde, 0x14, 0, 0, 0, 0, 0, 0, 0, 0, 0, 0, 0, 0, 0, 0, 0, 0x10]);
            let mut wide_a = [0u8; 64];
            wide_a[..32].copy_from_slice(&ab);
            let mut wide_b = [0u8; 64];
            wide_b[..32].copy_from_slice(&bb);
            let (ra, rb) = (Scalar::reduce_from_wide_bytes(&wide_a), Scalar::reduce_from_wide_bytes(&wide_b));
            let diff = super::super::scalar::muladd(&ra, &Scalar::from_bytes(&lm1), &rb);
            let expect = Ge::scalarmult_base(&diff).to_bytes();
            assert!(got == expect, "double_scalarmult: walk starts at the highest non-zero position (any of the 256) and visits every position down to 0");
        };
        if let (Some(ab), Some(bb)) = (val(da), val(db)) {
            check(ab, bb);
        }
        // fixed variants (a counterexample under recorder stubs need not denote scalars below 2^255): scalars whose sliding-window
        // recoding carries into digit 255, long runs of ones, and small ones
        let mut ones = [0xffu8; 32];
        ones[31] = 0x7f;
        let mut hi = [0u8; 32];
        hi[31] = 0x7c;
        let mut small = [0u8; 32];
        small[0] = 0xb7;
        small[1] = 0x03;
        check(ones, small);
        check(small, ones);
        check(hi, ones);
        check([0u8; 32], hi);
}

#[cfg_attr(kani, kani::proof)]
#[cfg_attr(kani, kani::unwind(258))]
#[doc = "verif-cbmc-args: --max-field-sensitivity-array-size 300"]
#[cfg_attr(kani, kani::stub(Scalar::slide, slide_rec))]
#[cfg_attr(kani, kani::stub(Ge::to_cached, to_cached_rec))]
#[cfg_attr(kani, kani::stub(Ge::double_p1p1, ge_double_p1p1_rec))]
#[cfg_attr(kani, kani::stub(GePartial::double_p1p1, partial_double_p1p1_rec))]
#[cfg_attr(kani, kani::stub(GeP1P1::to_full, p1p1_to_full_rec))]
#[cfg_attr(kani, kani::stub(GeP1P1::to_partial, p1p1_to_partial_rec))]
#[cfg_attr(kani, kani::stub(<&Ge as Add<&GeCached>>::add, add_cached_rec))]
#[cfg_attr(kani, kani::stub(<&Ge as Sub<&GeCached>>::sub, sub_cached_rec))]
#[cfg_attr(kani, kani::stub(<&Ge as Add<&GePrecomp>>::add, add_precomp_bi_rec))]
#[cfg_attr(kani, kani::stub(<&Ge as Sub<&GePrecomp>>::sub, sub_precomp_bi_rec))]
pub(crate) fn c14_double_scalarmult_walk_top12() {
    case_walk::<12, 0, 1, -7>();
}
#[cfg_attr(kani, kani::proof)]
#[cfg_attr(kani, kani::unwind(258))]
#[doc = "verif-cbmc-args: --max-field-sensitivity-array-size 300"]
#[cfg_attr(kani, kani::stub(Scalar::slide, slide_rec))]
#[cfg_attr(kani, kani::stub(Ge::to_cached, to_cached_rec))]
#[cfg_attr(kani, kani::stub(Ge::double_p1p1, ge_double_p1p1_rec))]
#[cfg_attr(kani, kani::stub(GePartial::double_p1p1, partial_double_p1p1_rec))]
#[cfg_attr(kani, kani::stub(GeP1P1::to_full, p1p1_to_full_rec))]
#[cfg_attr(kani, kani::stub(GeP1P1::to_partial, p1p1_to_partial_rec))]
#[cfg_attr(kani, kani::stub(<&Ge as Add<&GeCached>>::add, add_cached_rec))]
#[cfg_attr(kani, kani::stub(<&Ge as Sub<&GeCached>>::sub, sub_cached_rec))]
#[cfg_attr(kani, kani::stub(<&Ge as Add<&GePrecomp>>::add, add_precomp_bi_rec))]
#[cfg_attr(kani, kani::stub(<&Ge as Sub<&GePrecomp>>::sub, sub_precomp_bi_rec))]
pub(crate) fn c14_double_scalarmult_walk_top255_hi() {
    // the walk from the very top: position 255 and the seven below it carry digits, the rest only doublings
    case_walk::<255, 248, 0, 1>();
}
#[cfg_attr(kani, kani::proof)]
#[cfg_attr(kani, kani::unwind(258))]
#[doc = "verif-cbmc-args: --max-field-sensitivity-array-size 300"]
#[cfg_attr(kani, kani::stub(Scalar::slide, slide_rec))]
#[cfg_attr(kani, kani::stub(Ge::to_cached, to_cached_rec))]
#[cfg_attr(kani, kani::stub(Ge::double_p1p1, ge_double_p1p1_rec))]
#[cfg_attr(kani, kani::stub(GePartial::double_p1p1, partial_double_p1p1_rec))]
#[cfg_attr(kani, kani::stub(GeP1P1::to_full, p1p1_to_full_rec))]
#[cfg_attr(kani, kani::stub(GeP1P1::to_partial, p1p1_to_partial_rec))]
#[cfg_attr(kani, kani::stub(<&Ge as Add<&GeCached>>::add, add_cached_rec))]
#[cfg_attr(kani, kani::stub(<&Ge as Sub<&GeCached>>::sub, sub_cached_rec))]
#[cfg_attr(kani, kani::stub(<&Ge as Add<&GePrecomp>>::add, add_precomp_bi_rec))]
#[cfg_attr(kani, kani::stub(<&Ge as Sub<&GePrecomp>>::sub, sub_precomp_bi_rec))]
pub(crate) fn c14_t_double_scalarmult_walk_top40() {
    case_walk::<40, 0, 0, -15>();
}
#[cfg_attr(kani, kani::proof)]
#[cfg_attr(kani, kani::unwind(258))]
#[doc = "verif-cbmc-args: --max-field-sensitivity-array-size 300"]
#[cfg_attr(kani, kani::stub(Scalar::slide, slide_rec))]
#[cfg_attr(kani, kani::stub(Ge::to_cached, to_cached_rec))]
#[cfg_attr(kani, kani::stub(Ge::double_p1p1, ge_double_p1p1_rec))]
#[cfg_attr(kani, kani::stub(GePartial::double_p1p1, partial_double_p1p1_rec))]
#[cfg_attr(kani, kani::stub(GeP1P1::to_full, p1p1_to_full_rec))]
#[cfg_attr(kani, kani::stub(GeP1P1::to_partial, p1p1_to_partial_rec))]
#[cfg_attr(kani, kani::stub(<&Ge as Add<&GeCached>>::add, add_cached_rec))]
#[cfg_attr(kani, kani::stub(<&Ge as Sub<&GeCached>>::sub, sub_cached_rec))]
#[cfg_attr(kani, kani::stub(<&Ge as Add<&GePrecomp>>::add, add_precomp_bi_rec))]
#[cfg_attr(kani, kani::stub(<&Ge as Sub<&GePrecomp>>::sub, sub_precomp_bi_rec))]
pub(crate) fn zz_c14_double_scalarmult_walk_start() {
    case_walk_start();
}

/// DISABLED (zz_ prefix: never selected; symbolic start position: 50 min / 15 GB without result, as was TOP = 255).
/// start of the walk: ONE non-zero position p (any of the 256), arbitrary digits there, zero elsewhere: the walk must start at p
/// (p + 1 doublings) and apply the digits of position p in its first iteration.
fn case_walk_start() {
    let p: usize = any();
    assume(p < 256);
    let (x, y): (i8, i8) = (any(), any());
    assume(digit_ok(x) && digit_ok(y) && (x != 0 || y != 0));
    let mut da = [0i8; 256];
    let mut db = [0i8; 256];
    da[p] = x;
    db[p] = y;
    vcover!(p == 255, "a digit in position 255");
    vcover!(p == 0 && x == 0, "only the B digit, lowest position");
    #[cfg(kani)]
    unsafe {
        SLIDE_A = da;
        SLIDE_B = db;
        W_ARRAYS = false;
        let _r = GePartial::double_scalarmult_vartime(&Scalar::from_bytes(&[0u8; 32]), Ge::ZERO, &Scalar::from_bytes(&[0u8; 32]));
        vassert!(W_NDBL == p + 1, "double_scalarmult: walk starts at the highest non-zero position (any of the 256) and visits every position down to 0");
        vassert!(W_FIRST_A == want(x), "double_scalarmult: position i applies the odd multiple |a_i| of A with the sign of a_i");
        vassert!(W_FIRST_B == want(y), "double_scalarmult: position i applies the odd multiple |b_i| of B with the sign of b_i");
        vassert!(W_LATE == 0, "double_scalarmult: zero digits apply nothing");
    }
    #[cfg(not(kani))]
    walk_native(&da, &db);
}

/// slide(): the signed sliding-window digits satisfy sum r_i 2^i = a, every non-zero digit is odd and |r_i| <= 15.
/// Decided for every scalar whose non-zero bits lie in a 24-bit window at byte offset OFF (all 2^24 values per window; the full
/// 2^255 range ran out of memory in CBMC: slide()'s carry propagation is a data-dependent loop nest).
/// DISABLED (zz_ prefix: never selected): even the 24-bit windows did not finish in 25 min / 25 GB per harness.
fn case_slide<const OFF: usize>() {
    let v: [u8; 3] = any();
    let mut b = [0u8; 32];
    b[OFF] = v[0];
    b[OFF + 1] = v[1];
    b[OFF + 2] = v[2];
    assume(b[31] < 128);
    vcover!(v[0] == 0xff && v[1] == 0xff && v[2] == 0x7f, "long run of ones (carries ripple through the window)");
    let r = Scalar::from_bytes(&b).slide();
    // exact check of sum r_i 2^i == a with four 64-bit words and signed carries
    let mut carry: i128 = 0;
    let mut w = 0;
    while w < 4 {
        let mut acc: i128 = carry;
        let mut i = 0;
        while i < 64 {
            let di = r[64 * w + i];
            vassert!(di == 0 || (di & 1 == 1 && di >= -15 && di <= 15), "slide: digits are 0 or odd with |digit| <= 15");
            acc += (di as i128) << i;
            i += 1;
        }
        let mut word = 0u64;
        let mut i = 0;
        while i < 8 {
            word |= (b[8 * w + i] as u64) << (8 * i);
            i += 1;
        }
        vassert!((acc as u64) == word, "slide: sum of digits * 2^i equals the scalar (word-wise)");
        carry = acc >> 64;
        w += 1;
    }
    vassert!(carry == 0, "slide: no weight lost above 2^256");
}
#[cfg_attr(kani, kani::proof)]
#[cfg_attr(kani, kani::unwind(258))]
pub(crate) fn zz_c14_t_slide_digits_window_low() {
    case_slide::<0>();
}
#[cfg_attr(kani, kani::proof)]
#[cfg_attr(kani, kani::unwind(258))]
pub(crate) fn zz_c14_t_slide_digits_window_mid() {
    case_slide::<15>();
}
#[cfg_attr(kani, kani::proof)]
#[cfg_attr(kani, kani::unwind(258))]
pub(crate) fn zz_c14_t_slide_digits_window_high() {
    case_slide::<29>();
}

// ------------------------------------------------------------------------------------------------ point encoding
pub(crate) static mut INV_ARG0: u64 = 0;
pub(crate) static mut MULN: usize = 0;
pub(crate) static mut MUL_A0: [u64; 2] = [0; 2];
pub(crate) static mut MUL_B0: [u64; 2] = [0; 2];
pub(crate) static mut ENC_ARG0: u64 = 0;
pub(crate) static mut NEG_ARG0: u64 = 0;
pub(crate) static mut NEG_RET: bool = false;
#[cfg(kani)]
pub(crate) fn invert_tag_rec(a: &Fe) -> Fe {
    unsafe {
        INV_ARG0 = a.0[0] as u64;
    }
    let mut r = Fe::ZERO;
    r.0[0] = 1000 as _;
    r
}
#[cfg(kani)]
pub(crate) fn mul_tag_rec<'a>(a: &'a Fe, b: &Fe) -> Fe
where
    'a: 'a,
{
    let mut r = Fe::ZERO;
    unsafe {
        if MULN < 2 {
            MUL_A0[MULN] = a.0[0] as u64;
            MUL_B0[MULN] = b.0[0] as u64;
        }
        MULN += 1;
        r.0[0] = (2000 + MULN) as _;
    }
    r
}
#[cfg(kani)]
pub(crate) fn fe_to_bytes_tag_rec(a: &Fe) -> [u8; 32] {
    unsafe {
        ENC_ARG0 = a.0[0] as u64;
    }
    let o: [u8; 32] = kani::any();
    kani::assume(o[31] & 0x80 == 0); // contract of Fe::to_bytes (C15): canonical, bit 255 clear
    unsafe {
        ENC_OUT = o;
    }
    o
}
pub(crate) static mut ENC_OUT: [u8; 32] = [0; 32];
#[cfg(kani)]
pub(crate) fn is_negative_tag_rec(a: &Fe) -> bool {
    unsafe {
        NEG_ARG0 = a.0[0] as u64;
        NEG_RET
    }
}
/// Ge::to_bytes / GePartial::to_bytes: the encoding is the canonical bytes of y/z with bit 255 replaced by the parity of x/z
/// (field operations recorded and told apart by tags: x = 11, y = 12, z = 13, 1/z = 1000, products 2001, 2002).
fn case_point_encoding(partial: bool) {
    let neg: bool = any();
    #[cfg(kani)]
    unsafe {
        NEG_RET = neg;
    }
    let (mut x, mut y, mut z) = (Fe::ZERO, Fe::ZERO, Fe::ZERO);
    x.0[0] = 11 as _;
    y.0[0] = 12 as _;
    z.0[0] = 13 as _;
    let out = if partial { GePartial { x, y, z }.to_bytes() } else { Ge { x, y, z, t: Fe::ZERO }.to_bytes() };
    #[cfg(kani)]
    unsafe {
        vassert!(INV_ARG0 == 13, "point encoding: the inverse of Z is taken");
        vassert!(MULN == 2 && MUL_A0[0] == 11 && MUL_B0[0] == 1000 && MUL_A0[1] == 12 && MUL_B0[1] == 1000, "point encoding: x = X/Z and y = Y/Z");
        vassert!(ENC_ARG0 == 2002, "point encoding: the bytes are the encoding of y");
        vassert!(NEG_ARG0 == 2001, "point encoding: the sign is the parity of x");
        let mut i = 0;
        while i < 31 {
            vassert!(out[i] == ENC_OUT[i], "point encoding: bytes 0..31 are y's canonical bytes");
            i += 1;
        }
        vassert!(out[31] == (ENC_OUT[31] | if neg { 0x80 } else { 0 }), "point encoding: bit 255 carries the parity of x, the rest of byte 31 is y's");
    }
    let _ = (out, neg);
}
#[cfg_attr(kani, kani::proof)]
#[cfg_attr(kani, kani::unwind(34))]
#[cfg_attr(kani, kani::stub(Fe::invert, invert_tag_rec))]
#[cfg_attr(kani, kani::stub(<&Fe as core::ops::Mul<&Fe>>::mul, mul_tag_rec))]
#[cfg_attr(kani, kani::stub(Fe::to_bytes, fe_to_bytes_tag_rec))]
#[cfg_attr(kani, kani::stub(Fe::is_negative, is_negative_tag_rec))]
pub(crate) fn c15_ge_to_bytes_layout() {
    case_point_encoding(false);
}
#[cfg_attr(kani, kani::proof)]
#[cfg_attr(kani, kani::unwind(34))]
#[cfg_attr(kani, kani::stub(Fe::invert, invert_tag_rec))]
#[cfg_attr(kani, kani::stub(<&Fe as core::ops::Mul<&Fe>>::mul, mul_tag_rec))]
#[cfg_attr(kani, kani::stub(Fe::to_bytes, fe_to_bytes_tag_rec))]
#[cfg_attr(kani, kani::stub(Fe::is_negative, is_negative_tag_rec))]
pub(crate) fn c15_gepartial_to_bytes_layout() {
    case_point_encoding(true);
}
