// C20 (misc) — constructor refusals of the three ChaCha cipher contexts (src/chacha20.rs; child module of crate::chacha20).
//
//   * key length: `new` accepts exactly 16 or 32 bytes; every other length 0..=40 is refused by a panic (never a
//     truncated / out-of-bounds key load) — decided for a SYMBOLIC length.
//   * round count: the const parameter must be 8, 12 or 20; the instantiations 7, 10 and 21 (one below / between /
//     one above the legal values) are refused by a panic for every key shape; 8, 12, 20 return normally.
//
// Refusal harnesses are `should_panic` (Kani: at least one panic reachable) AND carry a "MUST-NOT" cover directly
// after the refused call: the runner treats a satisfied MUST-NOT cover as a failure, so "refused" means refused on
// EVERY path, not on some path.
#![allow(dead_code, unused_imports, missing_docs)]
use super::*;
use crate::verif_lib::*;

pub(crate) const KMAX: usize = 40;

/// symbolic key of illegal length: backing bytes first, then the length
pub(crate) fn illegal_key() -> ([u8; KMAX], usize) {
    let kb: [u8; KMAX] = any();
    let kl: usize = any();
    assume(kl <= KMAX && kl != 16 && kl != 32);
    vcover!(kl == 0, "empty key");
    vcover!(kl == 15, "one below 16");
    vcover!(kl == 17, "one above 16");
    vcover!(kl == 31, "one below 32");
    vcover!(kl == 33, "one above 32");
    vcover!(kl == KMAX, "longest key of the bound");
    (kb, kl)
}
/// symbolic key of legal length (16 or 32)
pub(crate) fn legal_key() -> ([u8; KMAX], usize) {
    let kb: [u8; KMAX] = any();
    let long: bool = any();
    vcover!(long, "256-bit key");
    vcover!(!long, "128-bit key");
    (kb, if long { 32 } else { 16 })
}

// (legal and illegal shapes are separate functions: a cover statement in a branch the harness never takes would be reported
// as unsatisfied and make the run count as vacuous)
fn chacha_new<const R: usize>() {
    let (kb, kl) = legal_key();
    let nonce: [u8; 12] = any();
    let c = ChaCha::<R>::new(&kb[..kl], &nonce);
    vassert!(c.offset == 64, "ChaCha::new: nothing cached");
}
fn chacha_new_illegal_key<const R: usize>() {
    let (kb, kl) = illegal_key();
    let nonce: [u8; 12] = any();
    let c = ChaCha::<R>::new(&kb[..kl], &nonce);
    vassert!(c.offset == 64, "ChaCha::new: nothing cached");
}
fn chachaorig_new<const R: usize>() {
    let (kb, kl) = legal_key();
    let nonce: [u8; 8] = any();
    let c = ChaChaOriginal::<R>::new(&kb[..kl], &nonce);
    vassert!(c.offset == 64, "ChaChaOriginal::new: nothing cached");
}
fn chachaorig_new_illegal_key<const R: usize>() {
    let (kb, kl) = illegal_key();
    let nonce: [u8; 8] = any();
    let c = ChaChaOriginal::<R>::new(&kb[..kl], &nonce);
    vassert!(c.offset == 64, "ChaChaOriginal::new: nothing cached");
}
fn xchacha_new<const R: usize>() {
    let key: [u8; 32] = any();
    let nonce: [u8; 24] = any();
    let c = XChaCha::<R>::new(&key, &nonce);
    vassert!(c.offset == 64, "XChaCha::new: nothing cached");
}

// ---- legal shapes return normally (no panic, no overflow, no out-of-bounds: Kani's automatic checks) ------------
#[cfg_attr(kani, kani::proof)]
#[cfg_attr(kani, kani::unwind(42))]
pub(crate) fn c20_misc_chacha_new_legal() {
    chacha_new::<8>();
    chacha_new::<12>();
    chacha_new::<20>();
}
#[cfg_attr(kani, kani::proof)]
#[cfg_attr(kani, kani::unwind(42))]
pub(crate) fn c20_misc_chachaorig_new_legal() {
    chachaorig_new::<8>();
    chachaorig_new::<12>();
    chachaorig_new::<20>();
}
/// XChaCha::new runs the HChaCha rounds (real SSE2 code, 8 / 12 rounds); 20 rounds in the thorough tier
#[cfg_attr(kani, kani::proof)]
#[cfg_attr(kani, kani::unwind(42))]
#[cfg_attr(kani, kani::stub(core::arch::x86_64::_mm_add_epi32, crate::verif_lib::mm_add_epi32_model))]
pub(crate) fn c20_misc_xchacha_new_legal_r8_r12() {
    xchacha_new::<8>();
    xchacha_new::<12>();
}
#[cfg_attr(kani, kani::proof)]
#[cfg_attr(kani, kani::unwind(42))]
#[cfg_attr(kani, kani::stub(core::arch::x86_64::_mm_add_epi32, crate::verif_lib::mm_add_epi32_model))]
pub(crate) fn c20_misc_xchacha_new_legal_r20() {
    xchacha_new::<20>();
}

// ---- illegal key lengths (symbolic 0..=40, not 16, not 32) -------------------------------------------------------
#[cfg_attr(kani, kani::proof)]
#[cfg_attr(kani, kani::should_panic)]
#[cfg_attr(kani, kani::unwind(42))]
pub(crate) fn c20_misc_chacha_new_keylen_panics() {
    chacha_new_illegal_key::<20>();
    vcover!(true, "MUST-NOT: ChaCha::new returned for a key length other than 16 or 32");
}
#[cfg_attr(kani, kani::proof)]
#[cfg_attr(kani, kani::should_panic)]
#[cfg_attr(kani, kani::unwind(42))]
pub(crate) fn c20_misc_chachaorig_new_keylen_panics() {
    chachaorig_new_illegal_key::<20>();
    vcover!(true, "MUST-NOT: ChaChaOriginal::new returned for a key length other than 16 or 32");
}

// ---- illegal round counts: 7, 10, 21 --------------------------------------------------------------------------------
#[cfg_attr(kani, kani::proof)]
#[cfg_attr(kani, kani::should_panic)]
#[cfg_attr(kani, kani::unwind(42))]
pub(crate) fn c20_misc_chacha_new_rounds7_panics() {
    chacha_new::<7>();
    vcover!(true, "MUST-NOT: ChaCha::new returned for ROUNDS = 7");
}
#[cfg_attr(kani, kani::proof)]
#[cfg_attr(kani, kani::should_panic)]
#[cfg_attr(kani, kani::unwind(42))]
pub(crate) fn c20_misc_chacha_new_rounds10_panics() {
    chacha_new::<10>();
    vcover!(true, "MUST-NOT: ChaCha::new returned for ROUNDS = 10");
}
#[cfg_attr(kani, kani::proof)]
#[cfg_attr(kani, kani::should_panic)]
#[cfg_attr(kani, kani::unwind(42))]
pub(crate) fn c20_misc_chacha_new_rounds21_panics() {
    chacha_new::<21>();
    vcover!(true, "MUST-NOT: ChaCha::new returned for ROUNDS = 21");
}
#[cfg_attr(kani, kani::proof)]
#[cfg_attr(kani, kani::should_panic)]
#[cfg_attr(kani, kani::unwind(42))]
pub(crate) fn c20_misc_chachaorig_new_rounds7_panics() {
    chachaorig_new::<7>();
    vcover!(true, "MUST-NOT: ChaChaOriginal::new returned for ROUNDS = 7");
}
#[cfg_attr(kani, kani::proof)]
#[cfg_attr(kani, kani::should_panic)]
#[cfg_attr(kani, kani::unwind(42))]
pub(crate) fn c20_misc_chachaorig_new_rounds10_panics() {
    chachaorig_new::<10>();
    vcover!(true, "MUST-NOT: ChaChaOriginal::new returned for ROUNDS = 10");
}
#[cfg_attr(kani, kani::proof)]
#[cfg_attr(kani, kani::should_panic)]
#[cfg_attr(kani, kani::unwind(42))]
pub(crate) fn c20_misc_chachaorig_new_rounds21_panics() {
    chachaorig_new::<21>();
    vcover!(true, "MUST-NOT: ChaChaOriginal::new returned for ROUNDS = 21");
}
#[cfg_attr(kani, kani::proof)]
#[cfg_attr(kani, kani::should_panic)]
#[cfg_attr(kani, kani::unwind(42))]
pub(crate) fn c20_misc_xchacha_new_rounds7_panics() {
    xchacha_new::<7>();
    vcover!(true, "MUST-NOT: XChaCha::new returned for ROUNDS = 7");
}
#[cfg_attr(kani, kani::proof)]
#[cfg_attr(kani, kani::should_panic)]
#[cfg_attr(kani, kani::unwind(42))]
pub(crate) fn c20_misc_xchacha_new_rounds10_panics() {
    xchacha_new::<10>();
    vcover!(true, "MUST-NOT: XChaCha::new returned for ROUNDS = 10");
}
#[cfg_attr(kani, kani::proof)]
#[cfg_attr(kani, kani::should_panic)]
#[cfg_attr(kani, kani::unwind(42))]
pub(crate) fn c20_misc_xchacha_new_rounds21_panics() {
    xchacha_new::<21>();
    vcover!(true, "MUST-NOT: XChaCha::new returned for ROUNDS = 21");
}
