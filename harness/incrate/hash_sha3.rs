// C01 / C02 — sponge glue of src/hashing/sha3.rs: Engine<DIGESTLEN, DSLEN> (child module of crate::hashing::sha3).
// DSLEN = 2: SHA-3 (FIPS 202: M || 01 || pad10*1), DSLEN = 0: Keccak (M || pad10*1); rate = 200 - 2*DIGESTLEN bytes.
//
// Abstract state: alpha = (state[200], offset < rate, can_absorb, can_squeeze).  One operation from an ARBITRARY state per
// harness; `keccak_f` is replaced by a loop-free recorder (state in, ARBITRARY state out), so every claim holds for every
// permutation.  Lemmas:
//   process(data)  : the bytes of data are XORed into lanes offset, offset+1, .. of the rate part, one permutation each
//                    time the rate part is full, capacity part never touched, offset' = (offset + len) mod rate
//   finalize()     : == process(pad) with pad = the (rate - offset) bytes  [ds|0x80]  or  [ds, 0.., 0x80]  (ds = 0x06 / 0x01),
//                    then can_absorb = false        (process recorded: its contract is the lemma above)
//   output(out)    : finalize() first iff still absorbing, then the first DIGESTLEN bytes of the state, NO further
//                    permutation, can_squeeze = false     (finalize and keccak_f recorded)
//   reset()/new()  : all-zero state, offset 0, both flags set.
// The process lemma is decided on a small-rate instantiation of the generic engine (Engine<92, DS>: rate 16, real code,
// all offsets, data up to 2*rate+3) in the quick tier and on the real rates 72/104/136/144 in the thorough tier.
#![allow(dead_code, unused_imports, unused_variables, unused_macros, missing_docs, static_mut_refs)]
use super::*;
use crate::verif_lib::*;

// ------------------------------------------------------------------------------------------------ recorders
pub(crate) const NL: usize = 3;
pub(crate) static mut F_N: usize = 0;
pub(crate) static mut F_IN: [[u8; 200]; NL] = [[0u8; 200]; NL];
pub(crate) static mut F_OUT: [[u8; 200]; NL] = [[0u8; 200]; NL];
#[cfg(kani)]
pub(crate) fn keccak_f_rec(state: &mut [u8; B]) {
    let out: [u8; 200] = kani::any();
    unsafe {
        if F_N == 0 {
            F_IN[0] = *state;
            F_OUT[0] = out;
        } else if F_N == 1 {
            F_IN[1] = *state;
            F_OUT[1] = out;
        } else if F_N == 2 {
            F_IN[2] = *state;
            F_OUT[2] = out;
        }
        F_N += 1;
    }
    *state = out;
}
pub(crate) fn f_reset() {
    unsafe {
        F_N = 0;
    }
}

// process(): number of calls, length, and ONE byte at a position chosen by the harness (P_J) — loop-free
pub(crate) static mut P_N: usize = 0;
pub(crate) static mut P_PTR: usize = 0;
pub(crate) static mut P_LEN: usize = 0;
pub(crate) static mut P_J: usize = 0;
pub(crate) static mut P_BYTE: u8 = 0;
pub(crate) static mut P_STATE: [u8; 200] = [0u8; 200];
pub(crate) static mut P_DL: usize = 0; // which instantiation was called
pub(crate) static mut P_DS: usize = 0;
#[cfg(kani)]
pub(crate) fn process_rec<const DIGESTLEN: usize, const DSLEN: usize>(e: &mut Engine<DIGESTLEN, DSLEN>, data: &[u8]) {
    let out: [u8; 200] = kani::any();
    unsafe {
        P_N += 1;
        P_DL = DIGESTLEN;
        P_DS = DSLEN;
        P_PTR = data.as_ptr() as usize;
        P_LEN = data.len();
        if P_J < data.len() {
            P_BYTE = data[P_J];
        }
        P_STATE = out;
    }
    // contract (process lemma): offset' = (offset + len) mod rate; the state is some function of state and data
    let r = B - 2 * DIGESTLEN;
    let t = e.offset + data.len();
    e.offset = if t >= r { t - r } else { t };
    e.state = out;
}
pub(crate) fn p_reset(j: usize) {
    unsafe {
        P_N = 0;
        P_J = j;
    }
}
// finalize(): recorded for the output lemma
pub(crate) static mut FIN_N: usize = 0;
pub(crate) static mut FIN_STATE: [u8; 200] = [0u8; 200];
#[cfg(kani)]
pub(crate) fn finalize_rec<const DIGESTLEN: usize, const DSLEN: usize>(e: &mut Engine<DIGESTLEN, DSLEN>) {
    let out: [u8; 200] = kani::any();
    unsafe {
        FIN_N += 1;
        FIN_STATE = out;
    }
    // contract (finalize lemma): padded, permuted, offset 0, absorbing phase over
    e.state = out;
    e.offset = 0;
    e.can_absorb = false;
}
// output(): recorded for the context-level wrappers
pub(crate) static mut O_N: usize = 0;
pub(crate) static mut O_LEN: usize = 0;
pub(crate) static mut O_MARK: u8 = 0;
pub(crate) static mut O_DL: usize = 0;
pub(crate) static mut O_DS: usize = 0;
#[cfg(kani)]
pub(crate) fn output_rec<const DIGESTLEN: usize, const DSLEN: usize>(e: &mut Engine<DIGESTLEN, DSLEN>, out: &mut [u8]) {
    let m: u8 = kani::any();
    unsafe {
        O_N += 1;
        O_DL = DIGESTLEN;
        O_DS = DSLEN;
        O_LEN = out.len();
        O_MARK = m;
    }
    if !out.is_empty() {
        out[0] = m;
        let l = out.len();
        out[l - 1] = m;
    }
    e.can_squeeze = false;
}

pub(crate) fn mk_engine<const DL: usize, const DS: usize>(state: [u8; 200], offset: usize, can_absorb: bool, can_squeeze: bool) -> Engine<DL, DS> {
    Engine { state, can_absorb, can_squeeze, offset }
}
pub(crate) fn eng_state<const DL: usize, const DS: usize>(e: &Engine<DL, DS>) -> [u8; 200] {
    e.state
}
pub(crate) fn eng_offset<const DL: usize, const DS: usize>(e: &Engine<DL, DS>) -> usize {
    e.offset
}
pub(crate) fn is_new<const DL: usize, const DS: usize>(e: &Engine<DL, DS>) -> bool {
    let mut ok = e.can_absorb && e.can_squeeze && e.offset == 0;
    let mut i = 0;
    while i < 200 {
        ok &= e.state[i] == 0;
        i += 1;
    }
    ok
}

// ------------------------------------------------------------------------------------------------ specification
/// FIPS 202 B.2 (byte-aligned messages): suffix byte 0x06 for SHA-3 (bits 01 then the first 1 of pad10*1),
/// 0x01 for Keccak (pad10*1 only); the final 1 of pad10*1 is bit 7 of the last byte of the block; q = pad length >= 1
pub(crate) fn spec_pad_byte(p: usize, q: usize, ds: usize) -> u8 {
    let first: u8 = if ds == 2 { 0x06 } else { 0x01 };
    let mut b = if p == 0 { first } else { 0 };
    if p == q - 1 {
        b |= 0x80;
    }
    b
}

// ------------------------------------------------------------------------------------------------ process step
/// process() from an arbitrary absorbing state; data length 0..=MAX (MAX <= 2*rate+3); "for every state byte" = one symbolic position j
/// (enumerating the offset in a loop instead of keeping it symbolic was tried: symex does not finish in 15 min)
pub(crate) fn case_process<const DL: usize, const DS: usize, const MAX: usize>() {
    let state: [u8; 200] = any();
    let offset: usize = any();
    let can_squeeze: bool = any();
    let data = Bytes::<MAX>::any();
    let j: usize = any();
    let r = 200 - 2 * DL;
    assume(offset < r && j < 200);
    let len = data.len;
    vcover!(len == 0, "empty input");
    vcover!(offset > 0 && offset + len == r, "fills the rate part exactly: permutation, offset back to 0");
    vcover!(offset > 0 && offset + len == r - 1, "one byte short of a full block");
    vcover!(offset > 0 && offset + len > r && len == MAX, "crosses a block boundary with the longest input");
    let mut e = mk_engine::<DL, DS>(state, offset, true, can_squeeze);
    f_reset();
    e.process(&data.buf[..len]);

    let total = offset + len;
    let n = (total >= r) as usize + (total >= 2 * r) as usize + (total >= 3 * r) as usize;
    vassert!(e.offset == total - n * r, "process: offset' == (offset + len) mod rate");
    vassert!(e.can_absorb && e.can_squeeze == can_squeeze, "process: phase flags untouched");
    #[cfg(kani)]
    unsafe {
        vassert!(F_N == n, "process: one permutation per completed rate block");
        let mut g = 0;
        while g < 4 {
            if g <= n {
                let base = if g == 0 { state[j] } else { F_OUT[g - 1][j] };
                let absorbed = if j < r && g * r + j >= offset && g * r + j - offset < len { data.buf[g * r + j - offset] } else { 0 };
                let got = if g < n { F_IN[g][j] } else { e.state[j] };
                vassert!(got == base ^ absorbed, "process: message byte p is XORed into lane byte (offset + p) mod rate of block (offset + p) div rate; capacity bytes untouched");
            }
            g += 1;
        }
    }
    #[cfg(not(kani))]
    {
        let mut st = state;
        for g in 0..=n {
            for i in 0..r {
                if g * r + i >= offset && g * r + i - offset < len {
                    st[i] ^= data.buf[g * r + i - offset];
                }
            }
            if g < n {
                keccak_f(&mut st);
            }
        }
        assert!(st == e.state, "process: message byte p is XORed into lane byte (offset + p) mod rate of block (offset + p) div rate; capacity bytes untouched");
    }
}

// ------------------------------------------------------------------------------------------------ finalize (padding)
/// Kani model of alloc::vec::from_elem(elem, n) for n <= 200: a Vec of fixed capacity 200 whose length is n.  finalize() allocates
/// its padding with `vec![0; rate - offset]`; an allocation of SYMBOLIC size exhausts CBMC's memory (12 GB at rate 72), a
/// fixed-size allocation with a symbolic length does not.  Same observable behaviour for every n <= 200 (asserted).
#[cfg(kani)]
pub(crate) fn from_elem_model<T: Clone>(elem: T, n: usize) -> alloc::vec::Vec<T> {
    assert!(n <= 200);
    let mut v = alloc::vec::Vec::with_capacity(200);
    let mut i = 0;
    while i < 200 {
        v.push(elem.clone());
        i += 1;
    }
    unsafe {
        v.set_len(n);
    }
    v
}
/// finalize() from an arbitrary absorbing state == process(pad10*1 with domain separation), can_absorb = false
pub(crate) fn case_finalize<const DL: usize, const DS: usize>() {
    let state: [u8; 200] = any();
    let offset: usize = any();
    let can_squeeze: bool = any();
    let j: usize = any();
    let r = 200 - 2 * DL;
    assume(offset < r && j < r);
    vcover!(offset == r - 1, "single pad byte 0x86 / 0x81");
    vcover!(offset == r - 2 && j == 1, "two pad bytes, second one checked");
    vcover!(offset == 0 && j == r - 1, "a whole block of padding, last byte checked");
    let mut e = mk_engine::<DL, DS>(state, offset, true, can_squeeze);
    p_reset(j);
    f_reset();
    e.finalize();
    let q = r - offset;
    vassert!(!e.can_absorb && e.can_squeeze == can_squeeze, "finalize: absorbing phase over, squeeze flag untouched");
    #[cfg(kani)]
    unsafe {
        vassert!(P_N == 1 && P_LEN == q, "finalize: exactly one absorb of exactly rate - offset padding bytes");
        if j < q {
            vassert!(P_BYTE == spec_pad_byte(j, q, DS), "finalize: padding == domain-separation suffix || 10*1 (0x06/0x01, zeros, 0x80; one byte 0x86/0x81 when only one fits)");
        }
        vassert!(e.offset == 0, "finalize: offset 0 after the padded block was permuted");
    }
    #[cfg(not(kani))]
    {
        let mut st = state;
        for p in 0..q {
            st[offset + p] ^= spec_pad_byte(p, q, DS);
        }
        keccak_f(&mut st);
        assert!(st == e.state, "finalize: padding == domain-separation suffix || 10*1 (0x06/0x01, zeros, 0x80; one byte 0x86/0x81 when only one fits)");
        assert!(e.offset == 0, "finalize: offset 0 after the padded block was permuted");
    }
}

// ------------------------------------------------------------------------------------------------ output
/// output(&mut [u8; DL]) from an absorbing state (finalize first; offset arbitrary) or from a just-finalized state (offset 0);
/// "every digest byte" = one symbolic position i
pub(crate) fn case_output<const DL: usize, const DS: usize>() {
    let state: [u8; 200] = any();
    let off: usize = any();
    let can_absorb: bool = any();
    let i: usize = any();
    let r = 200 - 2 * DL;
    assume(off < r && i < DL);
    let offset = if can_absorb { off } else { 0 };
    vcover!(can_absorb, "still absorbing: finalize runs first");
    vcover!(!can_absorb, "already finalized");
    let mut e = mk_engine::<DL, DS>(state, offset, can_absorb, true);
    unsafe {
        FIN_N = 0;
    }
    f_reset();
    let mut out = [0u8; DL];
    e.output(&mut out);
    vassert!(!e.can_squeeze && !e.can_absorb, "output: nothing left to squeeze or absorb afterwards");
    #[cfg(kani)]
    unsafe {
        vassert!(FIN_N == can_absorb as usize, "output: finalize() runs exactly when the engine was still absorbing");
        vassert!(F_N == 0, "output: no permutation besides the one of the padded block");
        let s = if can_absorb { FIN_STATE[i] } else { state[i] };
        vassert!(out[i] == s, "output: digest == first DIGESTLEN bytes of the state after the final permutation");
    }
    #[cfg(not(kani))]
    {
        let mut st = state;
        if can_absorb {
            let q = r - offset;
            for p in 0..q {
                st[offset + p] ^= spec_pad_byte(p, q, DS);
            }
            keccak_f(&mut st);
        }
        assert!(out[..] == st[..DL], "output: digest == first DIGESTLEN bytes of the state after the final permutation");
    }
}

/// new() / reset() / clone
pub(crate) fn case_new_reset_clone<const DL: usize, const DS: usize>() {
    let state: [u8; 200] = any();
    let offset: usize = any();
    let can_absorb: bool = any();
    let can_squeeze: bool = any();
    vassert!(is_new(&Engine::<DL, DS>::new()), "new: zero state, offset 0, absorbing and squeezable");
    let mut e = mk_engine::<DL, DS>(state, offset, can_absorb, can_squeeze);
    let c = e.clone();
    let mut same = c.offset == offset && c.can_absorb == can_absorb && c.can_squeeze == can_squeeze;
    let mut i = 0;
    while i < 200 {
        same &= c.state[i] == state[i];
        i += 1;
    }
    vassert!(same, "clone: same state, offset and phase flags");
    e.reset();
    vassert!(is_new(&e), "reset: engine equals a freshly created one");
}

// ------------------------------------------------------------------------------------------------ context wrappers
/// the four methods of a context type are thin wrappers of the engine: update/update_mut == one process(x) on the wrapped
/// engine, finalize == output into a DIGESTLEN array, finalize_reset == output then reset, reset == reset (process/output recorded)
macro_rules! sponge_ctx_case {
    ($ctx:ident, $dl:expr) => {{
        let state: [u8; 200] = any();
        let offset: usize = any();
        let data = Bytes::<5>::any();
        assume(offset < 200 - 2 * $dl);
        let (p, l) = (data.get().as_ptr() as usize, data.len);
        let mk = || $ctx(crate::hashing::sha3::verif_sha3::mk_engine(state, offset, true, true));
        p_reset(0);
        let c1 = mk().update(data.get());
        #[cfg(kani)]
        unsafe {
            vassert!(P_N == 1 && P_PTR == p && P_LEN == l, "update: exactly one engine.process call, on the caller's slice");
            let s1 = eng_state(&c1.0);
            let mut i = 0;
            while i < 200 {
                vassert!(s1[i] == P_STATE[i], "update: returns the context that was fed");
                i += 1;
            }
        }
        p_reset(0);
        let mut c2 = mk();
        c2.update_mut(data.get());
        #[cfg(kani)]
        unsafe {
            vassert!(P_N == 1 && P_PTR == p && P_LEN == l, "update_mut: exactly one engine.process call, on the caller's slice");
        }
        #[cfg(not(kani))]
        assert!(eng_state(&c1.0) == eng_state(&c2.0) && eng_offset(&c1.0) == eng_offset(&c2.0), "update == update_mut");
        // finalize / finalize_reset
        unsafe {
            O_N = 0;
        }
        let out = mk().finalize();
        #[cfg(kani)]
        unsafe {
            vassert!(O_N == 1 && O_LEN == $dl && out[0] == O_MARK && out[$dl - 1] == O_MARK, "finalize: returns what engine.output wrote into a DIGESTLEN-byte array");
        }
        unsafe {
            O_N = 0;
        }
        let mut c3 = mk();
        let out2 = c3.finalize_reset();
        #[cfg(kani)]
        unsafe {
            vassert!(O_N == 1 && O_LEN == $dl && out2[0] == O_MARK && out2[$dl - 1] == O_MARK, "finalize_reset: returns what engine.output wrote into a DIGESTLEN-byte array");
        }
        #[cfg(not(kani))]
        assert!(out == out2, "finalize_reset: same digest as finalize");
        vassert!(crate::hashing::sha3::verif_sha3::is_new(&c3.0), "finalize_reset: context equals a freshly created one");
        let mut c4 = mk();
        c4.reset();
        vassert!(crate::hashing::sha3::verif_sha3::is_new(&c4.0), "reset: context equals a freshly created one");
        vassert!(crate::hashing::sha3::verif_sha3::is_new(&$ctx::new().0), "new: fresh engine");
    }};
}
pub(crate) use sponge_ctx_case;

// ================================================================================================ harnesses
// process lemma, generic engine at rate 16 (quick) and at the real rates (thorough)
#[cfg_attr(kani, kani::proof)]
#[cfg_attr(kani, kani::unwind(18))]
#[doc = "verif-unwindset: Engine::<92..2>::process#1=5"]
#[cfg_attr(kani, kani::stub(crate::hashing::sha3::keccak_f, keccak_f_rec))]
pub(crate) fn c01_sponge_process_step_rate16() {
    case_process::<92, 2, 9>();
}
#[cfg_attr(kani, kani::proof)]
#[cfg_attr(kani, kani::unwind(18))]
#[doc = "verif-unwindset: Engine::<92..2>::process#1=6"]
#[cfg_attr(kani, kani::stub(crate::hashing::sha3::keccak_f, keccak_f_rec))]
pub(crate) fn c01_t_sponge_process_step_rate16_35() {
    case_process::<92, 2, 35>();
}
#[cfg_attr(kani, kani::proof)]
#[cfg_attr(kani, kani::unwind(74))]
#[doc = "verif-unwindset: Engine::<64..2>::process#1=6"]
#[cfg_attr(kani, kani::stub(crate::hashing::sha3::keccak_f, keccak_f_rec))]
pub(crate) fn c01_t_sponge_process_step_rate72() {
    case_process::<64, 2, 40>();
}
#[cfg_attr(kani, kani::proof)]
#[cfg_attr(kani, kani::unwind(146))]
#[doc = "verif-unwindset: Engine::<28..0>::process#1=6"]
#[cfg_attr(kani, kani::stub(crate::hashing::sha3::keccak_f, keccak_f_rec))]
pub(crate) fn c01_t_sponge_process_step_rate144() {
    case_process::<28, 0, 20>();
}

// padding, all eight real instantiations
#[cfg_attr(kani, kani::proof)]
#[cfg_attr(kani, kani::unwind(202))]
#[cfg_attr(kani, kani::stub(alloc::vec::from_elem, from_elem_model))]
#[cfg_attr(kani, kani::stub(crate::hashing::sha3::Engine::process, process_rec))]
pub(crate) fn c01_sha3_224_finalize_pad() {
    case_finalize::<28, 2>();
}
#[cfg_attr(kani, kani::proof)]
#[cfg_attr(kani, kani::unwind(202))]
#[cfg_attr(kani, kani::stub(alloc::vec::from_elem, from_elem_model))]
#[cfg_attr(kani, kani::stub(crate::hashing::sha3::Engine::process, process_rec))]
pub(crate) fn c01_t_sha3_256_finalize_pad() {
    case_finalize::<32, 2>();
}
#[cfg_attr(kani, kani::proof)]
#[cfg_attr(kani, kani::unwind(202))]
#[cfg_attr(kani, kani::stub(alloc::vec::from_elem, from_elem_model))]
#[cfg_attr(kani, kani::stub(crate::hashing::sha3::Engine::process, process_rec))]
pub(crate) fn c01_t_sha3_384_finalize_pad() {
    case_finalize::<48, 2>();
}
#[cfg_attr(kani, kani::proof)]
#[cfg_attr(kani, kani::unwind(202))]
#[cfg_attr(kani, kani::stub(alloc::vec::from_elem, from_elem_model))]
#[cfg_attr(kani, kani::stub(crate::hashing::sha3::Engine::process, process_rec))]
pub(crate) fn c01_sha3_512_finalize_pad() {
    case_finalize::<64, 2>();
}
#[cfg_attr(kani, kani::proof)]
#[cfg_attr(kani, kani::unwind(202))]
#[cfg_attr(kani, kani::stub(alloc::vec::from_elem, from_elem_model))]
#[cfg_attr(kani, kani::stub(crate::hashing::sha3::Engine::process, process_rec))]
pub(crate) fn c01_t_keccak224_finalize_pad() {
    case_finalize::<28, 0>();
}
#[cfg_attr(kani, kani::proof)]
#[cfg_attr(kani, kani::unwind(202))]
#[cfg_attr(kani, kani::stub(alloc::vec::from_elem, from_elem_model))]
#[cfg_attr(kani, kani::stub(crate::hashing::sha3::Engine::process, process_rec))]
pub(crate) fn c01_keccak256_finalize_pad() {
    case_finalize::<32, 0>();
}
#[cfg_attr(kani, kani::proof)]
#[cfg_attr(kani, kani::unwind(202))]
#[cfg_attr(kani, kani::stub(alloc::vec::from_elem, from_elem_model))]
#[cfg_attr(kani, kani::stub(crate::hashing::sha3::Engine::process, process_rec))]
pub(crate) fn c01_keccak384_finalize_pad() {
    case_finalize::<48, 0>();
}
#[cfg_attr(kani, kani::proof)]
#[cfg_attr(kani, kani::unwind(202))]
#[cfg_attr(kani, kani::stub(alloc::vec::from_elem, from_elem_model))]
#[cfg_attr(kani, kani::stub(crate::hashing::sha3::Engine::process, process_rec))]
pub(crate) fn c01_t_keccak512_finalize_pad() {
    case_finalize::<64, 0>();
}

// output, all eight real instantiations
#[cfg_attr(kani, kani::proof)]
#[cfg_attr(kani, kani::unwind(4))]
#[cfg_attr(kani, kani::stub(crate::hashing::sha3::Engine::finalize, finalize_rec))]
#[cfg_attr(kani, kani::stub(crate::hashing::sha3::keccak_f, keccak_f_rec))]
pub(crate) fn c01_sha3_output() {
    case_output::<28, 2>();
    case_output::<64, 2>();
}
#[cfg_attr(kani, kani::proof)]
#[cfg_attr(kani, kani::unwind(4))]
#[cfg_attr(kani, kani::stub(crate::hashing::sha3::Engine::finalize, finalize_rec))]
#[cfg_attr(kani, kani::stub(crate::hashing::sha3::keccak_f, keccak_f_rec))]
pub(crate) fn c01_t_sha3_output_256_384() {
    case_output::<32, 2>();
    case_output::<48, 2>();
}
#[cfg_attr(kani, kani::proof)]
#[cfg_attr(kani, kani::unwind(4))]
#[cfg_attr(kani, kani::stub(crate::hashing::sha3::Engine::finalize, finalize_rec))]
#[cfg_attr(kani, kani::stub(crate::hashing::sha3::keccak_f, keccak_f_rec))]
pub(crate) fn c01_keccak_output() {
    case_output::<32, 0>();
    case_output::<48, 0>();
}
#[cfg_attr(kani, kani::proof)]
#[cfg_attr(kani, kani::unwind(4))]
#[cfg_attr(kani, kani::stub(crate::hashing::sha3::Engine::finalize, finalize_rec))]
#[cfg_attr(kani, kani::stub(crate::hashing::sha3::keccak_f, keccak_f_rec))]
pub(crate) fn c01_t_keccak_output_224_512() {
    case_output::<28, 0>();
    case_output::<64, 0>();
}

#[cfg_attr(kani, kani::proof)]
#[cfg_attr(kani, kani::unwind(202))]
pub(crate) fn c02_sponge_new_reset_clone() {
    case_new_reset_clone::<28, 2>();
    case_new_reset_clone::<32, 2>();
    case_new_reset_clone::<48, 2>();
    case_new_reset_clone::<64, 2>();
    case_new_reset_clone::<28, 0>();
    case_new_reset_clone::<32, 0>();
    case_new_reset_clone::<48, 0>();
    case_new_reset_clone::<64, 0>();
}

#[cfg_attr(kani, kani::proof)]
#[cfg_attr(kani, kani::unwind(202))]
#[cfg_attr(kani, kani::stub(crate::hashing::sha3::Engine::process, process_rec))]
#[cfg_attr(kani, kani::stub(crate::hashing::sha3::Engine::output, output_rec))]
pub(crate) fn c02_sha3_context_wrappers() {
    sponge_ctx_case!(Context224, 28);
    sponge_ctx_case!(Context256, 32);
    sponge_ctx_case!(Context384, 48);
    sponge_ctx_case!(Context512, 64);
}

// permutation for the end-to-end harness of hash_spec.rs: stand-in under Kani (also the stub there), keccak_f natively
#[cfg(kani)]
pub(crate) fn toy_keccak_f(state: &mut [u8; B]) {
    let old = *state;
    let mut i = 0;
    while i < 200 {
        state[i] = old[i].rotate_left(3) ^ old[(i + 1) % 200] ^ old[(i + 71) % 200] ^ 0x5a;
        i += 1;
    }
}
pub(crate) fn perm(state: &mut [u8; B]) {
    #[cfg(kani)]
    toy_keccak_f(state);
    #[cfg(not(kani))]
    keccak_f(state);
}
