"""Curve25519 families: field / scalar / group arithmetic (C15), X25519 (C12), Ed25519 (C13, C14), 32-bit backend (C17)."""
import os, sys
sys.path.insert(0, os.path.dirname(os.path.dirname(os.path.abspath(__file__))))
import mirsym_extra

OVERLAYS = [
    ("src/curve25519/fe/mod.rs", "verif_fe", "fe.rs", None, "crate::curve25519::fe"),
    ("src/curve25519/scalar/mod.rs", "verif_scalar", "scalar.rs", None, "crate::curve25519::scalar"),
]
_MS = ["mirsym: input limbs range over the stated classes (fe64: every limb <= 2^53-76 'LOOSE'; outputs proven <= 2^51-1+2^16 'TIGHT', which is inside LOOSE, so the "
       "classes are closed under composition)"]
PROPS = {
    "C15": dict(
        prefixes=["c15_", "c14_scalar_canonical"],
        level="model_checking",
        bounds="fe64 limb arithmetic (add, sub, neg, negate_mut, mul, square, square_and_double, mul_small<121666>, to_packed, from_bytes): ALL limb vectors in class LOOSE "
               "(each limb <= 2^53-76), decided by z3 on the polynomial encoding of the MIR; bit-level obligations (decode/encode canonical, ==, sign, zero test, canonical "
               "scalar decoder, scalar bytes/bits/nibbles): all 2^256 (pairs of) byte strings by CBMC",
        outside="inversion / pow25523 addition chains, group formulas, tables and scalar multiplication are separate obligations (see the harness list of this run; anything not listed there is not claimed)",
        assumptions=_MS,
        trusted=["specification formulas in mirsym/specs.py (value = sum limb_i 2^(51 i), congruences mod 2^255-19) and harness/incrate/fe.rs, scalar.rs (multi-word comparisons)"],
        explanation="limb arithmetic by MIR -> polynomial -> z3; bit-level encoders/decoders by CBMC at full width",
        level_text="Every checked arithmetic operation of the fe64 limb functions is proven overflow-free, every output limb proven inside class TIGHT, and the value "
                   "congruence mod 2^255-19 proven, for ALL inputs in class LOOSE (z3 on the MIR-derived encoding). to_packed is proven to return the canonical "
                   "representative (< p) for all LOOSE limbs. Decode/encode, ==, is_negative, is_nonzero and the canonical scalar decoder are decided by CBMC for all byte strings.",
        level_note="Products of two symbolic limbs are abstracted to bounded integers (sound for 'holds'). Group law / tables / scalar multiplication: see bounds.",
        extra=[mirsym_extra.make_extra("C15")],
    ),
}
