// C12 — X25519 skeleton (src/curve25519/mod.rs; child module of crate::curve25519).
// RFC 7748 section 5: decode u (mask bit 255), clamp k, run the ladder over bits 254..0 with a conditional swap driven by
// swap ^= k_t, one ladder step per bit, final swap, then x2 * z2^(p-2) encoded canonically.
// Here the FIELD operations are recorded (loop-free stubs returning constants) and the harness decides the scalar side for
// every 32-byte scalar: which conditional swaps are requested, in which order, how many ladder steps run, and that the result
// is the encoding of  invert(z2) * x2.  The ladder-step algebra is a ring-level obligation (mirsym), the field functions are C15.
#![allow(dead_code, unused_imports, missing_docs)]
use super::*;
use crate::constant_time::Choice;
use crate::verif_lib::*;

pub(crate) static mut SWAPN: usize = 0;
pub(crate) static mut SWAP_BIT: [u8; 520] = [0; 520];
pub(crate) static mut MUL_N: usize = 0;
pub(crate) static mut SQ_N: usize = 0;
pub(crate) static mut SMALL_N: usize = 0;
pub(crate) static mut INV_N: usize = 0;
pub(crate) static mut ENC_N: usize = 0;
pub(crate) static mut INV_SEQ: usize = 0;
pub(crate) static mut LASTMUL_SEQ: usize = 0;
pub(crate) static mut ENC_SEQ: usize = 0;
pub(crate) static mut SEQ: usize = 0;
pub(crate) static mut DEC_IN: [u8; 32] = [0; 32];
pub(crate) static mut DEC_N: usize = 0;

#[cfg(kani)]
pub(crate) fn swap_rec(_a: &mut Fe, _b: &mut Fe, c: Choice) {
    unsafe {
        if SWAPN < 520 {
            SWAP_BIT[SWAPN] = if c.is_true() { 1 } else { 0 };
        }
        SWAPN += 1;
        SEQ += 1;
    }
}
#[cfg(kani)]
pub(crate) fn fe_from_bytes_rec(b: &[u8; 32]) -> Fe {
    unsafe {
        DEC_IN = *b;
        DEC_N += 1;
    }
    Fe::ONE
}
#[cfg(kani)]
pub(crate) fn fe_bin_rec<'a>(_a: &'a Fe, _b: &Fe) -> Fe
where
    'a: 'a,
{
    Fe::ONE
}
#[cfg(kani)]
pub(crate) fn fe_mul_rec<'a>(_a: &'a Fe, _b: &Fe) -> Fe
where
    'a: 'a,
{
    unsafe {
        MUL_N += 1;
        SEQ += 1;
        LASTMUL_SEQ = SEQ;
    }
    Fe::ONE
}
#[cfg(kani)]
pub(crate) fn fe_sq_rec(_a: &Fe) -> Fe {
    unsafe {
        SQ_N += 1;
    }
    Fe::ONE
}
#[cfg(kani)]
pub(crate) fn fe_small_rec<const S0: u32>(_a: &Fe) -> Fe {
    unsafe {
        SMALL_N += 1;
    }
    Fe::ONE
}
#[cfg(kani)]
pub(crate) fn fe_invert_rec(_a: &Fe) -> Fe {
    unsafe {
        INV_N += 1;
        SEQ += 1;
        INV_SEQ = SEQ;
    }
    Fe::ONE
}
#[cfg(kani)]
pub(crate) fn fe_to_bytes_rec(_a: &Fe) -> [u8; 32] {
    unsafe {
        ENC_N += 1;
        SEQ += 1;
        ENC_SEQ = SEQ;
    }
    [0x42; 32]
}

/// RFC 7748 decodeScalar25519
fn spec_clamp(k: &[u8; 32]) -> [u8; 32] {
    let mut e = *k;
    e[0] &= 248;
    e[31] &= 127;
    e[31] |= 64;
    e
}

/// native twin: RFC 7748 section 5 X25519 written directly from the RFC's pseudo-code (plain `if` swaps) over the crate's field type
#[cfg(not(kani))]
fn rfc7748_x25519(k: &[u8; 32], u: &[u8; 32]) -> [u8; 32] {
    let e = spec_clamp(k);
    let x1 = Fe::from_bytes(u);
    let (mut x2, mut z2, mut x3, mut z3) = (Fe::ONE, Fe::ZERO, x1.clone(), Fe::ONE);
    let mut swap = 0u8;
    let mut t = 255;
    while t > 0 {
        t -= 1;
        let kt = (e[t >> 3] >> (t & 7)) & 1;
        swap ^= kt;
        if swap == 1 {
            core::mem::swap(&mut x2, &mut x3);
            core::mem::swap(&mut z2, &mut z3);
        }
        swap = kt;
        let a = &x2 + &z2;
        let aa = a.square();
        let b = &x2 - &z2;
        let bb = b.square();
        let e_ = &aa - &bb;
        let c = &x3 + &z3;
        let d = &x3 - &z3;
        let da = &d * &a;
        let cb = &c * &b;
        x3 = (&da + &cb).square();
        z3 = &x1 * &(&da - &cb).square();
        x2 = &aa * &bb;
        z2 = &e_ * &(&aa + &e_.mul_small::<121665>());
    }
    if swap == 1 {
        core::mem::swap(&mut x2, &mut x3);
        core::mem::swap(&mut z2, &mut z3);
    }
    (&x2 * &z2.invert()).to_bytes()
}

fn check_schedule(k: &[u8; 32], muls_per_step: usize, small_per_step: usize) {
    #[cfg(kani)]
    unsafe {
        let e = spec_clamp(k);
        vassert!(SWAPN == 2 * 255 + 2, "x25519: two conditional swaps (x and z) per bit for 255 bits, plus the final pair");
        let mut swap: u8 = 0;
        let mut t = 0;
        while t < 255 {
            let pos = 254 - t;
            let kt = (e[pos >> 3] >> (pos & 7)) & 1;
            let want = swap ^ kt;
            vassert!(SWAP_BIT[2 * t] == want && SWAP_BIT[2 * t + 1] == want, "x25519: step t swaps (x2,x3) and (z2,z3) exactly when swap ^ k_t, bits taken from the CLAMPED scalar from 254 down to 0");
            swap = kt;
            t += 1;
        }
        vassert!(SWAP_BIT[510] == swap && SWAP_BIT[511] == swap, "x25519: final conditional swap with the last bit");
        vassert!(SQ_N == 4 * 255 && MUL_N == muls_per_step * 255 + 1 && SMALL_N == small_per_step * 255, "x25519: exactly 255 ladder steps of the fixed operation mix, then one multiplication");
        vassert!(INV_N == 1 && ENC_N == 1 && INV_SEQ < LASTMUL_SEQ && LASTMUL_SEQ < ENC_SEQ, "x25519: result = encode(invert(z2) * x2)");
    }
    let _ = (k, muls_per_step, small_per_step);
}

#[cfg_attr(kani, kani::proof)]
#[cfg_attr(kani, kani::unwind(258))]
#[cfg_attr(kani, kani::stub(Fe::maybe_swap_with, swap_rec))]
#[cfg_attr(kani, kani::stub(Fe::from_bytes, fe_from_bytes_rec))]
#[cfg_attr(kani, kani::stub(<&Fe as core::ops::Add<&Fe>>::add, fe_bin_rec))]
#[cfg_attr(kani, kani::stub(<&Fe as core::ops::Sub<&Fe>>::sub, fe_bin_rec))]
#[cfg_attr(kani, kani::stub(<&Fe as core::ops::Mul<&Fe>>::mul, fe_mul_rec))]
#[cfg_attr(kani, kani::stub(Fe::square, fe_sq_rec))]
#[cfg_attr(kani, kani::stub(Fe::mul_small, fe_small_rec))]
#[cfg_attr(kani, kani::stub(Fe::invert, fe_invert_rec))]
#[cfg_attr(kani, kani::stub(Fe::to_bytes, fe_to_bytes_rec))]
pub(crate) fn c12_x25519_schedule() {
    let k: [u8; 32] = any();
    let u: [u8; 32] = any();
    vcover!(k[31] & 0x80 != 0 && k[0] & 7 != 0, "unclamped scalar");
    let out = curve25519(&k, &u);
    #[cfg(kani)]
    unsafe {
        let mut same = DEC_N == 1;
        let mut i = 0;
        while i < 32 {
            if DEC_IN[i] != u[i] {
                same = false;
            }
            i += 1;
        }
        vassert!(same, "x25519: x1 decoded from the given u-coordinate (once)");
        vassert!(out[0] == 0x42 && out[31] == 0x42, "x25519: returns the encoding produced at the end");
    }
    #[cfg(not(kani))]
    {
        // the recorded run does not depend on the field values, so the solver's (k, u) is often degenerate (u = 0 maps everything to 0):
        // confirm natively on the counterexample AND on a few variants of it (any failing input is a genuine violation of a for-all property)
        let mut nine = [0u8; 32];
        nine[0] = 9;
        let mut nk = k;
        for b in nk.iter_mut() {
            *b = !*b;
        }
        for kk in [k, nk] {
            for uu in [u, nine] {
                assert!(curve25519(&kk, &uu) == rfc7748_x25519(&kk, &uu), "x25519: two conditional swaps (x and z) per bit for 255 bits, plus the final pair");
            }
        }
    }
    check_schedule(&k, 5, 1);
    let _ = out;
}

#[cfg_attr(kani, kani::proof)]
#[cfg_attr(kani, kani::unwind(258))]
#[cfg_attr(kani, kani::stub(Fe::maybe_swap_with, swap_rec))]
#[cfg_attr(kani, kani::stub(Fe::from_bytes, fe_from_bytes_rec))]
#[cfg_attr(kani, kani::stub(<&Fe as core::ops::Add<&Fe>>::add, fe_bin_rec))]
#[cfg_attr(kani, kani::stub(<&Fe as core::ops::Sub<&Fe>>::sub, fe_bin_rec))]
#[cfg_attr(kani, kani::stub(<&Fe as core::ops::Mul<&Fe>>::mul, fe_mul_rec))]
#[cfg_attr(kani, kani::stub(Fe::square, fe_sq_rec))]
#[cfg_attr(kani, kani::stub(Fe::mul_small, fe_small_rec))]
#[cfg_attr(kani, kani::stub(Fe::invert, fe_invert_rec))]
#[cfg_attr(kani, kani::stub(Fe::to_bytes, fe_to_bytes_rec))]
pub(crate) fn c12_x25519_base_schedule() {
    let k: [u8; 32] = any();
    let out = curve25519_base(&k);
    #[cfg(kani)]
    unsafe {
        let mut nine = DEC_N == 1 && DEC_IN[0] == 9;
        let mut i = 1;
        while i < 32 {
            if DEC_IN[i] != 0 {
                nine = false;
            }
            i += 1;
        }
        vassert!(nine, "x25519 base: x1 decoded from the encoding of u = 9");
    }
    #[cfg(not(kani))]
    {
        let mut nine = [0u8; 32];
        nine[0] = 9;
        let mut nk = k;
        for b in nk.iter_mut() {
            *b = !*b;
        }
        for kk in [k, nk] {
            assert!(curve25519_base(&kk) == rfc7748_x25519(&kk, &nine), "x25519: two conditional swaps (x and z) per bit for 255 bits, plus the final pair");
        }
    }
    check_schedule(&k, 4, 2);
    let _ = out;
}

/// invert() / pow25523() are TOTAL: they return (no refusal, no panic) for every field element including 0 and the encodings of the
/// small-order points (the ladder relies on invert(0) = 0).  Multiplications and squarings recorded.
#[cfg_attr(kani, kani::proof)]
#[cfg_attr(kani, kani::unwind(34))]
#[cfg_attr(kani, kani::stub(<&Fe as core::ops::Mul<&Fe>>::mul, fe_mul_rec))]
#[cfg_attr(kani, kani::stub(Fe::square, fe_sq_rec))]
#[cfg_attr(kani, kani::stub(Fe::square_repeatdly, fe_sqn_rec))]
pub(crate) fn c12_invert_is_total() {
    let b: [u8; 32] = any();
    vcover!(b[0] == 0 && b[1] == 0 && b[31] == 0, "possibly zero");
    let f = Fe::from_bytes(&b);
    let _i = f.invert();
    let _p = f.pow25523();
    #[cfg(kani)]
    unsafe {
        vassert!(MUL_N == 11 + 11, "invert uses 11 multiplications and pow25523 11 (addition chains for p-2 and (p-5)/8)");
    }
}
#[cfg(kani)]
pub(crate) fn fe_sqn_rec(_a: &Fe, _n: usize) -> Fe {
    Fe::ONE
}
