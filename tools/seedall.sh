#!/bin/bash
# tools/seedall.sh <root dir with A/ B/ ...> <Cnn> [also-check Cmm ...] — confirm each seeded change and run the check(s) against it
R=$(readlink -f "$1"); shift
mkdir -p /tmp/seedlogs
for d in $R/*/; do
  [ -f $d/patch.diff ] || continue
  n=$(basename $R)-$(basename $d)
  echo "=== $n"
  /verif/tools/seedtest.sh $d 2>&1 | tail -8
  for ID in "$@"; do /verif/tools/seedcheck.sh $d $ID 2>&1 | tail -12; done
done
