// C06 / C07 — ChaCha20-Poly1305 (src/chacha20poly1305.rs; child module of crate::chacha20poly1305).
//
// The AEAD layer only SEQUENCES two primitives: the stream cipher (C03/C04) and Poly1305 (C05).  Under Kani the
// primitives' entry points are replaced by loop-free recorders that log an event (kind, buffer addresses, lengths,
// first 16 bytes for short MAC inputs); each harness runs ONE API operation from an ARBITRARY context and asserts
// that the event sequence is exactly the one RFC 8439 2.8 prescribes:
//     mac_data = aad | pad16(aad) | ciphertext | pad16(ciphertext) | le64(len(aad)) | le64(len(ciphertext))
//     otk = first 32 bytes of keystream block 0, data encrypted from block 1,
//     encrypt: cipher THEN mac over the output;  decrypt: mac over the input THEN cipher.
// Natively (replay of a counterexample) the real primitives run and the composed claim is asserted instead: the
// resulting context / outputs equal those of the specification's sequence of primitive calls executed on a clone.
#![allow(dead_code, unused_imports, missing_docs)]
use super::*;
use crate::chacha::verif_chacha::{spec_init, words_eq};
use crate::chacha20::verif_ctx::{chacha_parts, mk_chacha};
use crate::poly1305::verif_poly as vp;
use crate::verif_lib::*;

// ---------------------------------------------------------------- event log
pub(crate) const K_MAC_INPUT: u8 = 1;
pub(crate) const K_PROCESS_MUT: u8 = 2;
pub(crate) const K_PROCESS: u8 = 3;
pub(crate) const K_RAW_RESULT: u8 = 4;
#[derive(Clone, Copy)]
pub(crate) struct Ev {
    pub kind: u8,
    pub p1: usize,
    pub len1: usize,
    pub p2: usize,
    pub len2: usize,
    pub head: [u8; 16],
}
pub(crate) const NE: usize = 8;
const EV0: Ev = Ev { kind: 0, p1: 0, len1: 0, p2: 0, len2: 0, head: [0u8; 16] };
pub(crate) static mut EV: [Ev; NE] = [EV0; NE];
pub(crate) static mut EN: usize = 0;
pub(crate) static mut TAGV: [u8; 16] = [0u8; 16];
pub(crate) static mut OTK: [u8; 64] = [0u8; 64];

#[cfg(kani)]
fn push(e: Ev) {
    unsafe {
        if EN < NE {
            EV[EN] = e;
        }
        EN += 1;
    }
}
#[cfg(kani)]
pub(crate) fn mac_input_rec(_p: &mut Poly1305, data: &[u8]) {
    let mut head = [0u8; 16];
    let mut i = 0;
    while i < 16 {
        if i < data.len() {
            head[i] = data[i];
        }
        i += 1;
    }
    push(Ev { kind: K_MAC_INPUT, p1: data.as_ptr() as usize, len1: data.len(), p2: 0, len2: 0, head });
}
#[cfg(kani)]
pub(crate) fn mac_raw_result_rec(_p: &mut Poly1305, output: &mut [u8]) {
    assert!(output.len() >= 16);
    let t: [u8; 16] = kani::any();
    unsafe {
        TAGV = t;
    }
    let mut i = 0;
    while i < 16 {
        output[i] = t[i];
        i += 1;
    }
    push(Ev { kind: K_RAW_RESULT, p1: output.as_ptr() as usize, len1: output.len(), p2: 0, len2: 0, head: [0u8; 16] });
}
#[cfg(kani)]
pub(crate) fn process_mut_rec<const ROUNDS: usize>(_c: &mut ChaCha<ROUNDS>, data: &mut [u8]) {
    push(Ev { kind: K_PROCESS_MUT, p1: data.as_ptr() as usize, len1: data.len(), p2: 0, len2: 0, head: [0u8; 16] });
}
#[cfg(kani)]
pub(crate) fn process_rec<const ROUNDS: usize>(_c: &mut ChaCha<ROUNDS>, input: &[u8], output: &mut [u8]) {
    assert!(input.len() == output.len());
    push(Ev { kind: K_PROCESS, p1: input.as_ptr() as usize, len1: input.len(), p2: output.as_ptr() as usize, len2: output.len(), head: [0u8; 16] });
}
/// model of process() for Context::new: a fresh cipher (nothing cached) asked for 64 bytes of keystream over zeros:
/// writes an arbitrary block (logged as OTK) and leaves the cipher at the next block with nothing cached (C04 step lemma)
#[cfg(kani)]
pub(crate) fn process_new_rec<const ROUNDS: usize>(c: &mut ChaCha<ROUNDS>, input: &[u8], output: &mut [u8]) {
    assert!(input.len() == output.len());
    let (w, _cached, off) = chacha_parts(c);
    let mut zero = true;
    let mut i = 0;
    while i < 64 {
        if i < input.len() && input[i] != 0 {
            zero = false;
        }
        i += 1;
    }
    let blk: [u8; 64] = kani::any();
    unsafe {
        OTK = blk;
    }
    push(Ev { kind: K_PROCESS, p1: input.as_ptr() as usize, len1: input.len(), p2: if zero && off == 64 { 1 } else { 0 }, len2: output.len(), head: [0u8; 16] });
    let mut i = 0;
    while i < 64 {
        if i < output.len() {
            output[i] = blk[i];
        }
        i += 1;
    }
    let mut nw = w;
    nw[12] = w[12].wrapping_add(1);
    *c = mk_chacha::<ROUNDS>(nw, blk, 64);
}

// ---------------------------------------------------------------- arbitrary context
struct ArbCtx {
    w: [u32; 16],
    cached: [u8; 64],
    offset: usize,
    r: [u32; 5],
    h: [u32; 5],
    pad: [u32; 4],
    leftover: usize,
    buffer: [u8; 16],
    aad_len: u64,
    data_len: u64,
}
fn arb_ctx() -> ArbCtx {
    let a = ArbCtx { w: any(), cached: any(), offset: any(), r: any(), h: any(), pad: any(), leftover: any(), buffer: any(), aad_len: any(), data_len: any() };
    assume(a.offset <= 64 && a.leftover < 16);
    vp::assume_r(&a.r);
    vp::assume_ih(&a.h);
    // domain: total lengths stay below 2^64 (RFC 8439 limits are far lower); keeps `+=` on the u64 counters in range
    assume(a.aad_len < (1 << 62) && a.data_len < (1 << 62));
    a
}
fn build(a: &ArbCtx) -> Context<2> {
    Context { cipher: mk_chacha::<2>(a.w, a.cached, a.offset), mac: vp::mk(a.r, a.h, a.pad, a.leftover, a.buffer, false), aad_len: a.aad_len, data_len: a.data_len }
}
#[cfg(not(kani))]
fn same_ctx(x: &Context<2>, y: &Context<2>) -> bool {
    let (a, b) = (chacha_parts(&x.cipher), chacha_parts(&y.cipher));
    let (p, q) = (vp::parts(&x.mac), vp::parts(&y.mac));
    a.0 == b.0 && a.1 == b.1 && a.2 == b.2 && p.1 == q.1 && p.3 == q.3 && p.4[..p.3] == q.4[..q.3] && p.5 == q.5 && x.aad_len == y.aad_len && x.data_len == y.data_len
}
fn pad_len(n: u64) -> usize {
    ((16 - (n & 15)) & 15) as usize
}
fn le64(v: u64, i: usize) -> u8 {
    (v >> (8 * i)) as u8
}

// ---------------------------------------------------------------- Context::new
fn case_new<const KL: usize>() {
    let key: [u8; KL] = any();
    let nonce: [u8; 12] = any();
    let c = Context::<8>::new(&key, &nonce);
    let (w, _cached, off) = chacha_parts(&c.cipher);
    let mut exp = spec_init(&key, &nonce);
    exp[12] = 1;
    vassert!(words_eq(&w, &exp), "Context::new: cipher keyed with (key, nonce) and positioned at block 1");
    vassert!(off == 64, "Context::new: no keystream of block 0 left cached for the data");
    vassert!(c.aad_len == 0 && c.data_len == 0, "Context::new: length counters zero");
    #[cfg(kani)]
    unsafe {
        vassert!(EN == 1 && EV[0].kind == K_PROCESS && EV[0].len1 == 64 && EV[0].len2 == 64 && EV[0].p2 == 1, "Context::new: exactly one cipher call: 64 zero bytes through the fresh cipher (block 0)");
        let mut k32 = [0u8; 32];
        let mut i = 0;
        while i < 32 {
            k32[i] = OTK[i];
            i += 1;
        }
        let m = Poly1305::new(&k32);
        let (r, h, pad, lo, _b, fin) = vp::parts(&m);
        let (r2, h2, pad2, lo2, _b2, fin2) = vp::parts(&c.mac);
        let mut i = 0;
        while i < 5 {
            vassert!(r[i] == r2[i] && h[i] == h2[i], "Context::new: one-time MAC key = first 32 bytes of keystream block 0");
            i += 1;
        }
        let mut i = 0;
        while i < 4 {
            vassert!(pad[i] == pad2[i], "Context::new: one-time MAC key = first 32 bytes of keystream block 0");
            i += 1;
        }
        vassert!(lo == lo2 && fin == fin2, "Context::new: MAC freshly keyed");
    }
    #[cfg(not(kani))]
    {
        let mut ks = ChaCha::<8>::new(&key, &nonce);
        let mut blk = [0u8; 64];
        ks.process_mut(&mut blk);
        let mut k32 = [0u8; 32];
        k32.copy_from_slice(&blk[..32]);
        let m = Poly1305::new(&k32);
        assert!(vp::parts(&m).0 == vp::parts(&c.mac).0 && vp::parts(&m).2 == vp::parts(&c.mac).2, "Context::new: one-time MAC key = first 32 bytes of keystream block 0");
    }
}
#[cfg_attr(kani, kani::proof)]
#[cfg_attr(kani, kani::unwind(66))]
#[cfg_attr(kani, kani::stub(ChaCha::process, process_new_rec))]
pub(crate) fn c06_new_k32() {
    case_new::<32>();
}
#[cfg_attr(kani, kani::proof)]
#[cfg_attr(kani, kani::unwind(66))]
#[cfg_attr(kani, kani::stub(ChaCha::process, process_new_rec))]
pub(crate) fn c06_new_k16() {
    case_new::<16>();
}

// ---------------------------------------------------------------- add_data / phase change
#[cfg_attr(kani, kani::proof)]
#[cfg_attr(kani, kani::unwind(18))]
#[cfg_attr(kani, kani::stub(<Poly1305 as Mac>::input, mac_input_rec))]
pub(crate) fn c06_add_data_step() {
    let a = arb_ctx();
    let aad = Bytes::<40>::any();
    vcover!(aad.len == 0, "empty AAD piece");
    vcover!(aad.len == 40, "longest AAD piece");
    let mut c = build(&a);
    c.add_data(aad.get());
    vassert!(c.aad_len == a.aad_len + aad.len as u64 && c.data_len == a.data_len, "add_data: aad_len += piece length");
    #[cfg(kani)]
    unsafe {
        vassert!(EN == 1 && EV[0].kind == K_MAC_INPUT && EV[0].p1 == aad.buf.as_ptr() as usize && EV[0].len1 == aad.len, "add_data: the piece, whole and unmodified, goes to the MAC (once)");
    }
    #[cfg(not(kani))]
    {
        let mut s = build(&a);
        s.mac.input(aad.get());
        s.aad_len += aad.len as u64;
        assert!(same_ctx(&c, &s), "add_data: the piece, whole and unmodified, goes to the MAC (once)");
    }
}

fn case_phase(enc: bool) {
    let a = arb_ctx();
    vcover!(a.aad_len & 15 == 0, "AAD length multiple of 16: no padding");
    vcover!(a.aad_len & 15 == 1, "15 bytes of padding");
    vcover!(a.aad_len & 15 == 15, "1 byte of padding");
    let c = build(&a);
    let inner = if enc { c.to_encryption().0 } else { c.to_decryption().0 };
    let pl = pad_len(a.aad_len);
    vassert!(inner.aad_len == a.aad_len && inner.data_len == a.data_len, "to_encryption/to_decryption: counters unchanged");
    #[cfg(kani)]
    unsafe {
        if pl == 0 {
            vassert!(EN == 0, "pad16(aad): nothing MACed when the AAD length is a multiple of 16");
        } else {
            vassert!(EN == 1 && EV[0].kind == K_MAC_INPUT && EV[0].len1 == pl, "pad16(aad): 16 - (aad_len mod 16) bytes MACed");
            let mut i = 0;
            while i < 16 {
                vassert!(EV[0].head[i] == 0, "pad16(aad): padding bytes are zero");
                i += 1;
            }
        }
    }
    #[cfg(not(kani))]
    {
        let mut s = build(&a);
        s.mac.input(&[0u8; 16][..pl]);
        assert!(same_ctx(&inner, &s), "pad16(aad): 16 - (aad_len mod 16) bytes MACed");
    }
}
#[cfg_attr(kani, kani::proof)]
#[cfg_attr(kani, kani::unwind(18))]
#[cfg_attr(kani, kani::stub(<Poly1305 as Mac>::input, mac_input_rec))]
pub(crate) fn c06_to_encryption_pads_aad() {
    case_phase(true);
}
#[cfg_attr(kani, kani::proof)]
#[cfg_attr(kani, kani::unwind(18))]
#[cfg_attr(kani, kani::stub(<Poly1305 as Mac>::input, mac_input_rec))]
pub(crate) fn c06_to_decryption_pads_aad() {
    case_phase(false);
}

// ---------------------------------------------------------------- data steps
/// which: 0 encrypt_mut, 1 encrypt, 2 decrypt_mut, 3 decrypt
fn case_data_step(which: u8) {
    let a = arb_ctx();
    let data = Bytes::<40>::any();
    let len = data.len;
    vcover!(len == 0, "empty piece");
    vcover!(len == 40, "longest piece");
    let mut buf = data.buf;
    let mut out = [0u8; 40];
    let c = build(&a);
    let fin: Context<2>;
    match which {
        0 => {
            let mut e = ContextEncryption(c);
            e.encrypt_mut(&mut buf[..len]);
            fin = e.0;
        }
        1 => {
            let mut e = ContextEncryption(c);
            e.encrypt(&data.buf[..len], &mut out[..len]);
            fin = e.0;
        }
        2 => {
            let mut d = ContextDecryption(c);
            d.decrypt_mut(&mut buf[..len]);
            fin = d.0;
        }
        _ => {
            let mut d = ContextDecryption(c);
            d.decrypt(&data.buf[..len], &mut out[..len]);
            fin = d.0;
        }
    }
    vassert!(fin.data_len == a.data_len + len as u64 && fin.aad_len == a.aad_len, "data step: data_len += piece length");
    #[cfg(kani)]
    unsafe {
        let (ib, ob, db) = (data.buf.as_ptr() as usize, out.as_ptr() as usize, buf.as_ptr() as usize);
        vassert!(EN == 2, "data step: exactly one cipher call and one MAC call");
        match which {
            0 => {
                vassert!(EV[0].kind == K_PROCESS_MUT && EV[0].p1 == db && EV[0].len1 == len, "encrypt_mut: cipher over the whole buffer first");
                vassert!(EV[1].kind == K_MAC_INPUT && EV[1].p1 == db && EV[1].len1 == len, "encrypt_mut: then MAC over the (now encrypted) buffer");
            }
            1 => {
                vassert!(EV[0].kind == K_PROCESS && EV[0].p1 == ib && EV[0].len1 == len && EV[0].p2 == ob && EV[0].len2 == len, "encrypt: cipher input -> output first");
                vassert!(EV[1].kind == K_MAC_INPUT && EV[1].p1 == ob && EV[1].len1 == len, "encrypt: then MAC over the ciphertext in the output buffer");
            }
            2 => {
                vassert!(EV[0].kind == K_MAC_INPUT && EV[0].p1 == db && EV[0].len1 == len, "decrypt_mut: MAC over the received ciphertext first");
                vassert!(EV[1].kind == K_PROCESS_MUT && EV[1].p1 == db && EV[1].len1 == len, "decrypt_mut: then cipher over the buffer");
            }
            _ => {
                vassert!(EV[0].kind == K_MAC_INPUT && EV[0].p1 == ib && EV[0].len1 == len, "decrypt: MAC over the received ciphertext (input) first");
                vassert!(EV[1].kind == K_PROCESS && EV[1].p1 == ib && EV[1].len1 == len && EV[1].p2 == ob && EV[1].len2 == len, "decrypt: then cipher input -> output");
            }
        }
    }
    #[cfg(not(kani))]
    {
        // specification sequence on a clone, with the real primitives
        let mut s = build(&a);
        let mut sb = data.buf;
        let encrypting = which < 2;
        if !encrypting {
            s.mac.input(&sb[..len]);
        }
        s.cipher.process_mut(&mut sb[..len]);
        if encrypting {
            s.mac.input(&sb[..len]);
        }
        s.data_len += len as u64;
        let got = if which == 0 || which == 2 { &buf } else { &out };
        assert!(got[..len] == sb[..len], "data step: exactly one cipher call and one MAC call");
        assert!(same_ctx(&fin, &s), "data step: exactly one cipher call and one MAC call");
    }
}
#[cfg_attr(kani, kani::proof)]
#[cfg_attr(kani, kani::unwind(18))]
#[cfg_attr(kani, kani::stub(<Poly1305 as Mac>::input, mac_input_rec))]
#[cfg_attr(kani, kani::stub(ChaCha::process_mut, process_mut_rec))]
#[cfg_attr(kani, kani::stub(ChaCha::process, process_rec))]
pub(crate) fn c06_encrypt_mut_step() {
    case_data_step(0);
}
#[cfg_attr(kani, kani::proof)]
#[cfg_attr(kani, kani::unwind(18))]
#[cfg_attr(kani, kani::stub(<Poly1305 as Mac>::input, mac_input_rec))]
#[cfg_attr(kani, kani::stub(ChaCha::process_mut, process_mut_rec))]
#[cfg_attr(kani, kani::stub(ChaCha::process, process_rec))]
pub(crate) fn c06_encrypt_step() {
    case_data_step(1);
}
#[cfg_attr(kani, kani::proof)]
#[cfg_attr(kani, kani::unwind(18))]
#[cfg_attr(kani, kani::stub(<Poly1305 as Mac>::input, mac_input_rec))]
#[cfg_attr(kani, kani::stub(ChaCha::process_mut, process_mut_rec))]
#[cfg_attr(kani, kani::stub(ChaCha::process, process_rec))]
pub(crate) fn c06_decrypt_mut_step() {
    case_data_step(2);
}
#[cfg_attr(kani, kani::proof)]
#[cfg_attr(kani, kani::unwind(18))]
#[cfg_attr(kani, kani::stub(<Poly1305 as Mac>::input, mac_input_rec))]
#[cfg_attr(kani, kani::stub(ChaCha::process_mut, process_mut_rec))]
#[cfg_attr(kani, kani::stub(ChaCha::process, process_rec))]
pub(crate) fn c06_decrypt_step() {
    case_data_step(3);
}

// ---------------------------------------------------------------- finalize: trailer and tag
/// events of finalize_raw from an arbitrary context: [pad16(data)] , 16-byte trailer le64(aad_len)|le64(data_len), raw_result
#[cfg(kani)]
unsafe fn check_finalize_events(first: usize, a_aad: u64, a_data: u64) -> usize {
    let pl = pad_len(a_data);
    let mut k = first;
    if pl != 0 {
        vassert!(EN > k && EV[k].kind == K_MAC_INPUT && EV[k].len1 == pl, "finalize: pad16(ciphertext) = 16 - (data_len mod 16) bytes MACed");
        let mut i = 0;
        while i < 16 {
            vassert!(EV[k].head[i] == 0, "finalize: ciphertext padding bytes are zero");
            i += 1;
        }
        k += 1;
    }
    vassert!(EN == k + 2, "finalize: then exactly the length trailer and the tag extraction");
    vassert!(EV[k].kind == K_MAC_INPUT && EV[k].len1 == 16, "finalize: 16-byte length trailer MACed");
    let mut i = 0;
    while i < 8 {
        vassert!(EV[k].head[i] == le64(a_aad, i), "finalize: trailer bytes 0..8 = little-endian AAD length");
        vassert!(EV[k].head[8 + i] == le64(a_data, i), "finalize: trailer bytes 8..16 = little-endian ciphertext length");
        i += 1;
    }
    vassert!(EV[k + 1].kind == K_RAW_RESULT && EV[k + 1].len1 >= 16, "finalize: tag read from the MAC");
    k + 2
}
#[cfg(not(kani))]
fn spec_finalize(a: &ArbCtx) -> [u8; 16] {
    let mut s = build(a);
    s.mac.input(&[0u8; 16][..pad_len(a.data_len)]);
    let mut t = [0u8; 16];
    for i in 0..8 {
        t[i] = le64(a.aad_len, i);
        t[8 + i] = le64(a.data_len, i);
    }
    s.mac.input(&t);
    let mut tag = [0u8; 16];
    s.mac.raw_result(&mut tag);
    tag
}
#[cfg_attr(kani, kani::proof)]
#[cfg_attr(kani, kani::unwind(18))]
#[cfg_attr(kani, kani::stub(<Poly1305 as Mac>::input, mac_input_rec))]
#[cfg_attr(kani, kani::stub(<Poly1305 as Mac>::raw_result, mac_raw_result_rec))]
pub(crate) fn c06_encryption_finalize_trailer() {
    let a = arb_ctx();
    vcover!(a.data_len & 15 == 0, "ciphertext length multiple of 16: no padding");
    vcover!(a.data_len & 15 == 7, "9 bytes of padding");
    vcover!(a.aad_len == 0 && a.data_len == 0, "empty AAD and empty message");
    vcover!(a.aad_len > (1 << 32) && a.data_len > (1 << 32), "lengths above 2^32");
    let Tag(tag) = ContextEncryption(build(&a)).finalize();
    #[cfg(kani)]
    unsafe {
        check_finalize_events(0, a.aad_len, a.data_len);
        let mut i = 0;
        while i < 16 {
            vassert!(tag[i] == TAGV[i], "finalize: the returned tag is the MAC output, all 16 bytes");
            i += 1;
        }
    }
    #[cfg(not(kani))]
    assert!(tag == spec_finalize(&a), "finalize: the returned tag is the MAC output, all 16 bytes");
}

// ---------------------------------------------------------------- C07: verdict
/// ContextDecryption::finalize(expected) == Match  <=>  expected == tag computed over (aad, received ciphertext), all 16 bytes
#[cfg_attr(kani, kani::proof)]
#[cfg_attr(kani, kani::unwind(18))]
#[cfg_attr(kani, kani::stub(<Poly1305 as Mac>::input, mac_input_rec))]
#[cfg_attr(kani, kani::stub(<Poly1305 as Mac>::raw_result, mac_raw_result_rec))]
pub(crate) fn c07_decryption_finalize_verdict() {
    let a = arb_ctx();
    let supplied: [u8; 16] = any();
    let verdict = ContextDecryption(build(&a)).finalize(&Tag(supplied));
    #[cfg(kani)]
    let computed = unsafe {
        check_finalize_events(0, a.aad_len, a.data_len);
        TAGV
    };
    #[cfg(not(kani))]
    let computed = spec_finalize(&a);
    let mut equal = true;
    let mut i = 0;
    while i < 16 {
        if supplied[i] != computed[i] {
            equal = false;
        }
        i += 1;
    }
    vcover!(equal, "tags equal");
    vcover!(!equal && supplied[15] != computed[15] && supplied[0] == computed[0], "tags differ only late");
    vcover!(supplied[3] ^ computed[3] == supplied[11] ^ computed[11] && supplied[3] != computed[3], "same difference in two bytes 8 apart");
    vassert!((verdict == DecryptionResult::Match) == equal, "ContextDecryption::finalize: Match exactly when all 16 tag bytes are equal");
}

// ---------------------------------------------------------------- one-shot interface == incremental sequence
struct OneShot {
    a: ArbCtx,
    finished: bool,
}
fn case_oneshot_encrypt() {
    let a = arb_ctx();
    let data = Bytes::<24>::any();
    let len = data.len;
    let mut out = [0u8; 24];
    let mut tag = [0u8; 16];
    let mut o = ChaChaPoly1305::<2> { finished: false, context: build(&a) };
    o.encrypt(&data.buf[..len], &mut out[..len], &mut tag);
    vassert!(o.finished, "one-shot encrypt: object marked used");
    #[cfg(kani)]
    unsafe {
        let pl = pad_len(a.aad_len);
        let mut k = 0;
        if pl != 0 {
            vassert!(EN > 0 && EV[0].kind == K_MAC_INPUT && EV[0].len1 == pl, "one-shot encrypt: pad16(aad) first");
            k = 1;
        }
        vassert!(EN > k + 1, "one-shot encrypt: cipher and MAC calls present");
        vassert!(EV[k].kind == K_PROCESS && EV[k].p1 == data.buf.as_ptr() as usize && EV[k].len1 == len && EV[k].p2 == out.as_ptr() as usize && EV[k].len2 == len, "one-shot encrypt: cipher input -> output");
        vassert!(EV[k + 1].kind == K_MAC_INPUT && EV[k + 1].p1 == out.as_ptr() as usize && EV[k + 1].len1 == len, "one-shot encrypt: MAC over the ciphertext");
        check_finalize_events(k + 2, a.aad_len, a.data_len + len as u64);
        let mut i = 0;
        while i < 16 {
            vassert!(tag[i] == TAGV[i], "one-shot encrypt: out_tag = MAC output, all 16 bytes");
            i += 1;
        }
    }
    #[cfg(not(kani))]
    {
        let mut e = build(&a).to_encryption();
        let mut o2 = [0u8; 24];
        e.encrypt(&data.buf[..len], &mut o2[..len]);
        let Tag(t2) = e.finalize();
        assert!(o2 == out && t2 == tag, "one-shot encrypt: out_tag = MAC output, all 16 bytes");
    }
}
#[cfg_attr(kani, kani::proof)]
#[cfg_attr(kani, kani::unwind(18))]
#[cfg_attr(kani, kani::stub(<Poly1305 as Mac>::input, mac_input_rec))]
#[cfg_attr(kani, kani::stub(<Poly1305 as Mac>::raw_result, mac_raw_result_rec))]
#[cfg_attr(kani, kani::stub(ChaCha::process, process_rec))]
pub(crate) fn c06_oneshot_encrypt_is_incremental_sequence() {
    case_oneshot_encrypt();
}

/// one-shot decrypt: MAC over the received ciphertext, then cipher; returns true exactly when the supplied tag equals the MAC output
#[cfg_attr(kani, kani::proof)]
#[cfg_attr(kani, kani::unwind(18))]
#[cfg_attr(kani, kani::stub(<Poly1305 as Mac>::input, mac_input_rec))]
#[cfg_attr(kani, kani::stub(<Poly1305 as Mac>::raw_result, mac_raw_result_rec))]
#[cfg_attr(kani, kani::stub(ChaCha::process, process_rec))]
pub(crate) fn c07_oneshot_decrypt_verdict() {
    let a = arb_ctx();
    let data = Bytes::<24>::any();
    let len = data.len;
    let supplied: [u8; 16] = any();
    let mut out = [0u8; 24];
    let mut o = ChaChaPoly1305::<2> { finished: false, context: build(&a) };
    let ok = o.decrypt(&data.buf[..len], &mut out[..len], &supplied);
    vassert!(o.finished, "one-shot decrypt: object marked used");
    #[cfg(kani)]
    let computed = unsafe {
        let pl = pad_len(a.aad_len);
        let mut k = 0;
        if pl != 0 {
            vassert!(EN > 0 && EV[0].kind == K_MAC_INPUT && EV[0].len1 == pl, "one-shot decrypt: pad16(aad) first");
            k = 1;
        }
        vassert!(EN > k + 1, "one-shot decrypt: MAC and cipher calls present");
        vassert!(EV[k].kind == K_MAC_INPUT && EV[k].p1 == data.buf.as_ptr() as usize && EV[k].len1 == len, "one-shot decrypt: MAC over the received ciphertext");
        vassert!(EV[k + 1].kind == K_PROCESS && EV[k + 1].p1 == data.buf.as_ptr() as usize && EV[k + 1].len1 == len && EV[k + 1].p2 == out.as_ptr() as usize && EV[k + 1].len2 == len, "one-shot decrypt: cipher input -> output");
        check_finalize_events(k + 2, a.aad_len, a.data_len + len as u64);
        TAGV
    };
    #[cfg(not(kani))]
    let computed = {
        let mut d = build(&a).to_decryption();
        let mut o2 = [0u8; 24];
        d.decrypt(&data.buf[..len], &mut o2[..len]);
        assert!(o2 == out, "one-shot decrypt: cipher input -> output");
        finalize_raw(&mut d.0)
    };
    let mut equal = true;
    let mut i = 0;
    while i < 16 {
        if supplied[i] != computed[i] {
            equal = false;
        }
        i += 1;
    }
    vcover!(equal, "tags equal");
    vcover!(!equal, "tags differ");
    vassert!(ok == equal, "one-shot decrypt: returns true exactly when all 16 tag bytes are equal");
}

/// ChaChaPoly1305::new == Context::new followed by add_data(aad)
#[cfg_attr(kani, kani::proof)]
#[cfg_attr(kani, kani::unwind(66))]
#[cfg_attr(kani, kani::stub(<Poly1305 as Mac>::input, mac_input_rec))]
#[cfg_attr(kani, kani::stub(ChaCha::process, process_new_rec))]
pub(crate) fn c06_oneshot_new() {
    let key: [u8; 32] = any();
    let nonce: [u8; 12] = any();
    let aad = Bytes::<20>::any();
    let o = ChaChaPoly1305::<8>::new(&key, &nonce, aad.get());
    vassert!(!o.finished && o.context.aad_len == aad.len as u64 && o.context.data_len == 0, "one-shot new: fresh, AAD length recorded");
    let (w, _c, off) = chacha_parts(&o.context.cipher);
    let mut exp = spec_init(&key, &nonce);
    exp[12] = 1;
    vassert!(words_eq(&w, &exp) && off == 64, "one-shot new: cipher at block 1");
    #[cfg(kani)]
    unsafe {
        vassert!(EN == 2 && EV[0].kind == K_PROCESS && EV[1].kind == K_MAC_INPUT && EV[1].p1 == aad.buf.as_ptr() as usize && EV[1].len1 == aad.len, "one-shot new: key derivation then the whole AAD to the MAC");
    }
}
