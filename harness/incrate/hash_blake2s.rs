// C01 / C02 / C20 — BLAKE2s glue of src/hashing/blake2s.rs (child module of crate::hashing::blake2s): Context<BITS>, ContextDyn.
// (derived from hash_blake2s.rs by substitution: word u32, block 64, max output/key 32.)
//
// Specification (RFC 7693 2.5, 3.2, 3.3): h0 = IV ^ (0x0101kknn in word 0); if kk > 0 the key, zero-padded to one block, is
// the first block of the stream; every block but the last is compressed with t = bytes so far (multiple of the block size)
// and f = false; the last block (zero-padded; the only, all-zero block for the empty unkeyed message; a FULL last block is
// NOT compressed before it is known to be the last) with t = total byte count and f = true; digest = first nn bytes of
// the little-endian serialisation of h.
// Abstract state: alpha = (h, t, pending = buf[..buflen]), invariant buflen <= block size.  One operation from an
// ARBITRARY state per harness; EngineS::compress is replaced by a loop-free recorder (h in, t, last flag, the block, h out
// = ARBITRARY), so the claims hold for every compression function.
// Counter: arbitrary two-word counter below the algorithm's limit (t[1] < MAX): steps across the wrap of the low word are included and
// the carry is asserted.  (Before /repo commit 3124416 `increment_counter` used `+=` and panicked there in checked builds:
// found by c20_hash_blake2s_increment_counter / _update_across_counter_wrap.)
#![allow(dead_code, unused_imports, unused_variables, unused_macros, missing_docs, static_mut_refs)]
use super::*;
use crate::hashing::verif_hash::*;
use crate::verif_lib::*;

pub(crate) type W = u32;
pub(crate) const BB: usize = 64;
pub(crate) const BBLOG: usize = 6;
pub(crate) const MAXOUT: usize = 32;
pub(crate) const MAXKEY: usize = 32;
pub(crate) const HBYTES: usize = 32;
/// RFC 7693 2.6: the IV of BLAKE2s is the IV of SHA-256
pub(crate) const SPEC_IV: [W; 8] = FIPS_SHA256_H0;

// ------------------------------------------------------------------------------------------------ recorder
pub(crate) const NL: usize = 3;
pub(crate) static mut C_N: usize = 0;
pub(crate) static mut C_LEN: [usize; NL] = [0; NL];
pub(crate) static mut C_T: [[W; 2]; NL] = [[0; 2]; NL];
pub(crate) static mut C_LAST: [bool; NL] = [false; NL];
pub(crate) static mut C_HIN: [[W; 8]; NL] = [[0; 8]; NL];
pub(crate) static mut C_HOUT: [[W; 8]; NL] = [[0; 8]; NL];
pub(crate) static mut C_BLK: [[u8; BB]; NL] = [[0u8; BB]; NL];
macro_rules! rec_at {
    ($k:expr, $e:ident, $buf:ident, $last:ident, $out:ident) => {{
        C_LEN[$k] = $buf.len();
        C_T[$k] = $e.t;
        C_LAST[$k] = $last == LastBlock::Yes;
        C_HIN[$k] = $e.h;
        C_HOUT[$k] = $out;
        if let Ok(a) = <&[u8; BB]>::try_from($buf) {
            C_BLK[$k] = *a;
        }
    }};
}
#[cfg(kani)]
pub(crate) fn compress_rec(e: &mut Engine, buf: &[u8], last: LastBlock) {
    let out: [W; 8] = kani::any();
    unsafe {
        if C_N == 0 {
            rec_at!(0, e, buf, last, out);
        } else if C_N == 1 {
            rec_at!(1, e, buf, last, out);
        } else if C_N == 2 {
            rec_at!(2, e, buf, last, out);
        }
        C_N += 1;
    }
    e.h = out;
}
/// same, but only the byte at position C_J (chosen by the harness) of the block is recorded: a block copy through a pointer
/// with symbolic offset costs one symbolic read per byte; the update step asserts one symbolic position
pub(crate) static mut C_J: usize = 0;
pub(crate) static mut C_BYTE: [u8; NL] = [0; NL];
#[cfg(kani)]
pub(crate) fn compress_rec_j(e: &mut Engine, buf: &[u8], last: LastBlock) {
    let out: [W; 8] = kani::any();
    unsafe {
        let b = if C_J < buf.len() { buf[C_J] } else { 0 };
        if C_N < NL {
            C_LEN[C_N] = buf.len();
            C_T[C_N] = e.t;
            C_LAST[C_N] = last == LastBlock::Yes;
            C_HIN[C_N] = e.h;
            C_HOUT[C_N] = out;
            C_BYTE[C_N] = b;
        }
        C_N += 1;
    }
    e.h = out;
}
fn c_reset() {
    unsafe {
        C_N = 0;
    }
}

fn eq8(a: &[W; 8], b: &[W; 8]) -> bool {
    let mut ok = true;
    let mut i = 0;
    while i < 8 {
        ok &= a[i] == b[i];
        i += 1;
    }
    ok
}
/// specification: the byte counter is ONE unsigned integer of two words (RFC 7693 3.2: t[0] low, t[1] high)
fn t_add(t: [W; 2], inc: usize) -> [W; 2] {
    let lo = t[0].wrapping_add(inc as W);
    let hi = if lo < inc as W { t[1].wrapping_add(1) } else { t[1] };
    [lo, hi]
}
/// little-endian serialisation of the chaining value (RFC 7693 3.3: "first nn bytes of little-endian h")
fn ser_le(h: &[W; 8]) -> [u8; HBYTES] {
    let mut o = [0u8; HBYTES];
    let wb = HBYTES / 8;
    let mut i = 0;
    while i < 8 {
        let mut j = 0;
        while j < wb {
            o[wb * i + j] = (h[i] >> (8 * j)) as u8;
            j += 1;
        }
        i += 1;
    }
    o
}
/// RFC 7693 2.5 / 3.3: parameter block word 0 = 0x0101kknn (fanout 1, depth 1, key length, digest length)
fn spec_h0(outlen: usize, keylen: usize) -> [W; 8] {
    let mut h = SPEC_IV;
    h[0] ^= 0x0101_0000 ^ ((keylen as W) << 8) ^ (outlen as W);
    h
}

// ------------------------------------------------------------------------------------------------ the two context types
pub(crate) trait Ctx2: Clone {
    fn mk(h: [W; 8], t: [W; 2], buf: [u8; BB], buflen: usize, outlen: usize) -> Self;
    fn outlen_of(outlen: usize) -> usize;
    fn new_keyed_(outlen: usize, key: &[u8]) -> Self;
    fn new_(outlen: usize) -> Self;
    fn h(&self) -> [W; 8];
    fn t(&self) -> [W; 2];
    fn buf(&self) -> [u8; BB];
    fn buflen(&self) -> usize;
    fn stored_outlen(&self, dflt: usize) -> usize;
    fn upd(self, x: &[u8]) -> Self;
    fn upd_mut(&mut self, x: &[u8]);
    fn fin_at(self, out: &mut [u8]);
    fn fin_reset_at(&mut self, out: &mut [u8]);
    fn fin_reset_key_at(&mut self, key: &[u8], out: &mut [u8]);
    fn rst(&mut self);
    fn rst_key(&mut self, key: &[u8]);
}
impl<const BITS: usize> Ctx2 for Context<BITS> {
    fn mk(h: [W; 8], t: [W; 2], buf: [u8; BB], buflen: usize, _outlen: usize) -> Self {
        Context { eng: Engine { h, t }, buf, buflen }
    }
    fn outlen_of(_outlen: usize) -> usize {
        (BITS + 7) / 8
    }
    fn new_keyed_(_outlen: usize, key: &[u8]) -> Self {
        Self::new_keyed(key)
    }
    fn new_(_outlen: usize) -> Self {
        Self::new()
    }
    fn h(&self) -> [W; 8] {
        self.eng.h
    }
    fn t(&self) -> [W; 2] {
        self.eng.t
    }
    fn buf(&self) -> [u8; BB] {
        self.buf
    }
    fn buflen(&self) -> usize {
        self.buflen
    }
    fn stored_outlen(&self, dflt: usize) -> usize {
        dflt
    }
    fn upd(self, x: &[u8]) -> Self {
        self.update(x)
    }
    fn upd_mut(&mut self, x: &[u8]) {
        self.update_mut(x)
    }
    fn fin_at(self, out: &mut [u8]) {
        self.finalize_at(out)
    }
    fn fin_reset_at(&mut self, out: &mut [u8]) {
        self.finalize_reset_at(out)
    }
    fn fin_reset_key_at(&mut self, key: &[u8], out: &mut [u8]) {
        self.finalize_reset_with_key_at(key, out)
    }
    fn rst(&mut self) {
        self.reset()
    }
    fn rst_key(&mut self, key: &[u8]) {
        self.reset_with_key(key)
    }
}
impl Ctx2 for ContextDyn {
    fn mk(h: [W; 8], t: [W; 2], buf: [u8; BB], buflen: usize, outlen: usize) -> Self {
        ContextDyn { eng: Engine { h, t }, buf, buflen, outlen }
    }
    fn outlen_of(outlen: usize) -> usize {
        outlen
    }
    fn new_keyed_(outlen: usize, key: &[u8]) -> Self {
        Self::new_keyed(outlen, key)
    }
    fn new_(outlen: usize) -> Self {
        Self::new(outlen)
    }
    fn h(&self) -> [W; 8] {
        self.eng.h
    }
    fn t(&self) -> [W; 2] {
        self.eng.t
    }
    fn buf(&self) -> [u8; BB] {
        self.buf
    }
    fn buflen(&self) -> usize {
        self.buflen
    }
    fn stored_outlen(&self, _dflt: usize) -> usize {
        self.outlen
    }
    fn upd(self, x: &[u8]) -> Self {
        self.update(x)
    }
    fn upd_mut(&mut self, x: &[u8]) {
        self.update_mut(x)
    }
    fn fin_at(self, out: &mut [u8]) {
        self.finalize_at(out)
    }
    fn fin_reset_at(&mut self, out: &mut [u8]) {
        self.finalize_reset_at(out)
    }
    fn fin_reset_key_at(&mut self, key: &[u8], out: &mut [u8]) {
        self.finalize_reset_with_key_at(key, out)
    }
    fn rst(&mut self) {
        self.reset()
    }
    fn rst_key(&mut self, key: &[u8]) {
        self.reset_with_key(key)
    }
}

pub(crate) struct Arb {
    pub h: [W; 8],
    pub t: [W; 2],
    pub buf: [u8; BB],
    pub buflen: usize,
    pub outlen: usize,
}
/// an arbitrary context state (drawn in this order); outlen is only stored by ContextDyn
pub(crate) fn arb() -> Arb {
    let h: [W; 8] = any();
    let t: [W; 2] = any();
    let buf: [u8; BB] = any();
    let buflen: usize = any();
    let outlen: usize = any();
    assume(buflen <= BB && outlen >= 1 && outlen <= MAXOUT);
    assume(t[1] < W::MAX); // total length below the algorithm's limit of 2^(2w) bytes; the low word MAY wrap inside the step (carry asserted)
    Arb { h, t, buf, buflen, outlen }
}
fn mk<C: Ctx2>(a: &Arb) -> C {
    C::mk(a.h, a.t, a.buf, a.buflen, a.outlen)
}

/// alpha(c) == alpha(new_keyed(key)) for the given digest length: h = IV ^ parameter word, t = 0, pending = the key block (if any)
fn check_fresh<C: Ctx2>(c: &C, outlen: usize, key: &[u8; MAXKEY], keylen: usize) {
    vassert!(eq8(&c.h(), &spec_h0(outlen, keylen)), "fresh context: h == IV ^ 0x0101kknn (RFC 7693 2.5)");
    let t = c.t();
    vassert!(t[0] == 0 && t[1] == 0, "fresh context: byte counter 0");
    vassert!(c.buflen() == if keylen > 0 { BB } else { 0 }, "fresh context: the zero-padded key is one pending block; nothing pending without a key");
    vassert!(c.stored_outlen(outlen) == outlen, "fresh context: digest length kept");
    let b = c.buf();
    let mut j = 0;
    while j < BB {
        if keylen > 0 {
            let e = if j < keylen { key[j] } else { 0 };
            vassert!(b[j] == e, "fresh context: key block == key || zeros (no stale bytes)");
        }
        j += 1;
    }
}

// ------------------------------------------------------------------------------------------------ new / new_keyed
fn case_new_keyed<C: Ctx2>(outlen_fixed: Option<usize>) {
    let key: [u8; MAXKEY] = any();
    let keylen: usize = any();
    let o: usize = any();
    assume(keylen <= MAXKEY && o >= 1 && o <= MAXOUT);
    let outlen = match outlen_fixed {
        Some(x) => x,
        None => o,
    };
    vcover!(keylen == 0, "no key");
    vcover!(keylen == 1, "shortest key");
    vcover!(keylen == MAXKEY, "longest key");
    c_reset();
    let c = C::new_keyed_(outlen, &key[..keylen]);
    check_fresh(&c, outlen, &key, keylen);
    let n = C::new_(outlen);
    check_fresh(&n, outlen, &key, 0);
    #[cfg(kani)]
    unsafe {
        vassert!(C_N == 0, "new_keyed: the key block is pending, not compressed");
    }
}

// ------------------------------------------------------------------------------------------------ update step
fn case_update_step<C: Ctx2, const MAX: usize>() {
    case_update_step_fix::<C, MAX>(None);
}
/// `fix` = Some((pending bytes, input length)): the same step with a CONCRETE shape (contents, chaining value and counter stay symbolic)
fn case_update_step_fix<C: Ctx2, const MAX: usize>(fix: Option<(usize, usize)>) {
    let a = arb();
    let data = Bytes::<MAX>::any();
    let j: usize = any(); // "for every byte position": one symbolic position (see hash_fixedbuf.rs)
    assume(j < BB);
    step_body::<C, MAX>(a, data, j, fix);
}
fn step_body<C: Ctx2, const MAX: usize>(a0: Arb, d0: Bytes<MAX>, j: usize, fix: Option<(usize, usize)>) {
    let (a, data) = match fix {
        Some((bl, ln)) => (Arb { h: a0.h, t: a0.t, buf: a0.buf, buflen: bl, outlen: a0.outlen }, Bytes::<MAX> { buf: d0.buf, len: ln }),
        None => (a0, d0),
    };
    let len = data.len;
    let (buf, buflen) = (a.buf, a.buflen);
    let f = fix.is_some();
    vcover!(f || len == 0, "empty input");
    vcover!(f || (buflen > 0 && buflen + len == BB), "buffer becomes exactly full: nothing compressed yet");
    vcover!(f || (buflen == BB && len == 1), "full pending block is compressed only now");
    vcover!(f || buflen + len == 2 * BB + 1, "two blocks compressed, one byte pending");
    vcover!(buflen + len > BB && a.t[0] > W::MAX - (BB as W), "low counter word wraps inside the step");
    let mut c: C = mk(&a);
    c_reset();
    unsafe {
        C_J = j;
    }
    c.upd_mut(&data.buf[..len]);

    let total = buflen + len;
    let n = if total == 0 { 0 } else { (total - 1) >> BBLOG }; // all blocks but the (possibly full) last one
    let nlen = total - n * BB;
    vassert!(c.buflen() == nlen, "update: pending == everything after the compressed blocks (1..=block size bytes once anything was fed)");
    let nb = c.buf();
    if j < nlen {
        let q = n * BB + j;
        let s = if q < buflen { buf[q] } else { data.buf[q - buflen] };
        vassert!(nb[j] == s, "update: pending bytes == tail of pending ++ input");
    }
    let exp_t = t_add(a.t, n * BB);
    let ct = c.t();
    vassert!(ct[0] == exp_t[0] && ct[1] == exp_t[1], "update: byte counter advanced by one block per compression");
    #[cfg(kani)]
    unsafe {
        vassert!(C_N == n, "update: every complete block except the last one of pending ++ input is compressed");
        let mut hprev = a.h;
        let mut k = 0;
        while k < NL {
            if k < C_N {
                vassert!(eq8(&C_HIN[k], &hprev), "update: compressions are chained, starting from the current chaining value");
                hprev = C_HOUT[k];
                vassert!(C_LEN[k] == BB && !C_LAST[k], "update: full blocks, never flagged as last");
                let et = t_add(a.t, (k + 1) * BB);
                vassert!(C_T[k][0] == et[0] && C_T[k][1] == et[1], "update: counter passed to the k-th compression == bytes up to and including that block");
                let q = k * BB + j;
                let s = if q < buflen { buf[q] } else { data.buf[q - buflen] };
                vassert!(C_BYTE[k] == s, "update: k-th compressed block == k-th block of pending ++ input");
            }
            k += 1;
        }
        vassert!(eq8(&c.h(), &hprev), "update: chaining value is the result of the last compression (unchanged if none)");
    }
    #[cfg(not(kani))]
    {
        let mut e = Engine { h: a.h, t: a.t };
        for k in 0..n {
            let mut blk = [0u8; BB];
            for i in 0..BB {
                let q = k * BB + i;
                blk[i] = if q < buflen { buf[q] } else { data.buf[q - buflen] };
            }
            e.t = t_add(a.t, (k + 1) * BB);
            e.compress(&blk, LastBlock::No);
        }
        assert!(eq8(&c.h(), &e.h), "update: chaining value is the result of the last compression (unchanged if none)");
    }
}

// ------------------------------------------------------------------------------------------------ finalisation
/// what internal_final must have done; returns the expected digest bytes (first `outlen` are meaningful)
fn check_final(a: &Arb) -> [u8; HBYTES] {
    #[cfg(kani)]
    unsafe {
        vassert!(C_N == 1, "finalize: exactly one compression");
        vassert!(C_LAST[0] && C_LEN[0] == BB, "finalize: one full block, flagged as the last");
        let et = t_add(a.t, a.buflen);
        vassert!(C_T[0][0] == et[0] && C_T[0][1] == et[1], "finalize: counter == total number of bytes (compressed + pending)");
        vassert!(eq8(&C_HIN[0], &a.h), "finalize: starts from the current chaining value");
        let mut j = 0;
        while j < BB {
            let e = if j < a.buflen { a.buf[j] } else { 0 };
            vassert!(C_BLK[0][j] == e, "finalize: last block == pending bytes || zeros");
            j += 1;
        }
        ser_le(&C_HOUT[0])
    }
    #[cfg(not(kani))]
    {
        let mut e = Engine { h: a.h, t: t_add(a.t, a.buflen) };
        let mut blk = [0u8; BB];
        blk[..a.buflen].copy_from_slice(&a.buf[..a.buflen]);
        e.compress(&blk, LastBlock::Yes);
        ser_le(&e.h)
    }
}
fn check_digest(out: &[u8; MAXOUT], prior: &[u8; MAXOUT], outlen: usize, exp: &[u8; HBYTES]) {
    let mut i = 0;
    while i < MAXOUT {
        if i < outlen {
            vassert!(out[i] == exp[i], "finalize: digest == first nn bytes of the little-endian chaining value");
        } else {
            vassert!(out[i] == prior[i], "finalize: bytes beyond the digest untouched");
        }
        i += 1;
    }
}
fn final_covers(a: &Arb) {
    vcover!(a.buflen == 0, "nothing pending (empty unkeyed message): one all-zero block");
    vcover!(a.buflen == BB, "full pending block");
    vcover!(a.buflen == 1, "one pending byte");
    vcover!(a.buflen > 0 && a.t[0] > W::MAX - (a.buflen as W), "low counter word wraps in the final increment");
}
fn case_finalize_at<C: Ctx2>() {
    let a = arb();
    let prior: [u8; MAXOUT] = any();
    final_covers(&a);
    let outlen = C::outlen_of(a.outlen);
    let c: C = mk(&a);
    let mut out = prior;
    c_reset();
    c.fin_at(&mut out[..outlen]);
    let exp = check_final(&a);
    check_digest(&out, &prior, outlen, &exp);
}
fn case_finalize_reset_at<C: Ctx2>() {
    let a = arb();
    let prior: [u8; MAXOUT] = any();
    final_covers(&a);
    let outlen = C::outlen_of(a.outlen);
    let mut c: C = mk(&a);
    let mut out = prior;
    c_reset();
    c.fin_reset_at(&mut out[..outlen]);
    let exp = check_final(&a);
    check_digest(&out, &prior, outlen, &exp);
    check_fresh(&c, outlen, &[0u8; MAXKEY], 0);
}
fn case_finalize_reset_with_key_at<C: Ctx2>() {
    let a = arb();
    let prior: [u8; MAXOUT] = any();
    let key: [u8; MAXKEY] = any();
    let keylen: usize = any();
    assume(keylen <= MAXKEY);
    vcover!(keylen == 0, "empty key: unkeyed context");
    vcover!(keylen == MAXKEY && a.buflen == BB, "longest key after a full pending block");
    let outlen = C::outlen_of(a.outlen);
    let mut c: C = mk(&a);
    let mut out = prior;
    c_reset();
    c.fin_reset_key_at(&key[..keylen], &mut out[..outlen]);
    let exp = check_final(&a);
    check_digest(&out, &prior, outlen, &exp);
    check_fresh(&c, outlen, &key, keylen);
}
/// reset() == new(), reset_with_key(k) == new_keyed(k), from an arbitrary (also keyed, also full-buffer) state; clone copies alpha
fn case_reset_clone<C: Ctx2>() {
    let a = arb();
    let key: [u8; MAXKEY] = any();
    let keylen: usize = any();
    assume(keylen <= MAXKEY);
    vcover!(keylen == 0, "empty key: unkeyed context");
    vcover!(keylen == 1 && a.buflen == BB, "short key over a buffer full of stale bytes");
    let outlen = C::outlen_of(a.outlen);
    let mut c: C = mk(&a);
    let d = c.clone();
    let (db, dt) = (d.buf(), d.t());
    let mut same = eq8(&d.h(), &a.h) && dt[0] == a.t[0] && dt[1] == a.t[1] && d.buflen() == a.buflen && d.stored_outlen(outlen) == outlen;
    let mut j = 0;
    while j < BB {
        same &= db[j] == a.buf[j];
        j += 1;
    }
    vassert!(same, "clone: same chaining value, counter, pending bytes and digest length");
    c.rst();
    check_fresh(&c, outlen, &key, 0);
    let mut c: C = mk(&a);
    c.rst_key(&key[..keylen]);
    check_fresh(&c, outlen, &key, keylen);
}

// update(x) == { update_mut(x); self }: update_mut recorded (the model bumps buflen so that the returned context is
// recognisably the one that was fed)
pub(crate) static mut UM_N: usize = 0;
pub(crate) static mut UM_PTR: usize = 0;
pub(crate) static mut UM_LEN: usize = 0;
#[cfg(kani)]
fn update_mut_rec<const BITS: usize>(c: &mut Context<BITS>, input: &[u8]) {
    unsafe {
        UM_N += 1;
        UM_PTR = input.as_ptr() as usize;
        UM_LEN = input.len();
    }
    c.buflen = c.buflen.wrapping_add(1000);
}
#[cfg(kani)]
fn update_mut_dyn_rec(c: &mut ContextDyn, input: &[u8]) {
    unsafe {
        UM_N += 1;
        UM_PTR = input.as_ptr() as usize;
        UM_LEN = input.len();
    }
    c.buflen = c.buflen.wrapping_add(1000);
}
fn case_update_eq<C: Ctx2>() {
    let a = arb();
    let data = Bytes::<5>::any();
    let c1: C = mk(&a);
    let mut c2: C = mk(&a);
    unsafe {
        UM_N = 0;
    }
    let c1 = c1.upd(data.get());
    #[cfg(kani)]
    unsafe {
        vassert!(UM_N == 1 && UM_PTR == data.get().as_ptr() as usize && UM_LEN == data.len, "update: exactly one update_mut call, on the caller's slice");
        vassert!(c1.buflen() == a.buflen + 1000, "update: returns the context that was fed");
    }
    c2.upd_mut(data.get());
    let (b1, b2) = (c1.buf(), c2.buf());
    let mut same = eq8(&c1.h(), &c2.h()) && c1.t()[0] == c2.t()[0] && c1.t()[1] == c2.t()[1] && c1.buflen() == c2.buflen();
    let mut j = 0;
    while j < BB {
        same &= b1[j] == b2[j];
        j += 1;
    }
    vassert!(same, "update == update_mut");
}

// ================================================================================================ harnesses
#[cfg_attr(kani, kani::proof)]
#[cfg_attr(kani, kani::unwind(66))]
#[cfg_attr(kani, kani::stub(crate::hashing::blake2::EngineS::compress, compress_rec))]
pub(crate) fn c01_blake2s_new_keyed_dyn() {
    case_new_keyed::<ContextDyn>(None);
}
#[cfg_attr(kani, kani::proof)]
#[cfg_attr(kani, kani::unwind(66))]
#[cfg_attr(kani, kani::stub(crate::hashing::blake2::EngineS::compress, compress_rec))]
pub(crate) fn c01_blake2s_new_keyed_bits() {
    case_new_keyed::<Context<256>>(Some(32));
    case_new_keyed::<Context<224>>(Some(28));
    case_new_keyed::<Context<12>>(Some(2));
}
/// quick tier, ContextDyn: the update step at concrete shapes around every boundary (the symbolic-shape step on ContextDyn is thorough-only)
fn update_shapes<C: Ctx2>() {
    // all harness inputs are drawn first (the recorder stub draws its return values under Kani: the native replay stream must not interleave)
    let a = arb();
    let d = Bytes::<130>::any();
    let j: usize = any();
    assume(j < BB);
    step_body::<C, 130>(Arb { h: a.h, t: a.t, buf: a.buf, buflen: a.buflen, outlen: a.outlen }, Bytes { buf: d.buf, len: d.len }, j, Some((0, 64)));
    step_body::<C, 130>(Arb { h: a.h, t: a.t, buf: a.buf, buflen: a.buflen, outlen: a.outlen }, Bytes { buf: d.buf, len: d.len }, j, Some((0, 65)));
    step_body::<C, 130>(Arb { h: a.h, t: a.t, buf: a.buf, buflen: a.buflen, outlen: a.outlen }, Bytes { buf: d.buf, len: d.len }, j, Some((1, 63)));
    step_body::<C, 130>(Arb { h: a.h, t: a.t, buf: a.buf, buflen: a.buflen, outlen: a.outlen }, Bytes { buf: d.buf, len: d.len }, j, Some((64, 1)));
    step_body::<C, 130>(Arb { h: a.h, t: a.t, buf: a.buf, buflen: a.buflen, outlen: a.outlen }, Bytes { buf: d.buf, len: d.len }, j, Some((64, 64)));
    step_body::<C, 130>(Arb { h: a.h, t: a.t, buf: a.buf, buflen: a.buflen, outlen: a.outlen }, Bytes { buf: d.buf, len: d.len }, j, Some((5, 123)));
    step_body::<C, 130>(Arb { h: a.h, t: a.t, buf: a.buf, buflen: a.buflen, outlen: a.outlen }, Bytes { buf: d.buf, len: d.len }, j, Some((0, 128)));
    step_body::<C, 130>(Arb { h: a.h, t: a.t, buf: a.buf, buflen: a.buflen, outlen: a.outlen }, Bytes { buf: d.buf, len: d.len }, j, Some((0, 129)));
}
#[cfg_attr(kani, kani::proof)]
#[cfg_attr(kani, kani::unwind(66))]
#[cfg_attr(kani, kani::stub(crate::hashing::blake2::EngineS::compress, compress_rec_j))]
pub(crate) fn c01_blake2s_update_shapes_dyn() {
    update_shapes::<ContextDyn>();
}
#[cfg_attr(kani, kani::proof)]
#[cfg_attr(kani, kani::unwind(66))]
#[cfg_attr(kani, kani::stub(crate::hashing::blake2::EngineS::compress, compress_rec_j))]
pub(crate) fn c01_blake2s_update_step() {
    case_update_step::<Context<256>, 66>();
}
#[cfg_attr(kani, kani::proof)]
#[cfg_attr(kani, kani::unwind(66))]
#[cfg_attr(kani, kani::stub(crate::hashing::blake2::EngineS::compress, compress_rec_j))]
pub(crate) fn c01_t_blake2s_update_step_130() {
    case_update_step::<Context<224>, 130>();
}
#[cfg_attr(kani, kani::proof)]
#[cfg_attr(kani, kani::unwind(66))]
#[cfg_attr(kani, kani::stub(crate::hashing::blake2::EngineS::compress, compress_rec_j))]
pub(crate) fn c01_t_blake2s_update_step_dyn() {
    case_update_step::<ContextDyn, 66>();
}
#[cfg_attr(kani, kani::proof)]
#[cfg_attr(kani, kani::unwind(66))]
#[cfg_attr(kani, kani::stub(crate::hashing::blake2::EngineS::compress, compress_rec))]
pub(crate) fn c01_blake2s_finalize_dyn() {
    case_finalize_at::<ContextDyn>();
}
#[cfg_attr(kani, kani::proof)]
#[cfg_attr(kani, kani::unwind(66))]
#[cfg_attr(kani, kani::stub(crate::hashing::blake2::EngineS::compress, compress_rec))]
pub(crate) fn c01_blake2s_finalize_bits() {
    case_finalize_at::<Context<256>>();
    case_finalize_at::<Context<224>>();
}
/// the fixed-size convenience method finalize() of Context<256>
#[cfg_attr(kani, kani::proof)]
#[cfg_attr(kani, kani::unwind(66))]
#[cfg_attr(kani, kani::stub(crate::hashing::blake2::EngineS::compress, compress_rec))]
pub(crate) fn c01_blake2s_finalize_array() {
    let a = arb();
    final_covers(&a);
    let c: Context<256> = mk(&a);
    c_reset();
    let out = c.finalize();
    let exp = check_final(&a);
    let mut i = 0;
    while i < 32 {
        vassert!(out[i] == exp[i], "finalize: digest == first nn bytes of the little-endian chaining value");
        i += 1;
    }
}
#[cfg_attr(kani, kani::proof)]
#[cfg_attr(kani, kani::unwind(66))]
#[cfg_attr(kani, kani::stub(crate::hashing::blake2::EngineS::compress, compress_rec))]
pub(crate) fn c02_blake2s_finalize_reset_dyn() {
    case_finalize_reset_at::<ContextDyn>();
}
#[cfg_attr(kani, kani::proof)]
#[cfg_attr(kani, kani::unwind(66))]
#[cfg_attr(kani, kani::stub(crate::hashing::blake2::EngineS::compress, compress_rec))]
pub(crate) fn c02_blake2s_finalize_reset_bits() {
    case_finalize_reset_at::<Context<224>>();
}
#[cfg_attr(kani, kani::proof)]
#[cfg_attr(kani, kani::unwind(66))]
#[cfg_attr(kani, kani::stub(crate::hashing::blake2::EngineS::compress, compress_rec))]
pub(crate) fn c02_blake2s_finalize_reset_with_key_dyn() {
    case_finalize_reset_with_key_at::<ContextDyn>();
}
#[cfg_attr(kani, kani::proof)]
#[cfg_attr(kani, kani::unwind(66))]
#[cfg_attr(kani, kani::stub(crate::hashing::blake2::EngineS::compress, compress_rec))]
pub(crate) fn c02_blake2s_finalize_reset_with_key_bits() {
    case_finalize_reset_with_key_at::<Context<256>>();
}
#[cfg_attr(kani, kani::proof)]
#[cfg_attr(kani, kani::unwind(66))]
pub(crate) fn c02_blake2s_reset_clone_dyn() {
    case_reset_clone::<ContextDyn>();
}
#[cfg_attr(kani, kani::proof)]
#[cfg_attr(kani, kani::unwind(66))]
pub(crate) fn c02_blake2s_reset_clone_bits() {
    case_reset_clone::<Context<256>>();
}
#[cfg_attr(kani, kani::proof)]
#[cfg_attr(kani, kani::unwind(66))]
#[cfg_attr(kani, kani::stub(crate::hashing::blake2s::Context::update_mut, update_mut_rec))]
#[cfg_attr(kani, kani::stub(crate::hashing::blake2s::ContextDyn::update_mut, update_mut_dyn_rec))]
pub(crate) fn c02_blake2s_update_eq_update_mut() {
    case_update_eq::<Context<256>>();
    case_update_eq::<ContextDyn>();
}

// ------------------------------------------------------------------------------------------------ C20
/// increment_counter(inc) for the increments the contexts use (0..=block size) from an ARBITRARY counter: the two words
/// are one integer, t += inc, carry into the high word; no panic.  (`self.t[0] += inc` overflows in overflow-checked builds
/// when the low word wraps: expected finding; unchecked builds carry correctly.)
#[cfg_attr(kani, kani::proof)]
pub(crate) fn c20_hash_blake2s_increment_counter() {
    let t: [W; 2] = any();
    let inc: usize = any();
    assume(inc <= BB && t[1] < W::MAX);
    vcover!(t[0] > W::MAX - (inc as W), "low counter word wraps");
    let mut e = Engine { h: [0; 8], t };
    e.increment_counter(inc as W);
    let exp = t_add(t, inc);
    vassert!(e.t[0] == exp[0] && e.t[1] == exp[1], "increment_counter: (t[1], t[0]) += inc as one two-word integer");
}
#[cfg_attr(kani, kani::proof)]
pub(crate) fn c20_hash_blake2s_increment_counter_nowrap() {
    let t: [W; 2] = any();
    let inc: usize = any();
    assume(inc <= BB && t[0] <= W::MAX - (inc as W));
    vcover!(t[0] == W::MAX - (inc as W) && inc > 0, "largest low word that does not wrap");
    let mut e = Engine { h: [0; 8], t };
    e.increment_counter(inc as W);
    vassert!(e.t[0] == t[0] + (inc as W) && e.t[1] == t[1], "increment_counter: low word += inc, high word unchanged when the low word does not wrap");
}
/// the same counter wrap seen through the context API: a context that has compressed 2^W - block bytes (a state every
/// sufficiently long message reaches; for BLAKE2s that is 4 GiB - 64 bytes) and holds a full pending block is fed one more
/// byte: the pending block must be compressed with t = (1, 0) (carry into the high word) and nothing may panic.
#[cfg_attr(kani, kani::proof)]
#[cfg_attr(kani, kani::unwind(66))]
#[cfg_attr(kani, kani::stub(crate::hashing::blake2::EngineS::compress, compress_rec))]
pub(crate) fn c20_hash_blake2s_update_across_counter_wrap() {
    let h: [W; 8] = any();
    let buf: [u8; BB] = any();
    let x: u8 = any();
    let mut c = ContextDyn::mk(h, [W::MAX - (BB as W) + 1, 0], buf, BB, MAXOUT);
    c_reset();
    c.update_mut(&[x]);
    let t = c.t();
    vassert!(t[0] == 0 && t[1] == 1, "update across the counter wrap: low word wraps to 0, high word becomes 1");
    vassert!(c.buflen() == 1, "update across the counter wrap: the new byte is pending");
}
// refusals: every illegal shape panics (MUST-NOT cover = the call returned for some illegal value)
#[cfg_attr(kani, kani::proof)]
#[cfg_attr(kani, kani::should_panic)]
pub(crate) fn c20_hash_blake2s_dyn_new_illegal_outlen_panics() {
    let o: usize = any();
    assume(o == 0 || o > MAXOUT);
    let _c = ContextDyn::new(o);
    vcover!(true, "MUST-NOT return: ContextDyn::new accepted an illegal digest length");
}
#[cfg_attr(kani, kani::proof)]
#[cfg_attr(kani, kani::should_panic)]
#[cfg_attr(kani, kani::unwind(38))]
pub(crate) fn c20_hash_blake2s_dyn_new_keyed_illegal_panics() {
    let key: [u8; 36] = any();
    let keylen: usize = any();
    let o: usize = any();
    assume(keylen <= 36 && (keylen > MAXKEY || o == 0 || o > MAXOUT));
    let _c = ContextDyn::new_keyed(o, &key[..keylen]);
    vcover!(true, "MUST-NOT return: ContextDyn::new_keyed accepted an illegal digest length or an over-long key");
}
#[cfg_attr(kani, kani::proof)]
#[cfg_attr(kani, kani::should_panic)]
#[cfg_attr(kani, kani::unwind(38))]
pub(crate) fn c20_hash_blake2s_bits_new_keyed_long_key_panics() {
    let key: [u8; 36] = any();
    let keylen: usize = any();
    assume(keylen <= 36 && keylen > MAXKEY);
    let _c = Context::<256>::new_keyed(&key[..keylen]);
    vcover!(true, "MUST-NOT return: Context::new_keyed accepted an over-long key");
}
#[cfg_attr(kani, kani::proof)]
#[cfg_attr(kani, kani::should_panic)]
pub(crate) fn c20_hash_blake2s_bits_zero_panics() {
    let _c = Context::<0>::new();
    vcover!(true, "MUST-NOT return: Context::<0>::new returned");
}
#[cfg_attr(kani, kani::proof)]
#[cfg_attr(kani, kani::should_panic)]
pub(crate) fn c20_hash_blake2s_bits_too_large_panics() {
    let _c = Context::<{ 8 * MAXOUT + 1 }>::new();
    vcover!(true, "MUST-NOT return: Context::<8*MAXOUT+1>::new returned");
}
#[cfg_attr(kani, kani::proof)]
#[cfg_attr(kani, kani::should_panic)]
#[cfg_attr(kani, kani::unwind(38))]
pub(crate) fn c20_hash_blake2s_reset_with_long_key_panics() {
    let a = arb();
    let key: [u8; 36] = any();
    let keylen: usize = any();
    assume(keylen <= 36 && keylen > MAXKEY);
    let mut c: ContextDyn = mk(&a);
    c.reset_with_key(&key[..keylen]);
    vcover!(true, "MUST-NOT return: reset_with_key accepted an over-long key");
}
#[cfg_attr(kani, kani::proof)]
#[cfg_attr(kani, kani::should_panic)]
#[cfg_attr(kani, kani::unwind(66))]
#[cfg_attr(kani, kani::stub(crate::hashing::blake2::EngineS::compress, compress_rec))]
pub(crate) fn c20_hash_blake2s_finalize_at_wrong_len_panics() {
    let a = arb();
    let l: usize = any();
    assume(l <= MAXOUT + 4 && l != a.outlen);
    let c: ContextDyn = mk(&a);
    let mut out = [0u8; MAXOUT + 4];
    c.finalize_at(&mut out[..l]);
    vcover!(true, "MUST-NOT return: finalize_at accepted an output slice of the wrong length");
}
/// the legal shapes do not panic: every digest length 1..=max, every key length 0..=max, any update/finalize from any state
/// is what the c01_/c02_ harnesses of this file show (Kani's overflow/bounds/pointer checks are on in all of them)
#[cfg_attr(kani, kani::proof)]
#[cfg_attr(kani, kani::unwind(66))]
pub(crate) fn c20_hash_blake2s_legal_shapes_accepted() {
    case_new_keyed::<ContextDyn>(None);
}

// ------------------------------------------------------------------------------------------------ end to end (short messages)
// whole construction written down from RFC 7693 3.3, compression = deterministic stand-in under Kani / the crate's natively
#[cfg(kani)]
pub(crate) fn toy_compress(e: &mut Engine, buf: &[u8], last: LastBlock) {
    assert!(buf.len() == BB);
    let mut j = 0;
    while j < BB {
        e.h[j & 7] = e.h[j & 7].rotate_left(9) ^ (buf[j] as W) ^ 0x9e3779b9;
        j += 1;
    }
    e.h[0] ^= e.t[0].rotate_left(3);
    e.h[1] ^= e.t[1].rotate_left(5);
    if last == LastBlock::Yes {
        e.h[7] = !e.h[7];
    }
}
fn kernel(e: &mut Engine, buf: &[u8], last: LastBlock) {
    #[cfg(kani)]
    toy_compress(e, buf, last);
    #[cfg(not(kani))]
    e.compress(buf, last);
}
/// RFC 7693 3.3 for a message of at most 3 bytes: optional key block, then the (only) message block
fn spec_blake2(outlen: usize, key: &[u8; MAXKEY], keylen: usize, msg: &[u8; 3], len: usize) -> [u8; HBYTES] {
    let mut e = Engine { h: spec_h0(outlen, keylen), t: [0, 0] };
    let mut kb = [0u8; BB];
    let mut j = 0;
    while j < MAXKEY {
        if j < keylen {
            kb[j] = key[j];
        }
        j += 1;
    }
    let mut mb = [0u8; BB];
    let mut j = 0;
    while j < 3 {
        if j < len {
            mb[j] = msg[j];
        }
        j += 1;
    }
    if keylen > 0 && len > 0 {
        e.t = [BB as W, 0];
        kernel(&mut e, &kb, LastBlock::No);
        e.t = [(BB + len) as W, 0];
        kernel(&mut e, &mb, LastBlock::Yes);
    } else if keylen > 0 {
        e.t = [BB as W, 0];
        kernel(&mut e, &kb, LastBlock::Yes);
    } else {
        e.t = [len as W, 0];
        kernel(&mut e, &mb, LastBlock::Yes);
    }
    ser_le(&e.h)
}
#[cfg_attr(kani, kani::proof)]
#[cfg_attr(kani, kani::unwind(66))]
#[cfg_attr(kani, kani::stub(crate::hashing::blake2::EngineS::compress, toy_compress))]
pub(crate) fn c01_t_blake2s_keyed_end_to_end() {
    let key: [u8; MAXKEY] = any();
    let keylen: usize = any();
    let outlen: usize = any();
    let msg = Bytes::<3>::any();
    let prior: [u8; MAXOUT] = any();
    assume(keylen <= MAXKEY && outlen >= 1 && outlen <= MAXOUT);
    vcover!(keylen == 0 && msg.len == 0, "empty unkeyed message");
    vcover!(keylen > 0 && msg.len == 0, "keyed, empty message: the key block is the last block");
    vcover!(keylen == 1 && msg.len == 3 && outlen == 1, "shortest key, shortest digest");
    let mut out = prior;
    ContextDyn::new_keyed(outlen, &key[..keylen]).update(msg.get()).finalize_at(&mut out[..outlen]);
    let exp = spec_blake2(outlen, &key, keylen, &msg.buf, msg.len);
    check_digest(&out, &prior, outlen, &exp);
}
#[cfg_attr(kani, kani::proof)]
#[cfg_attr(kani, kani::unwind(66))]
#[cfg_attr(kani, kani::stub(crate::hashing::blake2::EngineS::compress, toy_compress))]
pub(crate) fn c01_blake2s_keyed_end_to_end() {
    // quick-tier version with concrete shapes (key lengths 0, 1, max; maximal digest; one-byte message); the symbolic-shape version is c01_t_blake2s_keyed_end_to_end
    let key: [u8; MAXKEY] = any();
    let m: u8 = any();
    let prior: [u8; MAXOUT] = any();
    let mut out = prior;
    ContextDyn::new_keyed(MAXOUT, &key[..0]).update(&[m]).finalize_at(&mut out[..]);
    check_digest(&out, &prior, MAXOUT, &spec_blake2(MAXOUT, &key, 0, &[m, 0, 0], 1));
    let mut out = prior;
    ContextDyn::new_keyed(MAXOUT, &key[..1]).update(&[m]).finalize_at(&mut out[..]);
    check_digest(&out, &prior, MAXOUT, &spec_blake2(MAXOUT, &key, 1, &[m, 0, 0], 1));
    let mut out = prior;
    ContextDyn::new_keyed(MAXOUT, &key[..]).update(&[m]).finalize_at(&mut out[..]);
    check_digest(&out, &prior, MAXOUT, &spec_blake2(MAXOUT, &key, MAXKEY, &[m, 0, 0], 1));
    let mut out = prior;
    ContextDyn::new_keyed(MAXOUT, &key[..]).finalize_at(&mut out[..]);
    check_digest(&out, &prior, MAXOUT, &spec_blake2(MAXOUT, &key, MAXKEY, &[0, 0, 0], 0));
}
#[cfg_attr(kani, kani::proof)]
#[cfg_attr(kani, kani::unwind(66))]
#[cfg_attr(kani, kani::stub(crate::hashing::blake2::EngineS::compress, toy_compress))]
pub(crate) fn c01_oneshot_blake2s() {
    let msg = Bytes::<3>::any();
    vcover!(msg.len == 0, "empty message");
    vcover!(msg.len == 3, "three bytes");
    let nokey = [0u8; MAXKEY];
    let mut ok = true;
    let (o, e) = (crate::hashing::blake2s_224(msg.get()), spec_blake2(28, &nokey, 0, &msg.buf, msg.len));
    let mut i = 0;
    while i < 28 {
        ok &= o[i] == e[i];
        i += 1;
    }
    vassert!(ok, "blake2s_224(msg) == unkeyed BLAKE2s with nn = 28");
    let (o, e) = (crate::hashing::blake2s_256(msg.get()), spec_blake2(32, &nokey, 0, &msg.buf, msg.len));
    let mut i = 0;
    while i < 32 {
        ok &= o[i] == e[i];
        i += 1;
    }
    vassert!(ok, "blake2s_256(msg) == unkeyed BLAKE2s with nn = 32");
}
