"""Symbolic interpreter for rustc MIR (Int domain): concrete control flow, polynomial values, proof obligations.

Every `assert(!overflow)` of the overflow-checked MIR and every wrap that the interval analysis cannot exclude becomes
an obligation / a quotient atom; the obligations are discharged by z3 in solve.py.
"""
import re
from poly import Poly, DP, AtomTable


class Unsupported(Exception):
    pass


class Panic(Exception):
    pass


def tbits(ty):
    ty = ty.strip()
    if ty == "bool":
        return 1, False
    m = re.match(r"^(u|i)(8|16|32|64|128|size)$", ty)
    if not m:
        raise Unsupported("not an integer type: %r" % ty)
    w = 64 if m.group(2) == "size" else int(m.group(2))
    return w, m.group(1) == "i"


def trange(ty):
    w, signed = tbits(ty)
    if signed:
        return -(1 << (w - 1)), (1 << (w - 1)) - 1
    return 0, (1 << w) - 1


class IntV:
    """integer value. modof=(X, a): value == X mod 2^a.  sel: when set, value == sel * (2^w - 1) with sel in {0, 1} (an all-or-nothing mask)"""
    __slots__ = ("p", "ty", "modof", "sel")

    def __init__(self, p, ty, modof=None, sel=None):
        self.p, self.ty, self.modof, self.sel = DP.lift(p), ty, modof, sel


class BvV:
    """machine word in the BV domain (bvdomain.B)"""
    __slots__ = ("b", "ty")

    def __init__(self, b, ty):
        self.b, self.ty = b, ty


def to_bv(v, ty=None):
    from bvdomain import B
    if isinstance(v, BvV):
        return v
    if isinstance(v, IntV) and v.p.is_const():
        w, _ = tbits(v.ty)
        return BvV(B.const(v.p.cval(), w), v.ty)
    if isinstance(v, BoolV):
        return BvV(B.const(1 if v.b else 0, 1), "bool")
    raise Unsupported("cannot move %r into the BV domain" % type(v).__name__)


class XorV:
    """a ^ b of two symbolic integers, kept symbolic until it is masked and folded back (constant-time select idiom)"""
    __slots__ = ("a", "b", "ty")

    def __init__(self, a, b, ty):
        self.a, self.b, self.ty = a, b, ty


class MaskedXorV:
    """mask & (a ^ b) with mask = sel * all-ones"""
    __slots__ = ("sel", "a", "b", "ty")

    def __init__(self, sel, a, b, ty):
        self.sel, self.a, self.b, self.ty = sel, a, b, ty

    def __repr__(self):
        return "IntV(%s:%s)" % (self.p.t if len(self.p.t) < 4 else "...", self.ty)


class OvfV:
    """the bool half of a *WithOverflow result: true iff `p` is outside the range of `ty`"""
    __slots__ = ("p", "ty", "what")

    def __init__(self, p, ty, what):
        self.p, self.ty, self.what = p, ty, what


class BoolV:
    __slots__ = ("b",)

    def __init__(self, b):
        self.b = bool(b)


class AggV:
    __slots__ = ("f",)

    def __init__(self, f):
        self.f = list(f)


class EnumV:
    __slots__ = ("variant", "f")

    def __init__(self, variant, f):
        self.variant, self.f = variant, list(f)


class UnitV:
    pass


class Cell:
    __slots__ = ("v",)

    def __init__(self, v=None):
        self.v = v


class RefV:
    """pointer to (cell, path); sl = (start, len) when it designates a sub-slice of the array at path"""
    __slots__ = ("cell", "path", "sl")

    def __init__(self, cell, path=(), sl=None):
        self.cell, self.path, self.sl = cell, tuple(path), sl


class IterV:
    __slots__ = ("kind", "ref", "pos", "end")

    def __init__(self, kind, ref, pos, end):
        self.kind, self.ref, self.pos, self.end = kind, ref, pos, end


def deep_copy(v):
    if isinstance(v, AggV):
        return AggV([deep_copy(x) for x in v.f])
    if isinstance(v, EnumV):
        return EnumV(v.variant, [deep_copy(x) for x in v.f])
    return v


VARIANT_IDX = {"None": 0, "Some": 1, "Ok": 0, "Err": 1}


class Interp:
    def __init__(self, fns, consts, tab=None, env=None):
        self.fns, self.consts = fns, consts
        self.tab = tab or AtomTable()
        self.env = env            # concrete mode: {atom name: int}
        self.obligations = []     # dict(kind, where, what, poly, lo, hi)
        self.trace_fn = []
        self.const_cache = {}
        self.stats = dict(calls=0, blocks=0, quot_atoms=0, functions=set())
        self.max_blocks = 2000000
        self.rem_index = {}

    # ------------------------------------------------------------------ inputs
    def input(self, name, ty, lo=None, hi=None):
        tl, th = trange(ty)
        lo = tl if lo is None else lo
        hi = th if hi is None else hi
        if self.env is not None:
            v = self.env.get(name, lo)
            return IntV(DP.const(v), ty)
        return IntV(DP.atom(self.tab.new(name, lo, hi)), ty)

    def input_array(self, name, n, ty, lo=None, hi=None):
        his = hi if isinstance(hi, (list, tuple)) else [hi] * n
        los = lo if isinstance(lo, (list, tuple)) else [lo] * n
        return AggV([self.input("%s%d" % (name, i), ty, los[i], his[i]) for i in range(n)])

    def const(self, v, ty):
        return IntV(DP.const(v), ty)

    # ------------------------------------------------------------------ integer helpers
    def bound(self, P):
        """sound interval of a (dual) polynomial: compact form first (remainders are atoms with tight bounds), intersected with the expanded form"""
        return DP.lift(P).interval(self.tab)

    def divmod_pow2(self, X, k):
        """floor division of X by 2^k -> (q, r) with X = q*2^k + r, 0 <= r < 2^k (both dual polynomials)"""
        X = DP.lift(X)
        if k == 0:
            return X, DP()
        if X.is_const():
            q, r = divmod(X.cval(), 1 << k)
            return DP.const(q), DP.const(r)
        g = X.e.pow2_content()
        gc = X.c.pow2_content()
        if g >= k:
            qe = X.e.div_exact(1 << k)
            return DP(qe, X.c.div_exact(1 << k) if (gc is None or gc >= k) else qe), DP()
        if g > 0:
            ye = X.e.div_exact(1 << g)
            q, r = self.divmod_pow2(DP(ye, X.c.div_exact(1 << g) if (gc is None or gc >= g) else ye), k - g)
            return q, r.scale(1 << g)
        # syntactic split on the expanded form: terms whose coefficient is a multiple of 2^k vs the rest
        D, N = {}, {}
        for m, c in X.e.t.items():
            (D if c % (1 << k) == 0 else N)[m] = c
        Np = Poly(N)
        nl, nh = Np.interval(self.tab)
        if nl >= 0 and nh < (1 << k):
            qd = Poly(D).div_exact(1 << k)
            return DP(qd, qd), DP(Np, Np)
        key = (X.e.key(), k)
        if key in self.tab.quot_cache:
            qi, ri = self.tab.quot_cache[key]
        else:
            xl, xh = self.bound(X)
            n = len(self.tab.atoms)
            qi = self.tab.new("q%d" % n, xl >> k, xh >> k, kind="quot", defn=(X.e, k))
            ri = self.tab.new("r%d" % (n + 1), 0, (1 << k) - 1, kind="rem", defn=(X.e, k, qi))
            self.tab.quot_cache[key] = (qi, ri)
            # r == X - q*2^k, stated on both forms of X
            self.tab.constraints.append((X.e - Poly.atom(qi).scale(1 << k) - Poly.atom(ri), 0, 0))
            if X.c is not X.e and X.c != X.e:
                self.tab.constraints.append((X.c - Poly.atom(qi).scale(1 << k) - Poly.atom(ri), 0, 0))
            self.stats["quot_atoms"] += 1
            re_ = X.e - Poly.atom(qi).scale(1 << k)
            c0 = re_.t.get((), 0)
            self.rem_index[(re_ - Poly.const(c0)).key()] = (ri, c0)
        q = DP.atom(qi)
        r = DP(X.e - Poly.atom(qi).scale(1 << k), Poly.atom(ri))
        return q, r

    def canon(self, p):
        """if the expanded form is (up to a constant) the remainder X - q*2^k of a known division, use the remainder atom as compact form
        (code that computes `h -= carry << 26` by hand gets the same tight bounds as `h & mask`)"""
        if p.is_const() or not self.rem_index:
            return p
        c0 = p.e.t.get((), 0)
        hit = self.rem_index.get((p.e - Poly.const(c0)).key())
        if hit is None:
            return p
        ri, cr = hit
        return DP(p.e, Poly.atom(ri) + Poly.const(c0 - cr))

    def wrap(self, p, ty, src=None):
        """value of the two's-complement truncation of the mathematical integer p to type ty"""
        p = self.canon(DP.lift(p))
        lo, hi = trange(ty)
        pl, ph = self.bound(p)
        if lo <= pl and ph <= hi:
            return IntV(p, ty, src.modof if src is not None and src.p is p else None)
        w, signed = tbits(ty)
        base = p
        if src is not None and src.modof is not None and src.p is p and src.modof[1] >= w:
            base = src.modof[0]
        if signed:
            _, r = self.divmod_pow2(base + DP.const(1 << (w - 1)), w)
            return IntV(r - DP.const(1 << (w - 1)), ty)
        _, r = self.divmod_pow2(base, w)
        return IntV(r, ty, modof=(base, w))

    def mask_pow2(self, x, k):
        base = x.p
        if x.modof is not None and x.modof[1] >= k:
            base = x.modof[0]
        _, r = self.divmod_pow2(base, k)
        return IntV(r, x.ty, modof=(base, k))

    def binop(self, op, a, b, where):
        if isinstance(a, BoolV) and isinstance(b, BoolV):
            if op in ("BitAnd", "BitOr", "BitXor", "Eq", "Ne"):
                f = {"BitAnd": lambda x, y: x and y, "BitOr": lambda x, y: x or y, "BitXor": lambda x, y: x != y, "Eq": lambda x, y: x == y, "Ne": lambda x, y: x != y}[op]
                return BoolV(f(a.b, b.b))
        if isinstance(a, BvV) or isinstance(b, BvV):
            return self.bv_binop(op, a, b, where)
        # constant-time select idiom:  x ^= mask & (x ^ y)   with mask all-or-nothing
        if op == "BitAnd":
            for (m, x) in ((a, b), (b, a)):
                if isinstance(m, IntV) and m.sel is not None and isinstance(x, XorV):
                    return MaskedXorV(m.sel, x.a, x.b, x.ty)
                if isinstance(m, IntV) and m.sel is not None and isinstance(x, IntV):
                    return IntV(m.sel * x.p, x.ty)
        if op == "BitXor":
            for (x, mx) in ((a, b), (b, a)):
                if isinstance(x, IntV) and isinstance(mx, MaskedXorV):
                    if x.p.e == mx.a.p.e:
                        return IntV(mx.a.p + mx.sel * (mx.b.p - mx.a.p), x.ty)
                    if x.p.e == mx.b.p.e:
                        return IntV(mx.b.p + mx.sel * (mx.a.p - mx.b.p), x.ty)
                    raise Unsupported("masked xor folded into an unrelated value at %s" % where)
            if isinstance(a, IntV) and isinstance(b, IntV) and not (a.p.is_const() and b.p.is_const()):
                return XorV(a, b, a.ty)
        if not (isinstance(a, IntV) and isinstance(b, IntV)):
            raise Unsupported("binop %s on %r, %r at %s" % (op, type(a).__name__, type(b).__name__, where))
        ty = a.ty
        if op in ("AddWithOverflow", "SubWithOverflow", "MulWithOverflow"):
            p = a.p + b.p if op[0] == "A" else (a.p - b.p if op[0] == "S" else a.p * b.p)
            if op[0] != "M":
                p = self.canon(p)
            return AggV([IntV(p, ty), OvfV(p, ty, "%s at %s" % (op, where))])
        if op in ("Add", "AddUnchecked"):
            return self.wrap(a.p + b.p, ty)
        if op in ("Sub", "SubUnchecked"):
            return self.wrap(a.p - b.p, ty)
        if op in ("Mul", "MulUnchecked"):
            return self.wrap(a.p * b.p, ty)
        if op in ("Shl", "ShlUnchecked", "Shr", "ShrUnchecked"):
            if not b.p.is_const():
                raise Unsupported("symbolic shift amount at %s" % where)
            s = b.p.cval()
            w, _ = tbits(ty)
            if not (0 <= s < w):
                raise Panic("shift amount %d out of range at %s" % (s, where))
            if op.startswith("Shl"):
                return self.wrap(a.p.scale(1 << s), ty)
            q, _ = self.divmod_pow2(a.p, s)
            return IntV(q, ty)
        if op in ("BitAnd", "BitOr", "BitXor"):
            if a.p.is_const() and b.p.is_const():
                x, y = a.p.cval(), b.p.cval()
                w, signed = tbits(ty)
                m = (1 << w) - 1
                r = {"BitAnd": (x & m) & (y & m), "BitOr": (x & m) | (y & m), "BitXor": (x & m) ^ (y & m)}[op]
                if signed and r >= (1 << (w - 1)):
                    r -= 1 << w
                return IntV(r, ty)
            if op == "BitAnd":
                for (x, c) in ((a, b), (b, a)):
                    if c.p.is_const():
                        mval = c.p.cval()
                        lo, hi = trange(ty)
                        if mval == 0:
                            return IntV(0, ty)
                        if mval > 0 and (mval & (mval + 1)) == 0:
                            xl, _ = self.bound(x.p)
                            if xl < 0:
                                raise Unsupported("mask of a possibly negative value at %s" % where)
                            if mval >= hi and lo == 0:
                                return x
                            return self.mask_pow2(x, mval.bit_length())
                        # mask of the form ones<<s (clears the low bits): x - (x mod 2^s), when the high part is all ones for the type
                        w, signed = tbits(ty)
                        if not signed and mval > 0:
                            s = (mval & -mval).bit_length() - 1
                            if mval == ((1 << w) - 1) - ((1 << s) - 1):
                                _, r = self.divmod_pow2(x.p, s)
                                return IntV(x.p - r, ty)
                raise Unsupported("BitAnd with a non-contiguous or symbolic mask at %s" % where)
            if op == "BitOr":
                for (x, y) in ((a, b), (b, a)):
                    xl, xh = self.bound(x.p)
                    # two's complement: a non-negative x < 2^k OR-ed with a multiple of 2^k (of either sign) is their sum
                    if xl >= 0:
                        if xh == 0:
                            return y
                        k = xh.bit_length()
                        g = y.p.pow2_content()
                        if g is None or g >= k:
                            return IntV(x.p + y.p, ty)
                raise Unsupported("BitOr of overlapping bit ranges at %s (a in %s content %s, b in %s content %s)" % (where, self.bound(a.p), a.p.pow2_content(), self.bound(b.p), b.p.pow2_content()))
            raise Unsupported("symbolic BitXor at %s" % where)
        if op in ("Lt", "Le", "Gt", "Ge", "Eq", "Ne"):
            d = a.p - b.p
            dl, dh = self.bound(d)
            res = None
            if op == "Lt":
                res = True if dh < 0 else (False if dl >= 0 else None)
            elif op == "Le":
                res = True if dh <= 0 else (False if dl > 0 else None)
            elif op == "Gt":
                res = True if dl > 0 else (False if dh <= 0 else None)
            elif op == "Ge":
                res = True if dl >= 0 else (False if dh < 0 else None)
            elif op == "Eq":
                res = True if (dl == 0 and dh == 0) else (False if (dl > 0 or dh < 0) else None)
            elif op == "Ne":
                res = False if (dl == 0 and dh == 0) else (True if (dl > 0 or dh < 0) else None)
            if res is None:
                raise Unsupported("symbolic comparison %s at %s" % (op, where))
            return BoolV(res)
        if op in ("Div", "Rem"):
            if a.p.is_const() and b.p.is_const() and b.p.cval() != 0:
                x, y = a.p.cval(), b.p.cval()
                q = abs(x) // abs(y) * (1 if (x >= 0) == (y >= 0) else -1)
                return IntV(q if op == "Div" else x - q * y, ty)
            if b.p.is_const() and b.p.cval() > 0 and (b.p.cval() & (b.p.cval() - 1)) == 0 and self.bound(a.p)[0] >= 0:
                k = b.p.cval().bit_length() - 1
                q, r = self.divmod_pow2(a.p, k)
                return IntV(q if op == "Div" else r, ty)
            raise Unsupported("symbolic %s at %s" % (op, where))
        raise Unsupported("binop %s at %s" % (op, where))

    def bv_binop(self, op, a, b, where):
        from bvdomain import B
        if op in ("Shl", "ShlUnchecked", "Shr", "ShrUnchecked"):
            x = to_bv(a)
            if isinstance(b, BvV):
                if not b.b.is_const():
                    raise Unsupported("symbolic shift amount at %s" % where)
                n = b.b.cval()
            else:
                n = self.cint(b, where)
            w, signed = tbits(x.ty)
            if not (0 <= n < w):
                raise Panic("shift amount out of range at %s" % where)
            if op.startswith("Shl"):
                return BvV(x.b.shl(n), x.ty)
            return BvV(x.b.ashr(n) if signed else x.b.shr(n), x.ty)
        x, y = to_bv(a), to_bv(b)
        ty = x.ty
        if op in ("Add", "AddUnchecked", "Sub", "SubUnchecked", "Mul", "MulUnchecked"):
            r = {"A": x.b + y.b, "S": x.b - y.b, "M": x.b * y.b}[op[0]]
            return BvV(r, ty)
        if op in ("AddWithOverflow", "SubWithOverflow", "MulWithOverflow"):
            raise Unsupported("checked arithmetic on BV-domain values at %s (kernels use wrapping operations)" % where)
        if op == "BitAnd":
            return BvV(x.b & y.b, ty)
        if op == "BitOr":
            return BvV(x.b | y.b, ty)
        if op == "BitXor":
            return BvV(x.b ^ y.b, ty)
        if op in ("Lt", "Le", "Gt", "Ge", "Eq", "Ne") and x.b.is_const() and y.b.is_const():
            u, v = x.b.cval(), y.b.cval()
            return BoolV({"Lt": u < v, "Le": u <= v, "Gt": u > v, "Ge": u >= v, "Eq": u == v, "Ne": u != v}[op])
        raise Unsupported("BV binop %s at %s" % (op, where))

    # ------------------------------------------------------------------ memory
    def nav(self, cell, path):
        v = cell.v
        for k in path:
            if isinstance(v, (AggV, EnumV)):
                v = v.f[k]
            else:
                raise Unsupported("projection into %r" % type(v).__name__)
        return v

    def read(self, lv):
        cell, path, sl = lv
        v = self.nav(cell, path)
        if sl is not None:
            return AggV(v.f[sl[0]:sl[0] + sl[1]])
        return v

    def write(self, lv, val):
        cell, path, sl = lv
        if sl is not None:
            tgt = self.nav(cell, path)
            assert isinstance(val, AggV) and len(val.f) == sl[1]
            tgt.f[sl[0]:sl[0] + sl[1]] = val.f
            return
        if not path:
            cell.v = val
            return
        parent = self.nav(cell, path[:-1])
        parent.f[path[-1]] = val

    def lvalue(self, fr, pl):
        k = pl[0]
        if k == "local":
            return (fr[pl[1]], (), None)
        if k == "deref":
            r = self.read(self.lvalue(fr, pl[1]))
            if not isinstance(r, RefV):
                raise Unsupported("deref of %r" % type(r).__name__)
            return (r.cell, r.path, r.sl)
        if k == "field":
            cell, path, sl = self.lvalue(fr, pl[1])
            assert sl is None
            return (cell, path + (pl[2],), None)
        if k == "downcast":
            return self.lvalue(fr, pl[1])
        if k in ("index", "cindex"):
            cell, path, sl = self.lvalue(fr, pl[1])
            if k == "index":
                iv = fr[pl[2]].v
                if not (isinstance(iv, IntV) and iv.p.is_const()):
                    raise Unsupported("symbolic index")
                i = iv.p.cval()
            else:
                i = pl[2]
            n = sl[1] if sl is not None else len(self.nav(cell, path).f)
            if not (0 <= i < n):
                raise Panic("index %d out of bounds (len %d)" % (i, n))
            return (cell, path + ((sl[0] if sl else 0) + i,), None)
        raise Unsupported("place kind %s" % k)

    def length_of(self, lv):
        cell, path, sl = lv
        if sl is not None:
            return sl[1]
        return len(self.nav(cell, path).f)

    # ------------------------------------------------------------------ operands / rvalues
    def _resolve(self, table, name):
        """definition names are printed in a shorter form than use sites (`FOUR_P0` vs `curve25519::fe::fe64::FOUR_P0`,
        `fe64::<impl at ..>::square` vs `fe64::Fe::square`): match on the last path segment, then on shared module segments"""
        if name in table:
            return name
        parts = re.sub(r"::<[^>]*>$", "", name).split("::")
        last = parts[-1]
        if re.match(r"^(promoted\[\d+\]|\{constant#\d+\})$", last) and len(parts) >= 2:
            last = parts[-2] + "::" + last      # promoted constants are numbered per function
        cands = [k for k in table if k == last or k.endswith("::" + last)]
        if len(cands) > 1:
            segs = [x for x in re.split(r"::", name)[:-1] if x and not x.startswith("<")]
            def score(k):
                ks = re.split(r"::", re.sub(r"<impl at [^>]*>", "", k))
                return sum(1 for x in segs if x in ks or any(x in kk for kk in k.split("::")[:1]))
            best = max(score(k) for k in cands)
            cands = [k for k in cands if score(k) == best]
        if len(cands) == 1:
            return cands[0]
        if not cands:
            return None
        raise Unsupported("ambiguous name %r: %s" % (name, cands[:5]))

    def named_const(self, name):
        m = re.match(r"^(?:core::num::<impl )?((?:u|i)(?:8|16|32|64|128|size))>?::(MIN|MAX)$", name)
        if m:
            lo, hi = trange(m.group(1))
            return IntV(lo if m.group(2) == "MIN" else hi, m.group(1))
        if name in ("RangeFull", "core::ops::RangeFull"):
            return UnitV()
        gen = getattr(self, "generic", {}) or {}
        if name in gen:
            v, ty = gen[name]
            return IntV(v, ty)
        if name in self.const_cache:
            return deep_copy(self.const_cache[name])
        k = self._resolve(self.consts, name)
        if k is None:
            raise Unsupported("named constant %r" % name)
        f = self.consts[k][0]
        v = self.run(f, [])
        self.const_cache[name] = v
        return deep_copy(v)

    def operand(self, fr, op):
        k = op[0]
        if k == "place":
            v = self.read(self.lvalue(fr, op[1]))
            return deep_copy(v)
        if k == "int":
            return IntV(op[1], op[2])
        if k == "bool":
            return BoolV(op[1])
        if k == "unit":
            return UnitV()
        if k == "bytes":
            c = Cell(AggV([IntV(b, "u8") for b in op[1]]))
            return RefV(c, ())
        if k == "named":
            return self.named_const(op[1])
        raise Unsupported("operand %r" % (op,))

    def cast(self, v, ty, kind):
        if kind.startswith("PointerCoercion") or kind in ("PtrToPtr", "Transmute") and isinstance(v, RefV):
            return v
        if isinstance(v, BvV):
            w, _ = tbits(ty)
            return BvV(v.b.resize(w, signed=tbits(v.ty)[1]), ty)
        if isinstance(v, BoolV):
            return IntV(1 if v.b else 0, ty)
        if isinstance(v, IntV):
            if ty == "bool":
                raise Unsupported("int to bool cast")
            return self.wrap(v.p, ty, src=v)
        if isinstance(v, RefV):
            return v
        raise Unsupported("cast of %r to %s (%s)" % (type(v).__name__, ty, kind))

    def rvalue(self, fr, rv, where):
        k = rv[0]
        if k == "use":
            return self.operand(fr, rv[1])
        if k == "binop":
            return self.binop(rv[1], self.operand(fr, rv[2]), self.operand(fr, rv[3]), where)
        if k == "unop":
            v = self.operand(fr, rv[2])
            if rv[1] == "Not":
                if isinstance(v, BvV):
                    return BvV(~v.b, v.ty)
                if isinstance(v, BoolV):
                    return BoolV(not v.b)
                lo, hi = trange(v.ty)
                if lo == 0:
                    return IntV(DP.const(hi) - v.p, v.ty)
                return IntV(DP.const(-1) - v.p, v.ty)
            if rv[1] == "Neg":
                return self.wrap(-v.p, v.ty)
            if rv[1] == "PtrMetadata":
                return IntV(self.length_of((v.cell, v.path, v.sl)), "usize")
            raise Unsupported("unop %s" % rv[1])
        if k == "cast":
            return self.cast(self.operand(fr, rv[1]), rv[2], rv[3])
        if k == "ref":
            cell, path, sl = self.lvalue(fr, rv[1])
            return RefV(cell, path, sl)
        if k == "len":
            return IntV(self.length_of(self.lvalue(fr, rv[1])), "usize")
        if k in ("array", "tuple"):
            return AggV([self.operand(fr, o) for o in rv[1]])
        if k == "repeat":
            n = rv[2]
            m = re.match(r"^(?:const )?(\d+)(?:_usize)?$", n)
            if not m:
                nv = self.named_const(n.replace("const ", ""))
                cnt = nv.p.cval()
            else:
                cnt = int(m.group(1))
            v = self.operand(fr, rv[1])
            return AggV([deep_copy(v) for _ in range(cnt)])
        if k == "struct":
            return AggV([self.operand(fr, o) for (_n, o) in rv[2]])
        if k == "ctor":
            name = rv[1]
            last = name.split("::")[-1].split("<")[0]
            vals = [self.operand(fr, o) for o in rv[2]]
            if last in VARIANT_IDX:
                return EnumV(last, vals)
            if not vals and re.match(r"^[A-Z]\w*$", last) and "::" in name:
                return EnumV(last, [])      # field-less enum variant of a crate enum (e.g. LastBlock::Yes)
            return AggV(vals)
        if k == "discr":
            v = self.read(self.lvalue(fr, rv[1]))
            if isinstance(v, EnumV):
                if v.variant not in VARIANT_IDX:
                    VARIANT_IDX[v.variant] = 100 + len(VARIANT_IDX)   # only equality of discriminants is ever used for crate enums
                return IntV(VARIANT_IDX[v.variant], "isize")
            raise Unsupported("discriminant of %r" % type(v).__name__)
        raise Unsupported("rvalue %s" % k)

    # ------------------------------------------------------------------ execution
    def find_fn(self, name, nargs=None):
        name = re.sub(r"::<[^<>]*>$", "", name)  # turbofish on the call site
        if name not in self.fns and not re.match(r"^(core|alloc|std)::|^<", name):
            try:
                k = self._resolve({k: 1 for k, l in self.fns.items() if any((not f.ctfe) and (nargs is None or len(f.args) == nargs) for f in l)}, name)
            except Unsupported:
                k = None
            if k:
                name = k
        cands = [f for f in self.fns.get(name, []) if not f.ctfe]
        if nargs is not None:
            c2 = [f for f in cands if len(f.args) == nargs]
            cands = c2 or cands
        return cands[0] if cands else None

    def find_fn_re(self, pattern):
        hits = []
        for name, l in self.fns.items():
            for f in l:
                if not f.ctfe and re.search(pattern, f.header):
                    hits.append(f)
        if len(hits) != 1:
            raise Unsupported("function pattern %r matches %d bodies: %s" % (pattern, len(hits), [h.header[:100] for h in hits[:4]]))
        return hits[0]

    def oblige(self, kind, where, what, p, lo, hi):
        self.obligations.append(dict(kind=kind, where=where, what=what, poly=p, lo=lo, hi=hi))

    def run(self, f, args, start=0, stop=None, frame=None):
        """interpret body f. With start/stop/frame: run the fragment from block `start` with the given local values until control
        reaches block `stop` (not executed); returns the frame {local: Cell}."""
        self.stats["calls"] += 1
        self.stats["functions"].add(f.name)
        fr = {}
        for n in f.locals:
            fr[n] = Cell(None)
        fr.setdefault(0, Cell(None))
        for (n, _t), v in zip(f.args, args):
            fr[n] = Cell(v)
        for n, v in (frame or {}).items():
            fr[n] = Cell(v)
        bb = start
        first = True
        while True:
            if stop is not None and bb == stop and not first:
                return fr
            first = False
            self.stats["blocks"] += 1
            if self.stats["blocks"] > self.max_blocks:
                raise Unsupported("block budget exhausted")
            stmts, term = f.block(bb)
            where = "%s bb%d" % (f.name, bb)
            for st in stmts:
                if st[0] == "nop":
                    continue
                if st[0] == "assign":
                    val = self.rvalue(fr, st[2], where)
                    self.write(self.lvalue_for_write(fr, st[1]), val)
                    continue
                raise Unsupported("statement %r" % (st[0],))
            t = term[0]
            if t == "goto":
                bb = term[1]
            elif t == "return":
                return fr[0].v if fr[0].v is not None else UnitV()
            elif t == "switch":
                v = self.operand(fr, term[1])
                if isinstance(v, BoolV):
                    c = 1 if v.b else 0
                elif isinstance(v, IntV) and v.p.is_const():
                    c = v.p.cval()
                else:
                    raise Unsupported("symbolic switchInt at %s" % where)
                nxt = None
                for (val, tgt) in term[2]:
                    if val == c:
                        nxt = tgt
                bb = nxt if nxt is not None else term[3]
            elif t == "assert":
                neg, cond, msg, nxt = term[1], self.operand(fr, term[2]), term[3], term[4]
                if isinstance(cond, OvfV):
                    assert neg
                    lo, hi = trange(cond.ty)
                    self.oblige("overflow", where, msg.strip('"'), cond.p, lo, hi)
                elif isinstance(cond, BoolV):
                    ok = (not cond.b) if neg else cond.b
                    if not ok:
                        raise Panic("assert failed at %s: %s" % (where, msg))
                else:
                    raise Unsupported("assert on %r at %s" % (type(cond).__name__, where))
                bb = nxt
            elif t == "call":
                dest, fname, aops, nxt = term[1], term[2], term[3], term[4]
                argv = [self.operand(fr, o) for o in aops]
                res = self.call(fname, argv, where)
                self.write(self.lvalue_for_write(fr, dest), res)
                if nxt is None:
                    raise Panic("diverging call %s at %s" % (fname, where))
                bb = nxt
            elif t == "unreachable":
                raise Panic("unreachable at %s" % where)
            else:
                raise Unsupported("terminator %s" % t)

    def lvalue_for_write(self, fr, pl):
        return self.lvalue(fr, pl)

    # ------------------------------------------------------------------ calls
    def call(self, fname, argv, where):
        for (rx, hook) in getattr(self, "hooks", []) or []:
            if rx.search(fname):
                return hook(argv, where, fname)
        if re.search(r"(^|::)(read|write)_u(32|64)v_(le|be)$", fname):
            return self.builtin(fname, argv, where)   # unsafe pointer loops: summarised by their endianness contract (decided by E1 harnesses c20_misc_*)
        f = self.find_fn(fname, len(argv))
        if f is None:
            f = self.find_trait_impl(fname, len(argv))
        if f is not None:
            return self.run(f, argv)
        return self.builtin(fname, argv, where)

    def find_trait_impl(self, fname, nargs):
        """call sites name trait methods `<T as Trait<U>>::m`; the bodies are printed `mod::<impl at file:..>::m(_1: T, _2: U)`.
        Resolve by method name, arity and the (reference-stripped, last-segment) types of the first two parameters. Only types
        defined in the crate (no core:: paths, no slices/arrays/primitives)."""
        m = re.match(r"^<(&(?:mut )?)?([A-Za-z_][\w:]*) as (?:[\w:]*::)?(\w+)(?:<(&(?:mut )?)?([A-Za-z_][\w:]*)>)?>::(\w+)$", fname)
        if not m:
            return None
        t, u, meth = m.group(2), m.group(5), m.group(6)
        if re.match(r"^(core|alloc|std)::", t) or re.match(r"^(u|i)(8|16|32|64|128|size)$|^bool$", t):
            return None
        tl = t.split("::")[-1]
        ul = u.split("::")[-1] if u else None
        strip = lambda ty: re.sub(r"^&(?:'\w+ )?(?:mut )?", "", ty.strip()).split("<")[0].split("::")[-1]
        hits = []
        for name, l in self.fns.items():
            if not re.search(r"<impl at [^>]*>::%s$" % re.escape(meth), name):
                continue
            for f in l:
                if f.ctfe or len(f.args) != nargs or not f.args:
                    continue
                if strip(f.args[0][1]) != tl:
                    continue
                if ul is not None and len(f.args) >= 2 and strip(f.args[1][1]) != ul:
                    continue
                hits.append(f)
        if len(hits) == 1:
            return hits[0]
        if len(hits) > 1 and ul is None and nargs >= 2:
            same = [f for f in hits if strip(f.args[1][1]) == tl]    # `impl Add for T` means Add<T>
            if len(same) == 1:
                return same[0]
        return None

    def slice_of(self, r, start, end, where):
        n = self.length_of((r.cell, r.path, r.sl))
        if end is None:
            end = n
        if not (0 <= start <= end <= n):
            raise Panic("slice index %d..%d out of range for length %d at %s" % (start, end, n, where))
        base = r.sl[0] if r.sl else 0
        return RefV(r.cell, r.path, (base + start, end - start))

    def cint(self, v, where):
        if isinstance(v, IntV) and v.p.is_const():
            return v.p.cval()
        raise Unsupported("symbolic integer where a concrete one is needed at %s" % where)

    def builtin(self, fname, a, where):
        n = fname
        # ---- slice indexing
        m = re.search(r"as (?:core::ops::)?Index(Mut)?<(?:core::ops::)?(Range|RangeFrom|RangeTo|RangeFull|RangeInclusive)(?:<usize>)?>>::index(_mut)?$", n)
        if m:
            r, rg = a[0], a[1]
            kind = m.group(2)
            if kind == "Range":
                return self.slice_of(r, self.cint(rg.f[0], where), self.cint(rg.f[1], where), where)
            if kind == "RangeFrom":
                return self.slice_of(r, self.cint(rg.f[0], where), None, where)
            if kind == "RangeTo":
                return self.slice_of(r, 0, self.cint(rg.f[0], where), where)
            if kind == "RangeFull":
                return self.slice_of(r, 0, None, where)
        if re.search(r"impl \[\w+\]>::len$", n) or n.endswith("]>::len"):
            return IntV(self.length_of((a[0].cell, a[0].path, a[0].sl)), "usize")
        m = re.search(r"<&(mut )?\[(\w+); (\d+)\] as TryFrom<&(mut )?\[\w+\]>>::try_from$", n)
        if m:
            r = a[0]
            ln = self.length_of((r.cell, r.path, r.sl))
            if ln != int(m.group(3)):
                return EnumV("Err", [UnitV()])
            return EnumV("Ok", [r])
        if re.search(r"Result::<.*>::unwrap$", n) or re.search(r"Option::<.*>::unwrap$", n):
            v = a[0]
            if v.variant in ("Ok", "Some"):
                return v.f[0]
            raise Panic("unwrap on %s at %s" % (v.variant, where))
        # ---- integer methods
        m = re.search(r"core::num::<impl (\w+)>::(\w+)$", n)
        if m and any(isinstance(x, BvV) for x in a) or (m and m.group(2) in ("from_le_bytes", "from_be_bytes") and isinstance(a[0], AggV) and any(isinstance(x, BvV) for x in a[0].f)):
            from bvdomain import B
            ty, meth = m.group(1), m.group(2)
            w, _ = tbits(ty)
            if meth in ("from_le_bytes", "from_be_bytes"):
                bs = [to_bv(x).b for x in a[0].f]
                if meth == "from_be_bytes":
                    bs = list(reversed(bs))
                return BvV(B.concat_le(bs), ty)
            x = to_bv(a[0])
            if meth in ("to_le_bytes", "to_be_bytes"):
                out = [BvV(x.b.byte(i), "u8") for i in range(w // 8)]
                if meth == "to_be_bytes":
                    out.reverse()
                return AggV(out)
            if meth in ("wrapping_add", "wrapping_sub", "wrapping_mul"):
                y = to_bv(a[1])
                return BvV({"wrapping_add": x.b + y.b, "wrapping_sub": x.b - y.b, "wrapping_mul": x.b * y.b}[meth], ty)
            if meth in ("rotate_left", "rotate_right"):
                k = self.cint(a[1], where) if not isinstance(a[1], BvV) else a[1].b.cval()
                return BvV(x.b.rotl(k) if meth == "rotate_left" else x.b.rotr(k), ty)
            if meth == "swap_bytes":
                return BvV(B.concat_le([x.b.byte(w // 8 - 1 - i) for i in range(w // 8)]), ty)
            raise Unsupported("BV method %s at %s" % (meth, where))
        if m:
            ty, meth = m.group(1), m.group(2)
            if meth in ("from_le_bytes", "from_be_bytes"):
                bs = a[0].f if meth == "from_le_bytes" else list(reversed(a[0].f))
                p = DP()
                for i, b in enumerate(bs):
                    p = p + b.p.scale(1 << (8 * i))
                return IntV(p, ty)
            if meth in ("to_le_bytes", "to_be_bytes"):
                w, _ = tbits(ty)
                out = []
                x = a[0]
                for i in range(w // 8):
                    q, _r = self.divmod_pow2(x.p, 8 * i)
                    _q2, r2 = self.divmod_pow2(q, 8)
                    out.append(IntV(r2, "u8"))
                if meth == "to_be_bytes":
                    out.reverse()
                return AggV(out)
            if meth == "wrapping_add":
                return self.wrap(a[0].p + a[1].p, ty)
            if meth == "wrapping_sub":
                if a[1].p.is_const() and a[1].p.cval() == 1:
                    lo, hi = self.bound(a[0].p)
                    if lo >= 0 and hi <= 1 and not tbits(ty)[1]:
                        # b.wrapping_sub(1) with b in {0,1}: all-ones when b == 0, zero when b == 1
                        sel = DP.const(1) - a[0].p
                        return IntV(sel.scale(trange(ty)[1]), ty, sel=sel)
                return self.wrap(a[0].p - a[1].p, ty)
            if meth == "wrapping_mul":
                return self.wrap(a[0].p * a[1].p, ty)
            if meth == "wrapping_neg":
                return self.wrap(-a[0].p, ty)
            if meth in ("overflowing_add", "overflowing_sub"):
                raise Unsupported("overflowing_* at %s" % where)
            if meth in ("rotate_left", "rotate_right", "swap_bytes", "leading_zeros", "count_ones"):
                raise Unsupported("bit-level method %s at %s (BV domain)" % (meth, where))
            if meth == "min" or meth == "max":
                x, y = self.cint(a[0], where), self.cint(a[1], where)
                return IntV(min(x, y) if meth == "min" else max(x, y), ty)
        m = re.search(r"impl \[\w+\]>::get_unchecked(_mut)?(::<usize>)?$", n) or re.search(r"\]>::get_unchecked(_mut)?(::<usize>)?$", n)
        if m:
            r, i = a[0], self.cint(a[1], where)
            ln = self.length_of((r.cell, r.path, r.sl))
            if not (0 <= i < ln):
                raise Panic("get_unchecked index %d out of bounds (len %d): undefined behaviour at %s" % (i, ln, where))
            base = r.sl[0] if r.sl else 0
            return RefV(r.cell, r.path + (base + i,), None)
        m = re.search(r"(^|::)(read|write)_u(32|64)v_(le|be)$", n)
        if m:
            from bvdomain import B
            rw, bits, end = m.group(2), int(m.group(3)), m.group(4)
            nb = bits // 8
            if rw == "read":
                dst, src = a[0], a[1]
                sv = self.read((src.cell, src.path, src.sl)).f
                dn = self.length_of((dst.cell, dst.path, dst.sl))
                if dn * nb != len(sv):
                    raise Panic("read_u%dv_%s length mismatch at %s" % (bits, end, where))
                words = []
                for k in range(dn):
                    bs = [to_bv(x).b for x in sv[nb * k:nb * k + nb]]
                    if end == "be":
                        bs = list(reversed(bs))
                    words.append(BvV(B.concat_le(bs), "u%d" % bits))
                tgt = self.nav(dst.cell, dst.path)
                b0 = dst.sl[0] if dst.sl else 0
                tgt.f[b0:b0 + dn] = words
                return UnitV()
            dst, src = a[0], a[1]
            sv = self.read((src.cell, src.path, src.sl)).f
            dn = self.length_of((dst.cell, dst.path, dst.sl))
            if dn != nb * len(sv):
                raise Panic("write_u%dv_%s length mismatch at %s" % (bits, end, where))
            out = []
            for x in sv:
                bs = [BvV(to_bv(x).b.byte(i), "u8") for i in range(nb)]
                if end == "be":
                    bs.reverse()
                out += bs
            tgt = self.nav(dst.cell, dst.path)
            b0 = dst.sl[0] if dst.sl else 0
            tgt.f[b0:b0 + dn] = out
            return UnitV()
        # ---- Range<usize> iteration
        if re.search(r"<(core::ops::)?Range<\w+> as IntoIterator>::into_iter$", n):
            return a[0]
        if re.search(r"<(core::ops::)?Range<(\w+)> as Iterator>::next$", n):
            r = a[0]
            rg = self.read((r.cell, r.path, r.sl))
            s, e = self.cint(rg.f[0], where), self.cint(rg.f[1], where)
            if s < e:
                rg.f[0] = IntV(s + 1, rg.f[0].ty)
                return EnumV("Some", [IntV(s, rg.f[0].ty)])
            return EnumV("None", [])
        # ---- slice iter_mut / iter
        if re.search(r"impl \[\w+\]>::iter(_mut)?$", n):
            r = a[0]
            return IterV("slice", r, 0, self.length_of((r.cell, r.path, r.sl)))
        if re.search(r"<core::slice::Iter(Mut)?<'_, \w+> as IntoIterator>::into_iter$", n):
            return a[0]
        if re.search(r"<core::slice::Iter(Mut)?<'_, \w+> as Iterator>::next$", n):
            r = a[0]
            it = self.read((r.cell, r.path, r.sl))
            if it.pos < it.end:
                base = it.ref.sl[0] if it.ref.sl else 0
                e = RefV(it.ref.cell, it.ref.path + (base + it.pos,), None)
                it.pos += 1
                return EnumV("Some", [e])
            return EnumV("None", [])
        if re.search(r"impl \[\w+\]>::copy_from_slice$", n):
            d, s = a[0], a[1]
            sv = self.read((s.cell, s.path, s.sl))
            dn = self.length_of((d.cell, d.path, d.sl))
            if dn != len(sv.f):
                raise Panic("copy_from_slice length mismatch at %s" % where)
            tgt = self.nav(d.cell, d.path)
            b = d.sl[0] if d.sl else 0
            tgt.f[b:b + dn] = [deep_copy(x) for x in sv.f]
            return UnitV()
        if re.search(r"as (core::clone::)?Clone>::clone$", n):
            r = a[0]
            return deep_copy(self.read((r.cell, r.path, r.sl)))
        if n.endswith("core::cmp::min") or re.search(r"(^|::)min::<usize>$", n):
            x, y = self.cint(a[0], where), self.cint(a[1], where)
            return IntV(min(x, y), "usize")
        if re.search(r"as (core::ops::)?Deref(Mut)?>::deref(_mut)?$", n):
            return a[0]
        raise Unsupported("call to %s at %s" % (fname, where))
