#!/usr/bin/env python3
"""regenerate seeded/INDEX.md from seeded/*/meta.json"""
import json, glob, os
rows = []
for f in sorted(glob.glob("/verif/seeded/*/meta.json")):
    m = json.load(open(f))
    rows.append("| %s | %s | %s | %s | %s |" % (m["seed_id"], m["property"], ", ".join(m.get("files_touched", [])), m.get("needs_to_manifest", "").replace("|", "/"), m.get("caught_by", "").replace("|", "/")))
open("/verif/seeded/INDEX.md", "w").write("# Seeded changes and the checks that report them\n\n| seed | property | files | needs, to manifest | reported by (check: harness) |\n|---|---|---|---|---|\n" + "\n".join(rows) + "\n")
print(len(rows), "seeds")
