// C18 — constant-time predicates and selectors return the ordinary answer.
// Child module of crate::constant_time (appended by the overlay); all operands full width.
#![allow(dead_code, unused_imports, missing_docs)]
use super::*;
use crate::verif_lib::*;

fn b2c(b: bool) -> u64 {
    if b {
        1
    } else {
        0
    }
}

// ---------------------------------------------------------------- u64
#[cfg_attr(kani, kani::proof)]
pub(crate) fn c18_u64_zero_nonzero() {
    let a: u64 = any();
    vcover!(a == 0, "zero");
    vcover!(a == u64::MAX, "max");
    vassert!(a.ct_zero().0 == b2c(a == 0), "u64 ct_zero");
    vassert!(a.ct_nonzero().0 == b2c(a != 0), "u64 ct_nonzero");
}

#[cfg_attr(kani, kani::proof)]
pub(crate) fn c18_u64_eq_ne() {
    let a: u64 = any();
    let b: u64 = any();
    vcover!(a == b, "equal");
    vcover!(a != b, "different");
    vassert!(a.ct_eq(b).0 == b2c(a == b), "u64 ct_eq");
    vassert!(a.ct_ne(b).0 == b2c(a != b), "u64 ct_ne");
}

#[cfg_attr(kani, kani::proof)]
pub(crate) fn c18_u64_lt() {
    let a: u64 = any();
    let b: u64 = any();
    vcover!(a == b, "equal");
    vcover!(a > b && (a ^ b) >> 63 == 1, "msb differs");
    vassert!(u64::ct_lt(a, b).0 == b2c(a < b), "u64 ct_lt");
}

#[cfg_attr(kani, kani::proof)]
pub(crate) fn c18_u64_gt() {
    let a: u64 = any();
    let b: u64 = any();
    vcover!(a == b, "equal");
    vassert!(u64::ct_gt(a, b).0 == b2c(a > b), "u64 ct_gt");
}

#[cfg_attr(kani, kani::proof)]
pub(crate) fn c18_u64_le() {
    let a: u64 = any();
    let b: u64 = any();
    vcover!(a == b, "equal");
    vassert!(u64::ct_le(a, b).0 == b2c(a <= b), "u64 ct_le");
}

#[cfg_attr(kani, kani::proof)]
pub(crate) fn c18_u64_ge() {
    let a: u64 = any();
    let b: u64 = any();
    vcover!(a == b, "equal");
    vassert!(u64::ct_ge(a, b).0 == b2c(a >= b), "u64 ct_ge");
}

// ---------------------------------------------------------------- u8
#[cfg_attr(kani, kani::proof)]
pub(crate) fn c18_u8_all() {
    let a: u8 = any();
    let b: u8 = any();
    vcover!(a == b, "equal");
    vassert!(a.ct_zero().0 == b2c(a == 0), "u8 ct_zero");
    vassert!(a.ct_nonzero().0 == b2c(a != 0), "u8 ct_nonzero");
    vassert!(a.ct_eq(b).0 == b2c(a == b), "u8 ct_eq");
    vassert!(a.ct_ne(b).0 == b2c(a != b), "u8 ct_ne");
}

// ---------------------------------------------------------------- fixed arrays
fn arr8_case<const N: usize>() {
    let a: [u8; N] = any();
    let b: [u8; N] = any();
    let mut zero = true;
    let mut eq = true;
    let mut i = 0;
    while i < N {
        if a[i] != 0 {
            zero = false;
        }
        if a[i] != b[i] {
            eq = false;
        }
        i += 1;
    }
    vcover!(zero, "all zero");
    vcover!(eq, "equal");
    vcover!(N == 0 || !eq, "different");
    vassert!((&a).ct_zero().0 == b2c(zero), "[u8;N] ct_zero");
    vassert!((&a).ct_nonzero().0 == b2c(!zero), "[u8;N] ct_nonzero");
    vassert!((&a).ct_eq(&b).0 == b2c(eq), "[u8;N] ct_eq");
    vassert!((&a).ct_ne(&b).0 == b2c(!eq), "[u8;N] ct_ne");
}
fn arr64_case<const N: usize>() {
    let a: [u64; N] = any();
    let b: [u64; N] = any();
    let mut zero = true;
    let mut eq = true;
    let mut i = 0;
    while i < N {
        if a[i] != 0 {
            zero = false;
        }
        if a[i] != b[i] {
            eq = false;
        }
        i += 1;
    }
    vcover!(zero, "all zero");
    vcover!(eq, "equal");
    vassert!((&a).ct_zero().0 == b2c(zero), "[u64;N] ct_zero");
    vassert!((&a).ct_nonzero().0 == b2c(!zero), "[u64;N] ct_nonzero");
    vassert!((&a).ct_eq(&b).0 == b2c(eq), "[u64;N] ct_eq");
    vassert!((&a).ct_ne(&b).0 == b2c(!eq), "[u64;N] ct_ne");
}

#[cfg_attr(kani, kani::proof)]
#[cfg_attr(kani, kani::unwind(3))]
pub(crate) fn c18_arr8_n0_n1() {
    arr8_case::<0>();
    arr8_case::<1>();
}
#[cfg_attr(kani, kani::proof)]
#[cfg_attr(kani, kani::unwind(7))]
pub(crate) fn c18_arr8_n5() {
    arr8_case::<5>();
}
#[cfg_attr(kani, kani::proof)]
#[cfg_attr(kani, kani::unwind(18))]
pub(crate) fn c18_arr8_n16() {
    arr8_case::<16>();
}
#[cfg_attr(kani, kani::proof)]
#[cfg_attr(kani, kani::unwind(34))]
pub(crate) fn c18_arr8_n32() {
    arr8_case::<32>();
}
#[cfg_attr(kani, kani::proof)]
#[cfg_attr(kani, kani::unwind(3))]
pub(crate) fn c18_arr64_n0_n1() {
    arr64_case::<0>();
    arr64_case::<1>();
}
#[cfg_attr(kani, kani::proof)]
#[cfg_attr(kani, kani::unwind(7))]
pub(crate) fn c18_arr64_n5() {
    arr64_case::<5>();
}

// ---------------------------------------------------------------- slices, symbolic length
#[cfg_attr(kani, kani::proof)]
#[cfg_attr(kani, kani::unwind(42))]
pub(crate) fn c18_slice8_eq_ne() {
    let a = Bytes::<40>::any();
    let b: [u8; 40] = any();
    let n = a.len;
    let mut eq = true;
    let mut i = 0;
    while i < n {
        if a.buf[i] != b[i] {
            eq = false;
        }
        i += 1;
    }
    vcover!(n == 40 && eq, "40 equal bytes");
    vcover!(n == 0, "empty");
    vcover!(n == 40 && !eq && a.buf[39] != b[39], "last byte differs");
    vassert!(a.get().ct_eq(&b[..n]).0 == b2c(eq), "&[u8] ct_eq");
    vassert!(a.get().ct_ne(&b[..n]).0 == b2c(!eq), "&[u8] ct_ne");
}

#[cfg_attr(kani, kani::proof)]
#[cfg_attr(kani, kani::unwind(11))]
pub(crate) fn c18_slice64_all() {
    let a: [u64; 9] = any();
    let b: [u64; 9] = any();
    let n: usize = any();
    assume(n <= 9);
    let mut eq = true;
    let mut zero = true;
    let mut i = 0;
    while i < n {
        if a[i] != b[i] {
            eq = false;
        }
        if a[i] != 0 {
            zero = false;
        }
        i += 1;
    }
    vcover!(n == 9 && eq, "9 equal words");
    vcover!(n == 0, "empty");
    vassert!((&a[..n]).ct_eq(&b[..n]).0 == b2c(eq), "&[u64] ct_eq");
    vassert!((&a[..n]).ct_ne(&b[..n]).0 == b2c(!eq), "&[u64] ct_ne");
    vassert!((&a[..n]).ct_zero().0 == b2c(zero), "&[u64] ct_zero");
    vassert!((&a[..n]).ct_nonzero().0 == b2c(!zero), "&[u64] ct_nonzero");
}

#[cfg_attr(kani, kani::proof)]
#[cfg_attr(kani, kani::unwind(6))]
#[cfg_attr(kani, kani::should_panic)]
pub(crate) fn c18_slice8_len_mismatch_panics() {
    let a: [u8; 4] = any();
    let b: [u8; 4] = any();
    let n: usize = any();
    let m: usize = any();
    assume(n <= 4 && m <= 4 && n != m);
    let _ = (&a[..n]).ct_eq(&b[..m]);
    vcover!(true, "MUST-NOT: returned normally instead of refusing");
}

// ---------------------------------------------------------------- big-endian byte-array ordering
fn be_lt<const N: usize>(a: &[u8; N], b: &[u8; N]) -> (bool, bool) {
    // (a < b, a == b) reading index 0 as the most significant byte
    let mut lt = false;
    let mut eq = true;
    let mut i = 0;
    while i < N {
        if eq && a[i] != b[i] {
            lt = a[i] < b[i];
            eq = false;
        }
        i += 1;
    }
    (lt, eq)
}
fn arr_lesser_case<const N: usize>() {
    let a: [u8; N] = any();
    let b: [u8; N] = any();
    let (lt, eq) = be_lt(&a, &b);
    vcover!(eq, "equal");
    vcover!(lt, "less");
    vcover!(!lt && !eq, "greater");
    vassert!(<&[u8; N]>::ct_lt(&a, &b).0 == b2c(lt), "[u8;N] ct_lt");
    vassert!(<&[u8; N]>::ct_ge(&a, &b).0 == b2c(!lt), "[u8;N] ct_ge");
}
#[cfg_attr(kani, kani::proof)]
#[cfg_attr(kani, kani::unwind(4))]
pub(crate) fn c18_arr_lesser_n1_n2() {
    arr_lesser_case::<1>();
    arr_lesser_case::<2>();
}
#[cfg_attr(kani, kani::proof)]
#[cfg_attr(kani, kani::unwind(10))]
pub(crate) fn c18_arr_lesser_n8() {
    arr_lesser_case::<8>();
}
#[cfg_attr(kani, kani::proof)]
#[cfg_attr(kani, kani::unwind(34))]
pub(crate) fn c18_arr_lesser_n32() {
    arr_lesser_case::<32>();
}

// ---------------------------------------------------------------- Choice algebra, CtOption
#[cfg_attr(kani, kani::proof)]
pub(crate) fn c18_choice_algebra() {
    let x: bool = any();
    let y: bool = any();
    let cx = Choice(b2c(x));
    let cy = Choice(b2c(y));
    vassert!(cx.is_true() == x && cx.is_false() == !x, "is_true/is_false");
    vassert!(bool::from(cx) == x, "From<Choice> for bool");
    vassert!((cx & cy).0 == b2c(x & y), "and");
    vassert!((cx | cy).0 == b2c(x | y), "or");
    vassert!((cx ^ cy).0 == b2c(x ^ y), "xor");
    vassert!(cx.negate().0 == b2c(!x), "negate");
    let v: u32 = any();
    let o: CtOption<u32> = CtOption::from((cx, v));
    match o.into_option() {
        Some(w) => assert!(x && w == v, "into_option Some"),
        None => assert!(!x, "into_option None"),
    }
}

// ---------------------------------------------------------------- conditional swap / assign
#[cfg_attr(kani, kani::proof)]
#[cfg_attr(kani, kani::unwind(7))]
pub(crate) fn c18_array64_swap_set() {
    let a0: [u64; 5] = any();
    let b0: [u64; 5] = any();
    let s: bool = any();
    let (mut a, mut b) = (a0, b0);
    ct_array64_maybe_swap_with(&mut a, &mut b, Choice(b2c(s)));
    let mut c = a0;
    ct_array64_maybe_set(&mut c, &b0, Choice(b2c(s)));
    let mut i = 0;
    while i < 5 {
        vassert!(a[i] == if s { b0[i] } else { a0[i] }, "swap64 a");
        vassert!(b[i] == if s { a0[i] } else { b0[i] }, "swap64 b");
        vassert!(c[i] == if s { b0[i] } else { a0[i] }, "set64");
        i += 1;
    }
}
#[cfg_attr(kani, kani::proof)]
#[cfg_attr(kani, kani::unwind(12))]
pub(crate) fn c18_array32_swap_set() {
    let a0: [i32; 10] = any();
    let b0: [i32; 10] = any();
    let s: bool = any();
    let (mut a, mut b) = (a0, b0);
    ct_array32_maybe_swap_with(&mut a, &mut b, Choice(b2c(s)));
    let mut c = a0;
    ct_array32_maybe_set(&mut c, &b0, Choice(b2c(s)));
    let mut i = 0;
    while i < 10 {
        vassert!(a[i] == if s { b0[i] } else { a0[i] }, "swap32 a");
        vassert!(b[i] == if s { a0[i] } else { b0[i] }, "swap32 b");
        vassert!(c[i] == if s { b0[i] } else { a0[i] }, "set32");
        i += 1;
    }
}

// ---------------------------------------------------------------- MacResult and Tag equality
#[cfg(feature = "mac")]
#[cfg_attr(kani, kani::proof)]
#[cfg_attr(kani, kani::unwind(22))]
pub(crate) fn c18_macresult_eq() {
    use crate::mac::MacResult;
    let a = Bytes::<20>::any();
    let b = Bytes::<20>::any();
    let mut same = a.len == b.len;
    let mut i = 0;
    while i < 20 {
        if i < a.len && i < b.len && a.buf[i] != b.buf[i] {
            same = false;
        }
        i += 1;
    }
    vcover!(same && a.len == 20, "equal 20 bytes");
    vcover!(a.len != b.len, "different lengths");
    vcover!(a.len == b.len && a.len == 20 && !same, "same length, different");
    let ma = MacResult::new(a.get());
    let mb = MacResult::new(b.get());
    let r = ma == mb;
    core::mem::forget(ma);
    core::mem::forget(mb);
    vassert!(r == same, "MacResult ==");
}

#[cfg(all(feature = "chacha", feature = "poly1305"))]
#[cfg_attr(kani, kani::proof)]
#[cfg_attr(kani, kani::unwind(18))]
pub(crate) fn c18_tag_eq() {
    use crate::chacha20poly1305::Tag;
    let a: [u8; 16] = any();
    let b: [u8; 16] = any();
    let mut same = true;
    let mut i = 0;
    while i < 16 {
        if a[i] != b[i] {
            same = false;
        }
        i += 1;
    }
    vcover!(same, "equal");
    let (ta, tb) = (Tag(a), Tag(b));
    vassert!((ta == tb) == same, "Tag ==");
    vassert!((&ta).ct_eq(&tb).0 == b2c(same), "Tag ct_eq");
    vassert!((&ta).ct_ne(&tb).0 == b2c(!same), "Tag ct_ne");
}
