"""Hash families: C01 (digest == specification) and C02 (split / clone / reset / reuse) + their C20 no-panic / refusal harnesses.
Harness files: harness/incrate/hash_*.rs; per-harness notes in NOTES-hash.md."""

OVERLAYS = [
    ("src/hashing/mod.rs", "verif_hash", "hash_spec.rs", None, "crate::hashing"),
    ("src/cryptoutil.rs", "verif_hash_fb", "hash_fixedbuf.rs", None, "crate::cryptoutil"),
    ("src/hashing/sha2/mod.rs", "verif_sha2", "hash_sha2.rs", None, "crate::hashing::sha2"),
    ("src/hashing/sha1.rs", "verif_sha1", "hash_sha1.rs", None, "crate::hashing::sha1"),
    ("src/hashing/ripemd160.rs", "verif_rmd", "hash_ripemd160.rs", None, "crate::hashing::ripemd160"),
    ("src/hashing/sha3.rs", "verif_sha3", "hash_sha3.rs", None, "crate::hashing::sha3"),
    ("src/hashing/keccak.rs", "verif_keccak", "hash_keccak.rs", None, "crate::hashing::keccak"),
    ("src/hashing/blake2b.rs", "verif_blake2b", "hash_blake2b.rs", None, "crate::hashing::blake2b"),
    ("src/hashing/blake2s.rs", "verif_blake2s", "hash_blake2s.rs", None, "crate::hashing::blake2s"),
    # native execution entries for mirsym kernel counterexamples (not proof harnesses)
    ("src/hashing/sha2/mod.rs", "verif_kn_sha2", "knative_sha2.rs", None, "crate::hashing::sha2"),
    ("src/hashing/sha1.rs", "verif_kn_sha1", "knative_sha1.rs", None, "crate::hashing::sha1"),
    ("src/hashing/sha3.rs", "verif_kn_sha3", "knative_sha3.rs", None, "crate::hashing::sha3"),
    ("src/hashing/ripemd160.rs", "verif_kn_rmd", "knative_rmd.rs", None, "crate::hashing::ripemd160"),
    ("src/hashing/blake2/mod.rs", "verif_kn_blake2", "knative_blake2.rs", None, "crate::hashing::blake2"),
]

EXPORTS = {
    "crate::hashing::blake2::verif_kn_blake2": ("src/hashing/mod.rs", "self::blake2::verif_kn_blake2", "verif_kn_blake2_x", None, "crate::hashing"),
}

_STUBS = [
    "recorder stubs (loop-free, return ARBITRARY chaining values, log their arguments): sha2::impl256::digest_block, sha2::impl512::digest_block, "
    "sha1::digest_block, ripemd160::process_msg_block, sha3::keccak_f, blake2::EngineB::compress, blake2::EngineS::compress; in the lemma-composition "
    "harnesses also sha3::Engine::process / finalize / output, Engine256::input / Engine512::input and the contexts' update_mut (each with the contract "
    "decided by its own harness, named in the harness file)",
    "deterministic stand-in kernels (toy_*) ONLY in the end-to-end harnesses c01_oneshot_*, c01_blake2?_keyed_end_to_end, where two computations are compared; "
    "natively (replay) the crate's real kernels run in every harness",
    "representation invariants assumed for the arbitrary start state: Merkle-Damgard: buffer_idx < N, processed_bytes mod N == buffer_idx, finished == false; "
    "sponge: offset < rate, can_absorb (and offset == 0 once finalized); BLAKE2: buflen <= block size",
    "domain: total message length < 2^61 bytes (SHA-1, SHA-224/256, RIPEMD-160) resp. 2^125 bytes (SHA-384/512/512t): the limits of the algorithms themselves; "
    "BLAKE2: two-word byte counter below 2^64 (2s) / 2^128 (2b) bytes (t[1] < MAX); wraps of the low counter word inside a step are INCLUDED (carry asserted)",
]

import mirsym_extra

PROPS = {}
PROPS["C01"] = dict(
    extra=[mirsym_extra.make_extra("C01")],
    prefixes=["c01_"],
    level="model_checking",
    bounds="GLUE of all 25 fixed variants + BLAKE2b/s with every digest length 1..=64/32 and key length 0..=64/32 (both symbolic), compression functions / "
           "keccak_f abstracted by recorders returning arbitrary values. One operation from an ARBITRARY context state per harness (all chaining values, all byte "
           "counters in the algorithm's domain, every buffer fill / sponge offset / BLAKE2 buflen). Per-call input length: FixedBuffer<64>::input <= 130 bytes "
           "(thorough: FixedBuffer<128> <= 258); engine/context update step <= block+2 bytes for SHA-256 engine, SHA-1, RIPEMD-160, BLAKE2s (thorough: <= 2 blocks+2, "
           "and the 128-byte-block engines SHA-512 / BLAKE2b <= 130 and <= 258); sponge absorb step on the generic engine at rate 16 with <= 19 bytes (thorough: real rates "
           "72 and 144 with <= 2*rate+3 resp. rate+2); finalisation (padding, length field, domain separation, last-block flag, counter, output serialisation/truncation): all states, "
           "no length bound; end-to-end one-shot wrappers with stand-in kernels: messages <= block+1 bytes (Merkle-Damgard), <= 2 bytes (sponge), <= 3 bytes (BLAKE2)",
    outside="SSE4.1/AVX/AVX2/aarch64 kernel variants (selected only by -C target-feature; not compilable under Kani, intrinsics not modelled by mirsym): only the portable kernels are decided; "
            "the composition `glue with arbitrary kernel` + `kernel == standard` is by reasoning (both universally quantified), not one end-to-end query; inputs longer than the per-call bound in ONE call (longer messages are compositions of steps: the post-state of "
            "a step is again an arbitrary valid state); sponge absorb step at the real rates 104 and 136 (same generic code as rate 16/72/144); message lengths beyond the algorithms' own limits",
    assumptions=_STUBS,
    trusted=["harness/incrate/hash_spec.rs: transcription of FIPS 180-4 5.1/5.3/6.x, FIPS 202 B.2, RFC 7693 2.5/3.3, RIPEMD-160 padding "
             "(validated natively against the crate's real digests at the padding boundaries: tools note in NOTES-hash.md)",
             "mirsym/bvspecs.py: transcription of the compression functions (FIPS 180-4 6.1.2/6.2.2/6.4.2, FIPS 202 3.2-3.3, RFC 7693 3.2, RIPEMD-160 app. A), self-tested against python hashlib; "
             "mirsym's MIR interpreter and its canonical BV form (bvdomain.py)"],
    explanation="digest(m) = out(fold(F, IV, pad(m))): IV tables, padding/length field/domain separation, block sequencing and chaining, counters and flags, output serialisation and "
                "truncation are decided for every variant by inductive steps from arbitrary states with the kernel F uninterpreted (recorder stubs); the composition is checked end to end "
                "on short messages with stand-in kernels",
    level_text="For every hash variant the glue around the compression function is decided by CBMC for ALL states and all inputs within the per-call bound: new() holds the standard's IV "
               "(SHA-2 IVs recomputed from the square roots of the primes), update compresses exactly the complete blocks of pending||input in order with chained states and keeps the tail, "
               "finalisation emits exactly the standard's padded tail (0x80, zeros, 64/128-bit length in the right byte order; SHA-3 0x06..0x80 / Keccak 0x01..0x80 incl. the single-byte "
               "0x86/0x81; BLAKE2 zero fill, total byte count, last flag, key block, parameter word) and serialises/truncates the final state as specified. Because the kernels return "
               "arbitrary values the result holds for every kernel. The kernels themselves are decided by the mirsym BV engine: the MIR of sha1::digest_block_u32, impl256/impl512 reference digest_block_u*, "
               "ripemd160::process_msg_block, sha3::keccak_f and blake2::reference::compress_b/_s (last and non-last) is executed symbolically for ALL chaining values and ALL blocks and each output word is "
               "shown equal to the standard's compression function (FIPS 180-4, FIPS 202, RFC 7693, RIPEMD-160 app. A), the transcriptions being self-tested against hashlib on every run.",
    level_note="In the CBMC harnesses kernels are stubbed; kernel == standard is the separate mirsym obligation listed in the samples (portable kernels only). Per-call input lengths bounded as listed; arbitrary start states make the step lemmas closed under composition. "
               "Domain: message length below the algorithms' limits; BLAKE2 low-counter-word wrap included.",
)
PROPS["C02"] = dict(
    # the update/absorb STEP harnesses of C01 are the chunking-independence lemma (absorb defined on the concatenated stream): run here too
    prefixes=["c02_", "c01_fixedbuf64_input_step", "c01_sha256_input_step", "c01_sha1_update_step", "c01_ripemd160_update_step", "c01_blake2s_update_step",
              "c01_blake2b_update_shapes", "c01_blake2s_update_shapes", "c01_sponge_process_step_rate16", "c01_t_fixedbuf128_input_step", "c01_t_sha512_input_step", "c01_t_sha256_input_step",
              "c01_t_sha1_update_step", "c01_t_ripemd160_update_step", "c01_t_blake2s_update_step", "c01_t_blake2b_update_step", "c01_t_sponge_process_step"],
    level="model_checking",
    bounds="same step harnesses as C01 (prefix c01_: update step from an arbitrary state = absorb(alpha, chunk) defined on the concatenated stream; chunk lengths 0, 1, N-1, N, N+1, "
           "multi-block all inside the symbolic range) plus, each from an ARBITRARY state: update == update_mut (== exactly one engine call on the caller's slice), reset and finalize_reset == new() "
           "(incl. Engine256.finished, sponge flags/offset/zeroed state, BLAKE2 stale key bytes), BLAKE2 reset_with_key(k) / finalize_reset_with_key(k) == new_keyed(k) for symbolic key length 0..=max, "
           "reset() == new() (unkeyed), derived Clone copies the abstract state (pointer-free structs: copies independent by construction)",
    outside="operation SEQUENCES are not enumerated: they follow by induction from the step lemmas because every operation is shown from an arbitrary valid state and returns a valid state; "
            "the C01 per-call length bounds apply",
    assumptions=_STUBS,
    trusted=["harness/incrate/hash_spec.rs (see C01)"],
    explanation="the abstraction alpha(ctx) = (chaining value, byte count, pending bytes, phase flags) and one lemma per operation from an arbitrary state; the digest is a function of alpha, "
                "and alpha after update depends only on alpha before and the concatenated bytes",
    level_text="For every context type: update(x) and update_mut(x) are the same single engine call; the update step (C01) maps alpha to absorb(alpha, x) where absorb is defined on pending||x, so any split "
               "of a message gives the same alpha; clone copies alpha; reset / finalize_reset restore exactly new()'s alpha; BLAKE2 keyed resets equal new_keyed for every key length; all decided by "
               "CBMC from arbitrary states.",
    level_note="Sequences of operations follow by induction (not enumerated). Plain reset() of a keyed BLAKE2 context gives the UNKEYED fresh state, which is what C02 states (the MAC-level consequence belongs to C09).",
)
PREFIXES = {"C20": ["c20_hash_"]}
