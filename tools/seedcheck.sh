#!/bin/bash
# tools/seedcheck.sh <dir with patch.diff> <Cnn> [tier]  — run a check against a seeded change WITHOUT touching /repo:
# scratch worktree of /repo HEAD + patch, VERIF_REPO points the overlay at it, evidence/replays go to a scratch dir.
set -u
D=$(readlink -f "$1"); ID=$2; TIER=${3:-quick}
W=/tmp/seedchk-wt.$$; O=/tmp/seedchk-out.$$
git -C /repo worktree add -q --detach $W HEAD || exit 3
trap 'git -C /repo worktree remove --force $W; rm -rf $O' EXIT
( cd $W && git apply $D/patch.diff ) || { echo "PATCH DOES NOT APPLY"; exit 4; }
mkdir -p $O
cd /verif && VERIF_REPO=$W VERIF_OUT=$O VERIF_WORK=/var/tmp/cryptoxide-seed ./check $ID --tier $TIER 2>&1 | grep -E "^VIOLATION|^  harness=|^INCONCLUSIVE|^KNOWN|^\[C" | cut -c1-400
rc=${PIPESTATUS[0]}
echo "seedcheck $(basename $(dirname $D))/$(basename $D) $ID rc=$rc"
exit $rc
