// Native execution entry for mirsym kernel counterexamples (Keccak-f[1600] on the 200-byte state).  Not a proof harness.
#![allow(dead_code, unused_imports, missing_docs)]
use crate::verif_lib::*;

#[cfg_attr(kani, kani::proof)]
pub(crate) fn zz_native_kernel_sha3() {
    #[cfg(not(kani))]
    {
        let _op: u8 = any();
        let mut st: [u8; 200] = any();
        super::keccak_f(&mut st);
        let mut s = std::string::String::from("VERIF-NATIVE-OUT:");
        for v in st.iter() {
            s.push_str(&std::format!(" {}", v));
        }
        std::println!("{}", s);
    }
}
