// Portable ChaCha engine (src/chacha/reference.rs, mounted on x86-64 as crate::chacha::reference_verif by the overlay).
#![allow(dead_code, unused_imports, missing_docs)]
use super::*;
use crate::chacha::verif_chacha::*;
use crate::verif_lib::*;

pub(crate) fn to_words<const R: usize>(s: &State<R>) -> [u32; 16] {
    s.state
}
pub(crate) fn from_words<const R: usize>(w: [u32; 16]) -> State<R> {
    State { state: w }
}
impl_eng!(State<R>);

#[cfg_attr(kani, kani::proof)]
#[cfg_attr(kani, kani::unwind(18))]
pub(crate) fn c03_ref_init_k32() {
    case_init::<State<20>, 32>();
}
#[cfg_attr(kani, kani::proof)]
#[cfg_attr(kani, kani::unwind(18))]
pub(crate) fn c03_ref_init_k16() {
    case_init::<State<20>, 16>();
}
#[cfg_attr(kani, kani::proof)]
#[cfg_attr(kani, kani::unwind(18))]
pub(crate) fn c03_ref_double_round() {
    case_rounds::<State<2>>(1);
}
#[cfg_attr(kani, kani::proof)]
#[cfg_attr(kani, kani::unwind(18))]
pub(crate) fn c03_ref_rounds_r4() {
    case_rounds::<State<4>>(2);
}
#[cfg_attr(kani, kani::proof)]
#[cfg_attr(kani, kani::unwind(18))]
pub(crate) fn c03_ref_counters() {
    case_counters::<State<20>>();
}
#[cfg_attr(kani, kani::proof)]
#[cfg_attr(kani, kani::unwind(66))]
pub(crate) fn c03_ref_addback_output() {
    case_addback_output::<State<20>>();
}
#[cfg_attr(kani, kani::proof)]
#[cfg_attr(kani, kani::unwind(66))]
pub(crate) fn c03_t_ref_block_r8() {
    case_block::<State<8>>(4);
}
