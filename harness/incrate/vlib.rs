// Shim shared by every harness file. Compiles in two modes:
//   cfg(kani)                    — symbolic: any() = kani::any(), assume = kani::assume
//   cfg(cryptoxide_verif) + test — native replay: any() reads the counterexample byte stream
// The SAME harness body is what the solver decided and what the replay executes.
#![allow(dead_code, unused_macros, unused_imports, missing_docs)]

#[cfg(kani)]
mod imp {
    pub(crate) trait VAny: kani::Arbitrary {}
    impl<T: kani::Arbitrary> VAny for T {}
    #[inline(always)]
    pub(crate) fn any<T: VAny>() -> T {
        kani::any()
    }
    #[inline(always)]
    pub(crate) fn assume(c: bool) {
        kani::assume(c)
    }
}

#[cfg(not(kani))]
mod imp {
    use std::cell::RefCell;
    use std::vec::Vec;
    std::thread_local! {
        pub(crate) static STREAM: RefCell<(Vec<u8>, usize, bool)> = RefCell::new((Vec::new(), 0, false));
    }
    pub(crate) fn set_stream(v: Vec<u8>) {
        STREAM.with(|s| *s.borrow_mut() = (v, 0, false));
    }
    pub(crate) fn underrun() -> bool {
        STREAM.with(|s| s.borrow().2)
    }
    fn next_byte() -> u8 {
        STREAM.with(|s| {
            let mut s = s.borrow_mut();
            if s.1 < s.0.len() {
                let b = s.0[s.1];
                s.1 += 1;
                b
            } else {
                s.2 = true;
                0
            }
        })
    }
    pub(crate) trait VAny: Sized {
        fn draw() -> Self;
    }
    macro_rules! prim {
        ($($t:ty),*) => {$(
            impl VAny for $t {
                fn draw() -> Self {
                    let mut b = [0u8; core::mem::size_of::<$t>()];
                    for x in b.iter_mut() { *x = next_byte(); }
                    <$t>::from_le_bytes(b)
                }
            }
        )*};
    }
    prim!(u8, u16, u32, u64, u128, usize, i8, i16, i32, i64, i128, isize);
    impl VAny for bool {
        fn draw() -> Self {
            next_byte() != 0
        }
    }
    impl<T: VAny, const N: usize> VAny for [T; N] {
        fn draw() -> Self {
            core::array::from_fn(|_| T::draw())
        }
    }
    pub(crate) fn any<T: VAny>() -> T {
        T::draw()
    }
    pub(crate) fn assume(c: bool) {
        if !c {
            panic!("VERIF-ASSUME-VIOLATED");
        }
    }
}

pub(crate) use imp::*;

/// cover witness: `kani::cover!` under Kani, nothing natively
macro_rules! vcover {
    ($c:expr, $m:expr) => {{
        #[cfg(kani)]
        kani::cover!($c, $m);
        #[cfg(not(kani))]
        let _ = &$c;
    }};
}
pub(crate) use vcover;

/// An arbitrary byte vector with explicit symbolic length 0..=MAX (backing array drawn first so the
/// replay byte stream has a fixed layout: MAX bytes then the length).
pub(crate) struct Bytes<const MAX: usize> {
    pub buf: [u8; MAX],
    pub len: usize,
}
impl<const MAX: usize> Bytes<MAX> {
    pub(crate) fn any() -> Self {
        let buf: [u8; MAX] = any();
        let len: usize = any();
        assume(len <= MAX);
        Bytes { buf, len }
    }
    pub(crate) fn get(&self) -> &[u8] {
        &self.buf[..self.len]
    }
}

/// assertion with a static description (Kani's `assert!` override loses messages in a no_std crate)
macro_rules! vassert {
    ($c:expr, $m:expr) => {{
        #[cfg(kani)]
        kani::assert($c, $m);
        #[cfg(not(kani))]
        assert!($c, $m);
    }};
}
pub(crate) use vassert;

/// Kani stub for `_mm_add_epi32` (lane-wise wrapping add): Kani 0.68 inserts a spurious overflow assertion into simd_add.
#[cfg(all(kani, target_arch = "x86_64"))]
pub(crate) unsafe fn mm_add_epi32_model(a: core::arch::x86_64::__m128i, b: core::arch::x86_64::__m128i) -> core::arch::x86_64::__m128i {
    let x: [u32; 4] = core::mem::transmute(a);
    let y: [u32; 4] = core::mem::transmute(b);
    core::mem::transmute([
        x[0].wrapping_add(y[0]),
        x[1].wrapping_add(y[1]),
        x[2].wrapping_add(y[2]),
        x[3].wrapping_add(y[3]),
    ])
}
