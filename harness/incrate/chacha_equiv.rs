// C16 — SSE2 ChaCha engine == portable engine, side by side on the same symbolic inputs (child of crate::chacha).
#![allow(dead_code, unused_imports, missing_docs)]
use crate::chacha::verif_chacha::*;
use crate::verif_lib::*;
type V<const R: usize> = crate::chacha::sse2::State<R>;
type P<const R: usize> = crate::chacha::reference_verif::State<R>;

#[cfg_attr(kani, kani::proof)]
#[cfg_attr(kani, kani::unwind(65))]
#[cfg_attr(kani, kani::stub(core::arch::x86_64::_mm_add_epi32, crate::verif_lib::mm_add_epi32_model))]
pub(crate) fn c16_chacha_init_k32() {
    case_equiv_init::<V<20>, P<20>, 32, 8>();
    case_equiv_init::<V<20>, P<20>, 32, 12>();
    case_equiv_init::<V<20>, P<20>, 32, 16>();
}
#[cfg_attr(kani, kani::proof)]
#[cfg_attr(kani, kani::unwind(65))]
#[cfg_attr(kani, kani::stub(core::arch::x86_64::_mm_add_epi32, crate::verif_lib::mm_add_epi32_model))]
pub(crate) fn c16_chacha_init_k16() {
    case_equiv_init::<V<20>, P<20>, 16, 8>();
    case_equiv_init::<V<20>, P<20>, 16, 12>();
    case_equiv_init::<V<20>, P<20>, 16, 16>();
}
#[cfg_attr(kani, kani::proof)]
#[cfg_attr(kani, kani::unwind(65))]
#[cfg_attr(kani, kani::stub(core::arch::x86_64::_mm_add_epi32, crate::verif_lib::mm_add_epi32_model))]
pub(crate) fn c16_chacha_ops_double_round() {
    case_equiv_ops::<V<2>, P<2>>();
}
#[cfg_attr(kani, kani::proof)]
#[cfg_attr(kani, kani::unwind(65))]
#[cfg_attr(kani, kani::stub(core::arch::x86_64::_mm_add_epi32, crate::verif_lib::mm_add_epi32_model))]
pub(crate) fn c16_t_chacha_ops_r8() {
    case_equiv_ops::<V<8>, P<8>>();
}
