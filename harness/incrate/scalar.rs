// C13 / C14 / C15 / C17 — scalar bit-level obligations through the backend-independent API of crate::curve25519::scalar
// (child module; runs on scalar64 and, with --features force-32bits, on scalar32).
#![allow(dead_code, unused_imports, missing_docs)]
use super::*;
use crate::verif_lib::*;

/// group order L = 2^252 + 27742317777372353535851937790883648493, four little-endian u64 words (RFC 8032 5.1)
pub(crate) const L: [u64; 4] = [0x5812_631a_5cf5_d3ed, 0x14de_f9de_a2f7_9cd6, 0x0000_0000_0000_0000, 0x1000_0000_0000_0000];

pub(crate) fn words(b: &[u8; 32]) -> [u64; 4] {
    let mut w = [0u64; 4];
    let mut i = 0;
    while i < 32 {
        w[i >> 3] |= (b[i] as u64) << (8 * (i & 7));
        i += 1;
    }
    w
}
pub(crate) fn lt_l(w: &[u64; 4]) -> bool {
    if w[3] != L[3] {
        return w[3] < L[3];
    }
    if w[2] != L[2] {
        return w[2] < L[2];
    }
    if w[1] != L[1] {
        return w[1] < L[1];
    }
    w[0] < L[0]
}

/// the canonical decoder accepts EXACTLY the values below L (so S + L, S + 2L, ... and every other value >= L are refused)
#[cfg_attr(kani, kani::proof)]
#[cfg_attr(kani, kani::unwind(34))]
pub(crate) fn c14_scalar_canonical_iff_below_l() {
    let b: [u8; 32] = any();
    let w = words(&b);
    vcover!(lt_l(&w), "below L");
    vcover!(!lt_l(&w) && w[3] == L[3] && w[2] == 0 && w[1] == L[1], "just above or at L");
    vcover!(w[3] == L[3] && w[2] == L[2] && w[1] == L[1] && w[0] == L[0], "exactly L");
    vcover!(w[3] > 0x2000_0000_0000_0000, "far above L");
    let r = Scalar::from_bytes_canonical(&b);
    vassert!(r.is_some() == lt_l(&w), "from_bytes_canonical accepts exactly the values < L");
    if let Some(s) = r {
        let o = s.to_bytes();
        let mut i = 0;
        while i < 32 {
            vassert!(o[i] == b[i], "from_bytes_canonical: accepted scalar re-encodes to the same bytes");
            i += 1;
        }
    }
}

/// from_bytes / to_bytes round trip for every 32-byte string (limb packing loses nothing), bits() and nibbles() are the binary / radix-16 digits
#[cfg_attr(kani, kani::proof)]
#[cfg_attr(kani, kani::unwind(258))]
pub(crate) fn c15_scalar_bytes_bits_nibbles() {
    let b: [u8; 32] = any();
    let s = Scalar::from_bytes(&b);
    let o = s.to_bytes();
    let mut i = 0;
    while i < 32 {
        vassert!(o[i] == b[i], "to_bytes(from_bytes(b)) == b");
        i += 1;
    }
    let bits = s.bits();
    let mut i = 0;
    while i < 256 {
        vassert!(bits[i] == ((b[i >> 3] >> (i & 7)) & 1) as i8, "bits(): little-endian binary digits");
        i += 1;
    }
    let nib = s.nibbles();
    let mut i = 0;
    while i < 32 {
        vassert!(nib[2 * i] == (b[i] & 15) as i8 && nib[2 * i + 1] == (b[i] >> 4) as i8, "nibbles(): little-endian radix-16 digits");
        i += 1;
    }
}
