// Native execution entry for mirsym counterexamples (mounted at crate root).  Not a proof harness of any property: the runner
// feeds it (operation, operand limbs) of a solver counterexample and reads back the limbs the REAL build computes, so that a
// mirsym violation is only reported when the native code agrees with the MIR interpreter (and overflow obligations show up as
// the dev build's own overflow panic).
#![allow(dead_code, unused_imports, missing_docs)]
use crate::verif_lib::*;

#[cfg(not(kani))]
fn out(vals: &[i128]) {
    let mut s = std::string::String::from("VERIF-NATIVE-OUT:");
    for v in vals {
        s.push_str(&std::format!(" {}", v));
    }
    std::println!("{}", s);
}

#[cfg_attr(kani, kani::proof)]
pub(crate) fn zz_native_limbs() {
    #[cfg(not(kani))]
    {
        use crate::curve25519::Fe;
        let op: u8 = any();
        let n = Fe::ZERO.0.len();
        let mut rd = || {
            let mut f = Fe::ZERO;
            for i in 0..n {
                let v: i64 = any();
                f.0[i] = v as _;
            }
            f
        };
        let limbs = |f: &Fe| -> std::vec::Vec<i128> { f.0.iter().map(|x| *x as i128).collect() };
        match op {
            1 => { let (a, b) = (rd(), rd()); out(&limbs(&(&a + &b))) }
            2 => { let (a, b) = (rd(), rd()); out(&limbs(&(&a - &b))) }
            3 => { let (a, b) = (rd(), rd()); out(&limbs(&(&a * &b))) }
            4 => { let a = rd(); out(&limbs(&(-&a))) }
            5 => { let a = rd(); out(&limbs(&a.square())) }
            6 => { let a = rd(); out(&limbs(&a.square_and_double())) }
            7 => { let a = rd(); out(&limbs(&a.mul_small::<121666>())) }
            8 => { let a = rd(); let b = a.to_bytes(); out(&b.iter().map(|x| *x as i128).collect::<std::vec::Vec<_>>()) }
            9 => { let b: [u8; 32] = any(); out(&limbs(&Fe::from_bytes(&b))) }
            10 => {
                let mut a = rd();
                a.negate_mut();
                out(&limbs(&a))
            }
            20 => {
                let r: [u32; 5] = any();
                let h: [u32; 5] = any();
                let m: [u8; 16] = any();
                let fin: bool = any();
                let h2 = crate::poly1305::verif_poly::native_block(r, h, m, fin);
                out(&h2.iter().map(|x| *x as i128).collect::<std::vec::Vec<_>>())
            }
            30 => {
                let a: [u8; 32] = any();
                let b: [u8; 32] = any();
                let one = { let mut o = [0u8; 32]; o[0] = 1; o };
                let s = crate::curve25519::scalar::muladd(&crate::curve25519::Scalar::from_bytes(&a), &crate::curve25519::Scalar::from_bytes(&one), &crate::curve25519::Scalar::from_bytes(&b));
                out(&s.to_bytes().iter().map(|x| *x as i128).collect::<std::vec::Vec<_>>())
            }
            _ => {}
        }
    }
}
