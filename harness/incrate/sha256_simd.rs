// C16 — SHA-256 vectorised block functions: the BATCHING logic of avx::digest_block (8 blocks at a time, then the SSE4.1 path,
// then the scalar tail) and sse41::digest_block (4 at a time, then the scalar tail).  Child module of crate::hashing::sha2::impl256;
// the overlay mounts avx.rs / sse41.rs even though the build does not enable the target features (Kani ignores -C target-feature).
// The SIMD kernels (message schedules, compress_*ways) and the portable block function are recorded: CBMC cannot execute AVX
// intrinsics, and the claim here is about WHICH bytes each kernel is given: every 64-byte block exactly once, in order, for every
// number of blocks.  Natively (this host has AVX2) the twin runs the real vector code against the portable code.
#![allow(dead_code, unused_imports, missing_docs)]
use super::*;
use crate::verif_lib::*;
#[cfg(target_arch = "x86_64")]
use core::arch::x86_64::*;

pub(crate) const K8: u8 = 8;
pub(crate) const K4: u8 = 4;
pub(crate) const K1: u8 = 1;
pub(crate) const NLOG: usize = 8;
pub(crate) static mut SN: usize = 0;
pub(crate) static mut S_KIND: [u8; NLOG] = [0; NLOG];
pub(crate) static mut S_PTR: [usize; NLOG] = [0; NLOG];
pub(crate) static mut S_LEN: [usize; NLOG] = [0; NLOG];
pub(crate) static mut CN: usize = 0;
pub(crate) static mut C_KIND: [u8; NLOG] = [0; NLOG];
pub(crate) static mut C_AFTER: [usize; NLOG] = [0; NLOG]; // number of schedule calls made when this compression ran

#[cfg(kani)]
fn sched(kind: u8, m: &[u8]) {
    unsafe {
        if SN < NLOG {
            S_KIND[SN] = kind;
            S_PTR[SN] = m.as_ptr() as usize;
            S_LEN[SN] = m.len();
        }
        SN += 1;
    }
}
#[cfg(kani)]
fn comp(kind: u8) {
    unsafe {
        if CN < NLOG {
            C_KIND[CN] = kind;
            C_AFTER[CN] = SN;
        }
        CN += 1;
    }
}
#[cfg(kani)]
pub(crate) unsafe fn sched8_rec(_s: &mut [__m256i; 64], m: &[u8]) {
    sched(K8, m)
}
#[cfg(kani)]
pub(crate) unsafe fn comp8_rec(_st: &mut [u32; 8], _s: &[__m256i; 64]) {
    comp(K8)
}
#[cfg(kani)]
pub(crate) unsafe fn sched4_rec(_s: &mut [__m128i; 64], m: &[u8]) {
    sched(K4, m)
}
#[cfg(kani)]
pub(crate) unsafe fn comp4_rec(_st: &mut [u32; 8], _s: &[__m128i; 64]) {
    comp(K4)
}
#[cfg(kani)]
pub(crate) fn ref_rec(_st: &mut [u32; 8], block: &[u8]) {
    sched(K1, block);
    comp(K1);
}

const MAXB: usize = 20;
/// which = 8: avx::digest_block, which = 4: sse41::digest_block
fn case_batching(which: u8) {
    let data: [u8; 64 * MAXB] = any();
    let n: usize = any();
    assume(n <= MAXB);
    vcover!(n == 0, "no block");
    vcover!(n == 7, "less than one 8-way batch: 4-way batch plus three scalar blocks");
    vcover!(n == 12, "one 8-way batch and exactly one 4-way batch");
    vcover!(n == MAXB, "two 8-way batches and a 4-way batch");
    let mut st: [u32; 8] = any();
    let st0 = st;
    let msg = &data[..64 * n];
    if which == 8 {
        avx::digest_block(&mut st, msg);
    } else {
        sse41::digest_block(&mut st, msg);
    }
    #[cfg(kani)]
    unsafe {
        let base = data.as_ptr() as usize;
        let n8 = if which == 8 { n >> 3 } else { 0 };
        let rest = n - 8 * n8;
        let n4 = rest >> 2;
        let n1 = rest & 3;
        let calls = n8 + n4 + if n1 > 0 { 1 } else { 0 };
        vassert!(SN == calls && CN == calls, "digest_block: one schedule + one compression per batch: n/8 eight-way, then (n%8)/4 four-way, then one scalar call for the last n%4 blocks");
        let mut k = 0;
        let mut off = 0usize;
        while k < NLOG {
            if k < calls {
                let kind = if k < n8 { K8 } else if k < n8 + n4 { K4 } else { K1 };
                vassert!(S_KIND[k] == kind && C_KIND[k] == kind && C_AFTER[k] == k + 1, "digest_block: batches in the order 8-way, 4-way, scalar; each schedule compressed immediately");
                vassert!(S_PTR[k] == base + off, "digest_block: each batch starts at the first block not yet processed (no block skipped or repeated)");
                if kind == K1 {
                    vassert!(S_LEN[k] == 64 * n1, "digest_block: the scalar tail gets exactly the remaining blocks");
                    off += 64 * n1;
                } else {
                    vassert!(S_LEN[k] >= 64 * kind as usize, "digest_block: a vector batch has its full input available");
                    off += 64 * kind as usize;
                }
            }
            k += 1;
        }
        vassert!(off == 64 * n, "digest_block: all n blocks consumed");
    }
    #[cfg(not(kani))]
    {
        let mut want = st0;
        reference::digest_block(&mut want, msg);
        assert!(st == want, "digest_block: each batch starts at the first block not yet processed (no block skipped or repeated)");
    }
    let _ = st0;
}
#[cfg_attr(kani, kani::proof)]
#[cfg_attr(kani, kani::unwind(10))]
#[cfg_attr(kani, kani::stub(avx::message_schedule_8ways, sched8_rec))]
#[cfg_attr(kani, kani::stub(avx::compress_8ways, comp8_rec))]
#[cfg_attr(kani, kani::stub(sse41::message_schedule_4ways, sched4_rec))]
#[cfg_attr(kani, kani::stub(sse41::compress_4ways, comp4_rec))]
#[cfg_attr(kani, kani::stub(reference::digest_block, ref_rec))]
pub(crate) fn c16_sha256_avx_batching() {
    case_batching(8);
}
#[cfg_attr(kani, kani::proof)]
#[cfg_attr(kani, kani::unwind(10))]
#[cfg_attr(kani, kani::stub(sse41::message_schedule_4ways, sched4_rec))]
#[cfg_attr(kani, kani::stub(sse41::compress_4ways, comp4_rec))]
#[cfg_attr(kani, kani::stub(reference::digest_block, ref_rec))]
pub(crate) fn c16_sha256_sse41_batching() {
    case_batching(4);
}
