// C09 / C20 — life cycle of the Poly1305 MAC object (src/poly1305.rs; child module of crate::poly1305).
//
// States are built field by field: ARBITRARY clamped r, pad, accumulator limbs below 2^27 (a superset of what block()
// leaves: limbs < 2^26 + carry), any buffer, leftover 0..=15.  The field multiplication `Poly1305::block` (symbolic x
// symbolic 32x32->64 products: out of SAT's reach, and irrelevant to the life cycle) is replaced under Kani by a recorder
// that leaves an arbitrary accumulator below 2^27 — so every claim holds for every block function.  finish(), the
// finalized flag, input's gate, reset and the tag serialisation are the REAL code.  Natively the real block() runs.
//
// Property (C09): asking for the result again without reset returns the same bytes (or fails loudly); input after a
// result without reset fails loudly; reset == fresh object with the same key.
// The message-length classes "ends with a partial block" (leftover > 0) and "multiple of 16 bytes" (leftover == 0) are
// decided by SEPARATE harnesses so that a verdict for one class does not hide the other.
#![allow(dead_code, unused_imports, missing_docs, static_mut_refs)]
use super::*;
use crate::verif_lib::*;

pub(crate) static mut NBLOCK: usize = 0;

#[cfg(kani)]
pub(crate) fn block_rec(p: &mut Poly1305, m: &[u8]) {
    assert!(m.len() >= 16);
    let h: [u32; 5] = kani::any();
    kani::assume(h[0] < (1 << 27) && h[1] < (1 << 27) && h[2] < (1 << 27) && h[3] < (1 << 27) && h[4] < (1 << 27));
    p.h = h;
    unsafe { NBLOCK += 1 };
}

pub(crate) struct Arb {
    pub r: [u32; 5],
    pub h: [u32; 5],
    pub pad: [u32; 4],
    pub leftover: usize,
    pub buffer: [u8; 16],
}
/// arbitrary valid Poly1305 state components (drawn in a fixed order)
pub(crate) fn arb() -> Arb {
    let r: [u32; 5] = any();
    let h: [u32; 5] = any();
    let pad: [u32; 4] = any();
    let leftover: usize = any();
    let buffer: [u8; 16] = any();
    assume(r[0] <= 0x3ffffff && r[1] <= 0x3ffff03 && r[2] <= 0x3ffc0ff && r[3] <= 0x3f03fff && r[4] <= 0x00fffff);
    assume(h[0] < (1 << 27) && h[1] < (1 << 27) && h[2] < (1 << 27) && h[3] < (1 << 27) && h[4] < (1 << 27));
    assume(leftover < 16);
    Arb { r, h, pad, leftover, buffer }
}
pub(crate) fn mk(a: &Arb, finalized: bool) -> Poly1305 {
    Poly1305 { r: a.r, h: a.h, pad: a.pad, leftover: a.leftover, buffer: a.buffer, finalized }
}
pub(crate) fn mk_poly(r: [u32; 5], h: [u32; 5], pad: [u32; 4], leftover: usize, buffer: [u8; 16], finalized: bool) -> Poly1305 {
    Poly1305 { r, h, pad, leftover, buffer, finalized }
}
fn tag_of(h: &[u32; 5]) -> [u8; 16] {
    let mut t = [0u8; 16];
    let mut i = 0;
    while i < 4 {
        t[4 * i] = h[i] as u8;
        t[4 * i + 1] = (h[i] >> 8) as u8;
        t[4 * i + 2] = (h[i] >> 16) as u8;
        t[4 * i + 3] = (h[i] >> 24) as u8;
        i += 1;
    }
    t
}

fn case_result_twice(a: Arb) {
    let mut p = mk(&a, false);
    let mut o1 = [0u8; 16];
    let mut o2 = [0u8; 16];
    p.raw_result(&mut o1);
    p.raw_result(&mut o2);
    let mut i = 0;
    while i < 16 {
        vassert!(o1[i] == o2[i], "Poly1305: second raw_result without reset returns the same bytes");
        i += 1;
    }
}
/// message ending in a partial block (leftover 1..=15): result twice gives the same tag
#[cfg_attr(kani, kani::proof)]
#[cfg_attr(kani, kani::unwind(18))]
#[cfg_attr(kani, kani::stub(Poly1305::block, block_rec))]
pub(crate) fn c09_poly_result_twice_partial_block() {
    let a = arb();
    assume(a.leftover > 0);
    vcover!(a.leftover == 1, "one byte pending");
    vcover!(a.leftover == 15, "fifteen bytes pending");
    case_result_twice(a);
    vcover!(true, "witness: end of harness reached");
}
/// message whose length is a multiple of 16 (leftover == 0, includes the empty message): result twice gives the same tag
#[cfg_attr(kani, kani::proof)]
#[cfg_attr(kani, kani::unwind(18))]
#[cfg_attr(kani, kani::stub(Poly1305::block, block_rec))]
pub(crate) fn c09_poly_result_twice_full_blocks() {
    let a = arb();
    assume(a.leftover == 0);
    case_result_twice(a);
    vcover!(true, "witness: end of harness reached");
}
/// same through Mac::result (MacResult values)
#[cfg_attr(kani, kani::proof)]
#[cfg_attr(kani, kani::unwind(18))]
#[cfg_attr(kani, kani::stub(Poly1305::block, block_rec))]
pub(crate) fn c09_poly_macresult_twice_full_blocks() {
    let a = arb();
    assume(a.leftover == 0);
    let mut p = mk(&a, false);
    let r1 = p.result();
    let r2 = p.result();
    let (c1, c2) = (r1.code(), r2.code());
    vassert!(c1.len() == 16 && c2.len() == 16, "Poly1305::result: 16-byte code");
    let mut i = 0;
    while i < 16 {
        vassert!(c1[i] == c2[i], "Poly1305: second result without reset returns the same bytes");
        i += 1;
    }
    vcover!(true, "witness: end of harness reached");
}

fn case_input_after_result(a: Arb) {
    let data = Bytes::<3>::any();
    let mut p = mk(&a, false);
    let mut o1 = [0u8; 16];
    p.raw_result(&mut o1);
    p.input(data.get());
}
/// input after a result (partial last block) without reset fails loudly
#[cfg_attr(kani, kani::proof)]
#[cfg_attr(kani, kani::should_panic)]
#[cfg_attr(kani, kani::unwind(18))]
#[cfg_attr(kani, kani::stub(Poly1305::block, block_rec))]
pub(crate) fn c09_poly_input_after_result_partial_block_panics() {
    let a = arb();
    assume(a.leftover > 0);
    case_input_after_result(a);
    vcover!(true, "MUST-NOT: Poly1305 accepted input after a result without reset");
}
/// input after a result (message length multiple of 16) without reset fails loudly
#[cfg_attr(kani, kani::proof)]
#[cfg_attr(kani, kani::should_panic)]
#[cfg_attr(kani, kani::unwind(18))]
#[cfg_attr(kani, kani::stub(Poly1305::block, block_rec))]
pub(crate) fn c09_poly_input_after_result_full_blocks_panics() {
    let a = arb();
    assume(a.leftover == 0);
    case_input_after_result(a);
    vcover!(true, "MUST-NOT: Poly1305 accepted input after a result without reset");
}

/// the same two claims through the PUBLIC API only, no stub involved: new(key); result; result  and  new(key); result; input
/// (empty message = the simplest message whose length is a multiple of 16; every key)
#[cfg_attr(kani, kani::proof)]
#[cfg_attr(kani, kani::unwind(18))]
pub(crate) fn c09_poly_api_empty_message_result_twice() {
    let key: [u8; 32] = any();
    let mut p = Poly1305::new(&key);
    let mut o1 = [0u8; 16];
    let mut o2 = [0u8; 16];
    p.raw_result(&mut o1);
    p.raw_result(&mut o2);
    let mut i = 0;
    while i < 16 {
        vassert!(o1[i] == o2[i], "Poly1305 (public API, empty message): second raw_result without reset returns the same bytes");
        i += 1;
    }
    vcover!(true, "witness: end of harness reached");
}
#[cfg_attr(kani, kani::proof)]
#[cfg_attr(kani, kani::should_panic)]
#[cfg_attr(kani, kani::unwind(18))]
#[cfg_attr(kani, kani::stub(Poly1305::block, block_rec))]
pub(crate) fn c09_poly_api_empty_message_input_after_result_panics() {
    let key: [u8; 32] = any();
    let data = Bytes::<3>::any();
    let mut p = Poly1305::new(&key);
    let _ = p.result();
    p.input(data.get());
    vcover!(true, "MUST-NOT: Poly1305 (public API, empty message) accepted input after a result without reset");
}

/// inductive form: the first raw_result from ANY un-finalized state leaves the object finalized, tag = LE(h[0..4])
#[cfg_attr(kani, kani::proof)]
#[cfg_attr(kani, kani::unwind(18))]
#[cfg_attr(kani, kani::stub(Poly1305::block, block_rec))]
pub(crate) fn c09_poly_result_step_partial_block() {
    let a = arb();
    assume(a.leftover > 0);
    let mut p = mk(&a, false);
    let mut o = [0u8; 16];
    p.raw_result(&mut o);
    vassert!(p.finalized, "Poly1305::raw_result: object is finalized afterwards");
    let t = tag_of(&p.h);
    let mut i = 0;
    while i < 16 {
        vassert!(o[i] == t[i], "Poly1305::raw_result: tag = little-endian h[0..4]");
        i += 1;
    }
    let mut i = 0;
    while i < 5 {
        vassert!(p.r[i] == a.r[i], "Poly1305::raw_result: key r retained");
        i += 1;
    }
    vassert!(p.pad[0] == a.pad[0] && p.pad[1] == a.pad[1] && p.pad[2] == a.pad[2] && p.pad[3] == a.pad[3], "Poly1305::raw_result: key pad retained");
    vcover!(true, "witness: end of harness reached");
}
/// a finalized object: raw_result is a pure read (same bytes for ever, state untouched) — any h, also full 32-bit words
#[cfg_attr(kani, kani::proof)]
#[cfg_attr(kani, kani::unwind(18))]
#[cfg_attr(kani, kani::stub(Poly1305::block, block_rec))]
pub(crate) fn c09_poly_finalized_result_is_stable() {
    let mut a = arb();
    let hfull: [u32; 5] = any();
    a.h = hfull;
    let mut p = mk(&a, true);
    let mut o = [0u8; 16];
    p.raw_result(&mut o);
    let t = tag_of(&hfull);
    let mut i = 0;
    while i < 16 {
        vassert!(o[i] == t[i], "Poly1305 finalized: raw_result returns the stored tag");
        i += 1;
    }
    let mut i = 0;
    while i < 5 {
        vassert!(p.h[i] == hfull[i] && p.r[i] == a.r[i], "Poly1305 finalized: raw_result leaves the state untouched");
        i += 1;
    }
    vassert!(p.finalized && p.leftover == a.leftover, "Poly1305 finalized: raw_result leaves the state untouched");
    vassert!(unsafe { NBLOCK == 0 }, "Poly1305 finalized: nothing absorbed by a repeated result");
    vcover!(true, "witness: end of harness reached");
}
/// a finalized object refuses input
#[cfg_attr(kani, kani::proof)]
#[cfg_attr(kani, kani::should_panic)]
#[cfg_attr(kani, kani::unwind(18))]
#[cfg_attr(kani, kani::stub(Poly1305::block, block_rec))]
pub(crate) fn c09_poly_finalized_input_panics() {
    let a = arb();
    let data = Bytes::<3>::any();
    let mut p = mk(&a, true);
    p.input(data.get());
    vcover!(true, "MUST-NOT: finalized Poly1305 accepted input");
}

/// reset from ANY state == new(key): accumulator 0, nothing pending, not finalized, key material as derived by new()
/// (the 16-byte buffer is not compared: with leftover == 0 input() overwrites it before reading — C05 step lemma)
#[cfg_attr(kani, kani::proof)]
#[cfg_attr(kani, kani::unwind(18))]
pub(crate) fn c09_poly_reset_is_fresh() {
    let key: [u8; 32] = any();
    let a = arb();
    let fin: bool = any();
    vcover!(fin, "reset after a result");
    vcover!(!fin && a.leftover == 7, "reset in the middle of a message");
    let fresh = Poly1305::new(&key);
    let mut p = Poly1305::new(&key);
    p.h = a.h;
    p.leftover = a.leftover;
    p.buffer = a.buffer;
    p.finalized = fin;
    p.reset();
    let mut i = 0;
    while i < 5 {
        vassert!(p.h[i] == fresh.h[i] && p.h[i] == 0, "Poly1305::reset: accumulator cleared as in new()");
        vassert!(p.r[i] == fresh.r[i], "Poly1305::reset: r as in new(key)");
        i += 1;
    }
    vassert!(p.pad[0] == fresh.pad[0] && p.pad[1] == fresh.pad[1] && p.pad[2] == fresh.pad[2] && p.pad[3] == fresh.pad[3], "Poly1305::reset: pad as in new(key)");
    vassert!(p.leftover == fresh.leftover && p.leftover == 0, "Poly1305::reset: nothing pending, as in new()");
    vassert!(p.finalized == fresh.finalized && !p.finalized, "Poly1305::reset: not finalized, as in new()");
    vcover!(true, "witness: end of harness reached");
}

/// clone: field-wise copy (continuing either copy gives the same results)
#[cfg_attr(kani, kani::proof)]
#[cfg_attr(kani, kani::unwind(18))]
pub(crate) fn c09_poly_clone() {
    let a = arb();
    let fin: bool = any();
    let p = mk(&a, fin);
    let q = p.clone();
    let mut i = 0;
    while i < 5 {
        vassert!(q.h[i] == p.h[i] && q.r[i] == p.r[i], "Poly1305::clone: same accumulator and key");
        i += 1;
    }
    let mut i = 0;
    while i < 16 {
        vassert!(q.buffer[i] == p.buffer[i], "Poly1305::clone: same pending bytes");
        i += 1;
    }
    vassert!(q.pad[0] == p.pad[0] && q.pad[1] == p.pad[1] && q.pad[2] == p.pad[2] && q.pad[3] == p.pad[3], "Poly1305::clone: same pad");
    vassert!(q.leftover == p.leftover && q.finalized == p.finalized, "Poly1305::clone: same position and flag");
    vcover!(true, "witness: end of harness reached");
}

// ------------------------------------------------------------------------------------------------ C20
/// raw_result into fewer than 16 bytes is refused
#[cfg_attr(kani, kani::proof)]
#[cfg_attr(kani, kani::should_panic)]
#[cfg_attr(kani, kani::unwind(18))]
#[cfg_attr(kani, kani::stub(Poly1305::block, block_rec))]
pub(crate) fn c20_mackdf_poly_short_output_panics() {
    let a = arb();
    let fin: bool = any();
    let n: usize = any();
    assume(n < 16);
    let mut p = mk(&a, fin);
    let mut o = [0u8; 16];
    p.raw_result(&mut o[..n]);
    vcover!(true, "MUST-NOT: Poly1305::raw_result accepted an output buffer shorter than the tag");
}
/// legal use from any valid state: input of any length 0..=40, then result: no overflow, no index error, no gate failure
#[cfg_attr(kani, kani::proof)]
#[cfg_attr(kani, kani::unwind(18))]
#[cfg_attr(kani, kani::stub(Poly1305::block, block_rec))]
pub(crate) fn c20_mackdf_poly_legal_use_no_panic() {
    let a = arb();
    let data = Bytes::<40>::any();
    vcover!(a.leftover == 15 && data.len == 40, "pending bytes, long input");
    vcover!(a.leftover == 0 && data.len == 32, "two whole blocks");
    let mut p = mk(&a, false);
    p.input(data.get());
    vassert!(p.leftover < 16 && !p.finalized, "Poly1305::input: invariant leftover < 16 kept");
    vassert!(p.leftover == (a.leftover + data.len) & 15, "Poly1305::input: pending byte count = total mod 16");
    let r = p.result();
    vassert!(r.code().len() == 16, "Poly1305::result: 16-byte code");
    vcover!(true, "witness: end of harness reached");
}
