// C20 (misc) — constructor refusals of the Salsa20 family (src/salsa20.rs; child module of crate::salsa20).
// Same scheme as c20_misc_chacha.rs: key length must be 16 or 32 (symbolic illegal length 0..=40 is refused by a panic,
// in particular State::init's `unreachable!()` arm is never entered and no short key is indexed out of bounds);
// ROUNDS must be 8, 12 or 20 (instantiations 7, 10, 21 are refused, 8 / 12 / 20 return normally).
// "MUST-NOT" covers after each refused call make the refusal hold on EVERY path (see c20_misc_chacha.rs).
#![allow(dead_code, unused_imports, missing_docs)]
use super::*;
use crate::chacha20::verif_c20m_chacha::{illegal_key, legal_key};
use crate::verif_lib::*;

fn salsa_new<const R: usize>() {
    let (kb, kl) = legal_key();
    let nonce: [u8; 8] = any();
    let c = Salsa::<R>::new(&kb[..kl], &nonce);
    vassert!(c.offset == 64, "Salsa::new: nothing cached");
}
fn salsa_new_illegal_key<const R: usize>() {
    let (kb, kl) = illegal_key();
    let nonce: [u8; 8] = any();
    let c = Salsa::<R>::new(&kb[..kl], &nonce);
    vassert!(c.offset == 64, "Salsa::new: nothing cached");
}
fn xsalsa_new<const R: usize>() {
    let key: [u8; 32] = any();
    let nonce: [u8; 24] = any();
    let c = XSalsa::<R>::new(&key, &nonce);
    vassert!(c.offset == 64, "XSalsa::new: nothing cached");
}

#[cfg_attr(kani, kani::proof)]
#[cfg_attr(kani, kani::unwind(42))]
pub(crate) fn c20_misc_salsa_new_legal() {
    salsa_new::<8>();
    salsa_new::<12>();
    salsa_new::<20>();
}
/// XSalsa::new runs the real HSalsa rounds
#[cfg_attr(kani, kani::proof)]
#[cfg_attr(kani, kani::unwind(42))]
pub(crate) fn c20_misc_xsalsa_new_legal() {
    xsalsa_new::<8>();
    xsalsa_new::<12>();
    xsalsa_new::<20>();
}
#[cfg_attr(kani, kani::proof)]
#[cfg_attr(kani, kani::should_panic)]
#[cfg_attr(kani, kani::unwind(42))]
pub(crate) fn c20_misc_salsa_new_keylen_panics() {
    salsa_new_illegal_key::<20>();
    vcover!(true, "MUST-NOT: Salsa::new returned for a key length other than 16 or 32");
}
#[cfg_attr(kani, kani::proof)]
#[cfg_attr(kani, kani::should_panic)]
#[cfg_attr(kani, kani::unwind(42))]
pub(crate) fn c20_misc_salsa_new_rounds7_panics() {
    salsa_new::<7>();
    vcover!(true, "MUST-NOT: Salsa::new returned for ROUNDS = 7");
}
#[cfg_attr(kani, kani::proof)]
#[cfg_attr(kani, kani::should_panic)]
#[cfg_attr(kani, kani::unwind(42))]
pub(crate) fn c20_misc_salsa_new_rounds10_panics() {
    salsa_new::<10>();
    vcover!(true, "MUST-NOT: Salsa::new returned for ROUNDS = 10");
}
#[cfg_attr(kani, kani::proof)]
#[cfg_attr(kani, kani::should_panic)]
#[cfg_attr(kani, kani::unwind(42))]
pub(crate) fn c20_misc_salsa_new_rounds21_panics() {
    salsa_new::<21>();
    vcover!(true, "MUST-NOT: Salsa::new returned for ROUNDS = 21");
}
#[cfg_attr(kani, kani::proof)]
#[cfg_attr(kani, kani::should_panic)]
#[cfg_attr(kani, kani::unwind(42))]
pub(crate) fn c20_misc_xsalsa_new_rounds7_panics() {
    xsalsa_new::<7>();
    vcover!(true, "MUST-NOT: XSalsa::new returned for ROUNDS = 7");
}
#[cfg_attr(kani, kani::proof)]
#[cfg_attr(kani, kani::should_panic)]
#[cfg_attr(kani, kani::unwind(42))]
pub(crate) fn c20_misc_xsalsa_new_rounds10_panics() {
    xsalsa_new::<10>();
    vcover!(true, "MUST-NOT: XSalsa::new returned for ROUNDS = 10");
}
#[cfg_attr(kani, kani::proof)]
#[cfg_attr(kani, kani::should_panic)]
#[cfg_attr(kani, kani::unwind(42))]
pub(crate) fn c20_misc_xsalsa_new_rounds21_panics() {
    xsalsa_new::<21>();
    vcover!(true, "MUST-NOT: XSalsa::new returned for ROUNDS = 21");
}
