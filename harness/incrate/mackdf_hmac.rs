// C08 / C09 / C20 — src/hmac.rs (child module of crate::hmac).
//
// `Hmac<D>` is generic in the digest and touches it only through the `Digest` trait.  It is instantiated here with a
// RECORDING digest `RecDigest<BS, OS>` (block size BS, output size OS):
//   * input() appends to the message absorbed since the last reset (bounded by CAP bytes),
//   * result() closes the message: it logs (message, fresh arbitrary OS-byte output) in a ghost log and returns that output,
//   * reset() starts a new message,
//   * and it ENFORCES the legacy-digest protocol exactly like the real wrappers (src/sha2.rs ... assert!(!self.computed)):
//     input or result after a result without reset panics; result into a buffer that is not OS bytes long panics
//     (the real wrappers `copy_from_slice` / BLAKE2 `assert!(out.len() == outlen)`).
// Because every result() is an arbitrary value, a claim proven over RecDigest holds for EVERY hash function H with that
// block/output size (uninterpreted-function argument); the ghost log says which messages were hashed.
// RecDigest is ordinary Rust (not a Kani stub): the same harness body runs natively, outputs come from the replay stream.
//
// Specification (RFC 2104 section 2, written from the RFC): K' = key zero-padded to B bytes, or H(key) zero-padded when
// key is longer than B;  HMAC = H((K' xor opad) || H((K' xor ipad) || text)), ipad = 0x36 * B, opad = 0x5c * B.
#![allow(dead_code, unused_imports, missing_docs, static_mut_refs)]
use super::*;
use crate::verif_lib::*;

pub(crate) const CAP: usize = 24; // longest message a RecDigest absorbs between two resets
pub(crate) const NLOG: usize = 10; // ghost log entries
pub(crate) const MAXOS: usize = 8;

pub(crate) static mut NRES: usize = 0; // number of result() calls so far
pub(crate) static mut MSG: [[u8; CAP]; NLOG] = [[0u8; CAP]; NLOG]; // message of the k-th result()
pub(crate) static mut MLEN: [usize; NLOG] = [0; NLOG];
pub(crate) static mut OUT: [[u8; MAXOS]; NLOG] = [[0u8; MAXOS]; NLOG]; // its (arbitrary) output
pub(crate) static mut OVERFLOW: bool = false; // a message exceeded CAP (harness bound too small: asserted false)
pub(crate) static mut NRESET: usize = 0;

pub(crate) fn log_reset() {
    unsafe {
        NRES = 0;
        OVERFLOW = false;
        NRESET = 0;
    }
}

#[derive(Clone)]
pub(crate) struct RecDigest<const BS: usize, const OS: usize> {
    pub cur: [u8; CAP],
    pub len: usize,
    pub computed: bool,
}

impl<const BS: usize, const OS: usize> RecDigest<BS, OS> {
    pub(crate) fn new() -> Self {
        RecDigest { cur: [0u8; CAP], len: 0, computed: false }
    }
    /// arbitrary digest state: any absorbed prefix of length <= maxlen, any computed flag
    pub(crate) fn arbitrary(maxlen: usize) -> Self {
        let cur: [u8; CAP] = any();
        let len: usize = any();
        let computed: bool = any();
        assume(len <= maxlen && maxlen <= CAP);
        RecDigest { cur, len, computed }
    }
}

impl<const BS: usize, const OS: usize> Digest for RecDigest<BS, OS> {
    fn input(&mut self, d: &[u8]) {
        assert!(!self.computed, "RecDigest: input after result without reset");
        if d.len() > CAP - self.len {
            unsafe { OVERFLOW = true };
            return;
        }
        // natural loop: calls with a concrete length (keys, counters, digests) unroll exactly; symbolic lengths up to the unwind bound
        let n = d.len();
        let mut i = 0;
        while i < n {
            self.cur[self.len + i] = d[i];
            i += 1;
        }
        self.len += n;
    }
    fn result(&mut self, out: &mut [u8]) {
        assert!(!self.computed, "RecDigest: result after result without reset");
        assert!(out.len() == OS, "RecDigest: output buffer length differs from the digest size");
        let o: [u8; OS] = any();
        unsafe {
            if NRES < NLOG {
                MSG[NRES] = self.cur;
                MLEN[NRES] = self.len;
                let mut i = 0;
                while i < OS {
                    OUT[NRES][i] = o[i];
                    i += 1;
                }
            }
            NRES += 1;
        }
        let mut i = 0;
        while i < OS {
            out[i] = o[i];
            i += 1;
        }
        self.computed = true;
    }
    fn reset(&mut self) {
        self.len = 0;
        self.computed = false;
        unsafe { NRESET += 1 };
    }
    fn output_bits(&self) -> usize {
        OS * 8
    }
    fn block_size(&self) -> usize {
        BS
    }
}

/// raw constructor for sibling harness files (private fields of Hmac)
pub(crate) fn mk_hmac_raw<D: Digest>(digest: D, i_key: &[u8], o_key: &[u8], finished: bool) -> Hmac<D> {
    Hmac { digest, i_key: i_key.to_vec(), o_key: o_key.to_vec(), finished }
}
pub(crate) fn hmac_digest<D: Digest>(h: &Hmac<D>) -> &D {
    &h.digest
}
pub(crate) fn hmac_finished<D: Digest>(h: &Hmac<D>) -> bool {
    h.finished
}

/// RFC 2104: K' from the key (B = BS); `hashed` = H(key) when the key is longer than a block
pub(crate) fn spec_kprime<const BS: usize, const OS: usize>(key: &[u8], hashed: &[u8; MAXOS]) -> [u8; BS] {
    let mut kp = [0u8; BS];
    let mut i = 0;
    while i < BS {
        if key.len() > BS {
            if i < OS {
                kp[i] = hashed[i];
            }
        } else if i < key.len() {
            kp[i] = key[i];
        }
        i += 1;
    }
    kp
}

/// ghost log entry k is the message  (pad-xored K') || tail[..tlen]
pub(crate) fn logged_is<const BS: usize>(k: usize, kp: &[u8; BS], pad: u8, tail: &[u8], tlen: usize) -> bool {
    if k >= NLOG {
        return false;
    }
    let (m, ml, nres) = unsafe { (MSG[k], MLEN[k], NRES) };
    let mut ok = k < nres && ml == BS + tlen;
    let mut i = 0;
    while i < CAP {
        let b = m[i];
        if i < BS {
            if b != kp[i] ^ pad {
                ok = false;
            }
        } else if i < BS + tlen {
            if b != tail[i - BS] {
                ok = false;
            }
        }
        i += 1;
    }
    ok
}

// ------------------------------------------------------------------------------------------------ C08
/// whole history new -> input -> input -> raw_result; key 0..=KMAX bytes, message 0..=MMAX bytes split anywhere
fn case_hmac_rfc2104<const BS: usize, const OS: usize, const KMAX: usize, const MMAX: usize>() {
    let key = Bytes::<KMAX>::any();
    let msg = Bytes::<MMAX>::any();
    let split: usize = any();
    assume(split <= msg.len);
    vcover!(key.len == 0, "empty key");
    vcover!(key.len == 1, "one-byte key");
    vcover!(key.len == BS - 1, "key one byte shorter than a block");
    vcover!(key.len == BS, "key exactly one block");
    vcover!(key.len == BS + 1, "key one byte longer than a block (hashed first)");
    vcover!(key.len > 2 * BS, "key longer than two blocks");
    vcover!(msg.len == 0, "empty message");
    vcover!(msg.len == MMAX && split > 0 && split < msg.len, "longest message in two non-empty pieces");
    log_reset();

    let mut h = Hmac::new(RecDigest::<BS, OS>::new(), key.get());
    vassert!(h.output_bytes() == OS, "Hmac::output_bytes == digest size");
    h.input(&msg.buf[..split]);
    h.input(&msg.buf[split..msg.len]);
    let mut out = [0u8; OS];
    h.raw_result(&mut out);

    let long = key.len > BS;
    let b = if long { 1 } else { 0 };
    unsafe {
        vassert!(!OVERFLOW, "harness bound: message fits the recorder");
        vassert!(NRES == b + 2, "HMAC: exactly H(inner), H(outer), plus H(key) iff the key is longer than a block");
        if long {
            let mut ok = MLEN[0] == key.len;
            let mut i = 0;
            while i < KMAX {
                if i < key.len && MSG[0][i] != key.buf[i] {
                    ok = false;
                }
                i += 1;
            }
            vassert!(ok, "HMAC: a key longer than a block is replaced by H(key)");
        }
        let kp = spec_kprime::<BS, OS>(key.get(), &OUT[0]);
        vassert!(logged_is::<BS>(b, &kp, 0x36, &msg.buf, msg.len), "HMAC: inner hash is H((K' xor ipad) || message)");
        let inner = OUT[b];
        vassert!(logged_is::<BS>(b + 1, &kp, 0x5c, &inner, OS), "HMAC: outer hash is H((K' xor opad) || inner)");
        let mut i = 0;
        while i < OS {
            vassert!(out[i] == OUT[b + 1][i], "HMAC: raw_result returns the outer hash");
            i += 1;
        }
    }
}

#[cfg_attr(kani, kani::proof)]
#[cfg_attr(kani, kani::unwind(26))]
pub(crate) fn c08_hmac_rfc2104_bs8_os4() {
    case_hmac_rfc2104::<8, 4, 20, 10>();
    vcover!(true, "witness: end of harness reached");
}
/// second instantiation: output size == block size (K' = H(key) fills the whole block), odd sizes
#[cfg_attr(kani, kani::proof)]
#[cfg_attr(kani, kani::unwind(26))]
pub(crate) fn c08_hmac_rfc2104_bs5_os5() {
    case_hmac_rfc2104::<5, 5, 12, 6>();
    vcover!(true, "witness: end of harness reached");
}

/// Mac::result() == raw_result() bytes, length == digest size (from an arbitrary un-finished HMAC state)
#[cfg_attr(kani, kani::proof)]
#[cfg_attr(kani, kani::unwind(26))]
pub(crate) fn c08_hmac_result_is_raw_result() {
    let ik: [u8; 8] = any();
    let ok: [u8; 8] = any();
    let mut d = RecDigest::<8, 4>::arbitrary(CAP);
    d.computed = false;
    log_reset();
    let mut h = mk_hmac_raw(d, &ik, &ok, false);
    let r = h.result();
    let code = r.code();
    vassert!(code.len() == 4, "Hmac::result: code length == digest size");
    unsafe {
        vassert!(NRES == 2, "Hmac::result: inner and outer hash");
        let mut i = 0;
        while i < 4 {
            vassert!(code[i] == OUT[1][i], "Hmac::result: code == outer hash");
            i += 1;
        }
    }
    vcover!(true, "witness: end of harness reached");
}

/// block_size() / output_bits() of every legacy digest wrapper against the standards:
/// FIPS 180-4 (SHA-1: 512-bit blocks/160; SHA-224/256: 512/224,256; SHA-384/512, 512/224, 512/256: 1024-bit blocks),
/// FIPS 202 (rate = 1600 - 2*d bits: 1152, 1088, 832, 576 -> 144, 136, 104, 72 bytes), RIPEMD-160 (512-bit blocks, 160),
/// RFC 7693 (BLAKE2b: 128-byte blocks, 1..=64 output bytes; BLAKE2s: 64-byte blocks, 1..=32 output bytes).
#[cfg_attr(kani, kani::proof)]
#[cfg_attr(kani, kani::unwind(4))]
pub(crate) fn c08_digest_sizes_table() {
    macro_rules! chk {
        ($d:expr, $bs:expr, $bits:expr, $m:literal) => {{
            let d = $d;
            vassert!(d.block_size() == $bs && d.output_bits() == $bits && d.output_bytes() == ($bits + 7) / 8, $m);
        }};
    }
    chk!(crate::sha1::Sha1::new(), 64, 160, "SHA-1: block 64, output 160 bits");
    chk!(crate::sha2::Sha224::new(), 64, 224, "SHA-224: block 64, output 224 bits");
    chk!(crate::sha2::Sha256::new(), 64, 256, "SHA-256: block 64, output 256 bits");
    chk!(crate::sha2::Sha384::new(), 128, 384, "SHA-384: block 128, output 384 bits");
    chk!(crate::sha2::Sha512::new(), 128, 512, "SHA-512: block 128, output 512 bits");
    chk!(crate::sha2::Sha512Trunc224::new(), 128, 224, "SHA-512/224: block 128, output 224 bits");
    chk!(crate::sha2::Sha512Trunc256::new(), 128, 256, "SHA-512/256: block 128, output 256 bits");
    chk!(crate::sha3::Sha3_224::new(), 144, 224, "SHA3-224: rate 144, output 224 bits");
    chk!(crate::sha3::Sha3_256::new(), 136, 256, "SHA3-256: rate 136, output 256 bits");
    chk!(crate::sha3::Sha3_384::new(), 104, 384, "SHA3-384: rate 104, output 384 bits");
    chk!(crate::sha3::Sha3_512::new(), 72, 512, "SHA3-512: rate 72, output 512 bits");
    chk!(crate::sha3::Keccak224::new(), 144, 224, "Keccak-224: rate 144, output 224 bits");
    chk!(crate::sha3::Keccak256::new(), 136, 256, "Keccak-256: rate 136, output 256 bits");
    chk!(crate::sha3::Keccak384::new(), 104, 384, "Keccak-384: rate 104, output 384 bits");
    chk!(crate::sha3::Keccak512::new(), 72, 512, "Keccak-512: rate 72, output 512 bits");
    chk!(crate::ripemd160::Ripemd160::new(), 64, 160, "RIPEMD-160: block 64, output 160 bits");
    let ob: usize = any();
    let os: usize = any();
    assume(ob >= 1 && ob <= 64 && os >= 1 && os <= 32);
    vcover!(ob == 64 && os == 32, "largest BLAKE2 output sizes");
    vcover!(ob == 1 && os == 1, "smallest BLAKE2 output sizes");
    let b = crate::blake2b::Blake2b::new(ob);
    vassert!(Digest::block_size(&b) == 128 && Digest::output_bits(&b) == 8 * ob && Digest::output_bytes(&b) == ob, "BLAKE2b: block 128, output = requested length");
    vassert!(Mac::output_bytes(&b) == ob, "BLAKE2b as Mac: output_bytes = requested length");
    let s = crate::blake2s::Blake2s::new(os);
    vassert!(Digest::block_size(&s) == 64 && Digest::output_bits(&s) == 8 * os && Digest::output_bytes(&s) == os, "BLAKE2s: block 64, output = requested length");
    vassert!(Mac::output_bytes(&s) == os, "BLAKE2s as Mac: output_bytes = requested length");
    vcover!(true, "witness: end of harness reached");
}

// ------------------------------------------------------------------------------------------------ C09 (HMAC life cycle)
// Representation invariant of Hmac<D> (established by new(), preserved by every step below):
//   i_key.len() == o_key.len() == BS;  finished ==> digest is in its "computed" state (gate closed).

/// arbitrary HMAC state over RecDigest<8,4>
fn arb_hmac(finished: bool) -> (Hmac<RecDigest<8, 4>>, [u8; 8], [u8; 8]) {
    let ik: [u8; 8] = any();
    let ok: [u8; 8] = any();
    let mut d = RecDigest::<8, 4>::arbitrary(12);
    if finished {
        d.computed = true;
    }
    (mk_hmac_raw(d, &ik, &ok, finished), ik, ok)
}
fn keys_unchanged(h: &Hmac<RecDigest<8, 4>>, ik: &[u8; 8], ok: &[u8; 8]) -> bool {
    let mut same = h.i_key.len() == 8 && h.o_key.len() == 8;
    let mut i = 0;
    while i < 8 {
        if same && (h.i_key[i] != ik[i] || h.o_key[i] != ok[i]) {
            same = false;
        }
        i += 1;
    }
    same
}

/// new() establishes the invariant and the abstract state "inner hash has absorbed K' xor ipad"
#[cfg_attr(kani, kani::proof)]
#[cfg_attr(kani, kani::unwind(26))]
pub(crate) fn c09_hmac_new_state() {
    let key = Bytes::<20>::any();
    vcover!(key.len > 8, "long key");
    vcover!(key.len <= 8, "short key");
    log_reset();
    let h = Hmac::new(RecDigest::<8, 4>::new(), key.get());
    let hashed = unsafe { OUT[0] };
    let kp = spec_kprime::<8, 4>(key.get(), &hashed);
    vassert!(!h.finished && !h.digest.computed, "Hmac::new: not finished, digest open");
    vassert!(h.i_key.len() == 8 && h.o_key.len() == 8 && h.digest.len == 8, "Hmac::new: keys are one block, inner hash absorbed one block");
    let mut i = 0;
    while i < 8 {
        vassert!(h.i_key[i] == kp[i] ^ 0x36 && h.o_key[i] == kp[i] ^ 0x5c, "Hmac::new: i_key = K' xor ipad, o_key = K' xor opad");
        vassert!(h.digest.cur[i] == h.i_key[i], "Hmac::new: inner hash has absorbed exactly i_key");
        i += 1;
    }
    vcover!(true, "witness: end of harness reached");
}

/// reset() from ANY state (finished or not, any absorbed prefix) == the state new() leaves: digest restarted and i_key absorbed
#[cfg_attr(kani, kani::proof)]
#[cfg_attr(kani, kani::unwind(26))]
pub(crate) fn c09_hmac_reset_is_fresh() {
    let fin: bool = any();
    let (mut h, ik, ok) = arb_hmac(fin);
    vcover!(fin, "reset after a result");
    vcover!(!fin && h.digest.len == 12, "reset in the middle of a message");
    log_reset();
    h.reset();
    vassert!(!h.finished && !h.digest.computed, "Hmac::reset: not finished, digest open");
    vassert!(h.digest.len == 8, "Hmac::reset: inner hash has absorbed exactly one block");
    let mut i = 0;
    while i < 8 {
        vassert!(h.digest.cur[i] == ik[i], "Hmac::reset: inner hash has absorbed exactly i_key (same as after new)");
        i += 1;
    }
    vassert!(keys_unchanged(&h, &ik, &ok), "Hmac::reset: key material retained");
    vassert!(unsafe { NRES == 0 && NRESET == 1 }, "Hmac::reset: digest reset once, nothing hashed");
    vcover!(true, "witness: end of harness reached");
}

/// input step: appends to the inner message, nothing else
#[cfg_attr(kani, kani::proof)]
#[cfg_attr(kani, kani::unwind(26))]
pub(crate) fn c09_hmac_input_step() {
    let (mut h, ik, ok) = arb_hmac(false);
    let data = Bytes::<6>::any();
    assume(!h.digest.computed);
    let before = h.digest.clone();
    vcover!(data.len == 6 && before.len == 12, "longest");
    vcover!(data.len == 0, "empty chunk");
    log_reset();
    h.input(data.get());
    vassert!(h.digest.len == before.len + data.len && !h.digest.computed && !h.finished, "Hmac::input: inner message grows by the chunk");
    let mut i = 0;
    while i < 18 {
        if i < before.len {
            vassert!(h.digest.cur[i] == before.cur[i], "Hmac::input: absorbed prefix unchanged");
        } else if i < before.len + data.len {
            vassert!(h.digest.cur[i] == data.buf[i - before.len], "Hmac::input: chunk appended to the inner message");
        }
        i += 1;
    }
    vassert!(keys_unchanged(&h, &ik, &ok), "Hmac::input: key material retained");
    vassert!(unsafe { NRES == 0 && !OVERFLOW }, "Hmac::input: nothing hashed yet");
    vcover!(true, "witness: end of harness reached");
}

/// raw_result step from an arbitrary un-finished state: H(o_key || H(inner message)); afterwards finished and gate closed
#[cfg_attr(kani, kani::proof)]
#[cfg_attr(kani, kani::unwind(26))]
pub(crate) fn c09_hmac_raw_result_step() {
    let (mut h, ik, ok) = arb_hmac(false);
    assume(!h.digest.computed);
    let before = h.digest.clone();
    log_reset();
    let mut out = [0u8; 4];
    h.raw_result(&mut out);
    unsafe {
        vassert!(NRES == 2 && !OVERFLOW, "Hmac::raw_result: inner then outer hash");
        let mut okk = MLEN[0] == before.len;
        let mut i = 0;
        while i < CAP {
            if i < before.len && MSG[0][i] != before.cur[i] {
                okk = false;
            }
            i += 1;
        }
        vassert!(okk, "Hmac::raw_result: inner hash closes the message absorbed so far");
        let inner = OUT[0];
        vassert!(logged_is::<8>(1, &ok, 0, &inner, 4), "Hmac::raw_result: outer hash is H(o_key || inner)");
        let mut i = 0;
        while i < 4 {
            vassert!(out[i] == OUT[1][i], "Hmac::raw_result: returns the outer hash");
            i += 1;
        }
    }
    vassert!(h.finished && h.digest.computed, "Hmac::raw_result: finished, digest gate closed (invariant)");
    vassert!(keys_unchanged(&h, &ik, &ok), "Hmac::raw_result: key material retained");
    vcover!(true, "witness: end of harness reached");
}

/// a second raw_result without reset fails loudly (through the digest's gate) — never different bytes
#[cfg_attr(kani, kani::proof)]
#[cfg_attr(kani, kani::should_panic)]
#[cfg_attr(kani, kani::unwind(26))]
pub(crate) fn c09_hmac_second_raw_result_panics() {
    let (mut h, _ik, _ok) = arb_hmac(true);
    log_reset();
    let mut out = [0u8; 4];
    h.raw_result(&mut out);
    vcover!(true, "MUST-NOT: second raw_result returned without reset");
}
#[cfg_attr(kani, kani::proof)]
#[cfg_attr(kani, kani::should_panic)]
#[cfg_attr(kani, kani::unwind(26))]
pub(crate) fn c09_hmac_second_result_panics() {
    let (mut h, _ik, _ok) = arb_hmac(true);
    log_reset();
    let _ = h.result();
    vcover!(true, "MUST-NOT: second result returned without reset");
}
/// input after a result without reset fails loudly
#[cfg_attr(kani, kani::proof)]
#[cfg_attr(kani, kani::should_panic)]
#[cfg_attr(kani, kani::unwind(26))]
pub(crate) fn c09_hmac_input_after_result_panics() {
    let (mut h, _ik, _ok) = arb_hmac(true);
    let data = Bytes::<3>::any();
    h.input(data.get());
    vcover!(true, "MUST-NOT: input accepted after result without reset");
}

/// whole history through the public API: new; input; result; reset; input; result  — second MAC is the MAC of the second message
#[cfg_attr(kani, kani::proof)]
#[cfg_attr(kani, kani::unwind(26))]
pub(crate) fn c09_hmac_history_result_reset_result() {
    let key = Bytes::<10>::any();
    let m1 = Bytes::<3>::any();
    let m2 = Bytes::<3>::any();
    vcover!(key.len > 8, "long key");
    vcover!(m1.len != m2.len, "messages of different length");
    log_reset();
    let mut h = Hmac::new(RecDigest::<8, 4>::new(), key.get());
    let b = if key.len > 8 { 1 } else { 0 };
    let hashed = unsafe { OUT[0] };
    let kp = spec_kprime::<8, 4>(key.get(), &hashed);
    h.input(m1.get());
    let mut o1 = [0u8; 4];
    h.raw_result(&mut o1);
    h.reset();
    h.input(m2.get());
    let mut o2 = [0u8; 4];
    h.raw_result(&mut o2);
    unsafe {
        vassert!(NRES == b + 4 && !OVERFLOW, "HMAC history: two inner and two outer hashes");
        vassert!(logged_is::<8>(b + 2, &kp, 0x36, &m2.buf, m2.len), "HMAC after reset: inner hash is H((K' xor ipad) || second message) only");
        let inner = OUT[b + 2];
        vassert!(logged_is::<8>(b + 3, &kp, 0x5c, &inner, 4), "HMAC after reset: outer hash is H((K' xor opad) || inner)");
        let mut i = 0;
        while i < 4 {
            vassert!(o2[i] == OUT[b + 3][i], "HMAC after reset: result is the MAC of the bytes fed since the reset");
            i += 1;
        }
    }
    vcover!(true, "witness: end of harness reached");
}

// ------------------------------------------------------------------------------------------------ C20 (refusals)
/// raw_result into a buffer whose length is not the digest size is refused (never a short or partial MAC)
#[cfg_attr(kani, kani::proof)]
#[cfg_attr(kani, kani::should_panic)]
#[cfg_attr(kani, kani::unwind(26))]
pub(crate) fn c20_mackdf_hmac_raw_result_wrong_len_panics() {
    let (mut h, _ik, _ok) = arb_hmac(false);
    assume(!h.digest.computed);
    let n: usize = any();
    assume(n <= 8 && n != 4);
    let mut out = [0u8; 8];
    log_reset();
    h.raw_result(&mut out[..n]);
    vcover!(true, "MUST-NOT: raw_result accepted an output buffer of the wrong length");
}
/// legal use never panics: any key length, any message, result, reset (no overflow / index / gate failures)
#[cfg_attr(kani, kani::proof)]
#[cfg_attr(kani, kani::unwind(26))]
pub(crate) fn c20_mackdf_hmac_legal_use_no_panic() {
    let key = Bytes::<18>::any();
    let m = Bytes::<5>::any();
    log_reset();
    let mut h = Hmac::new(RecDigest::<8, 4>::new(), key.get());
    h.input(m.get());
    let r = h.result();
    vassert!(r.code().len() == 4, "legal HMAC use: result has the digest size");
    h.reset();
    h.input(m.get());
    let mut o = [0u8; 4];
    h.raw_result(&mut o);
    vassert!(unsafe { !OVERFLOW }, "harness bound: message fits the recorder");
    vcover!(true, "witness: end of harness reached");
}
