// C15 / C12 / C17 — field element bit-level obligations through the backend-independent API of crate::curve25519::fe
// (child module of it; the SAME harnesses run on the 64-bit backend and, with --features force-32bits, on the 32-bit one).
// Limb arithmetic with multiplications (add/sub/mul/square/...) is the mirsym engine's part; here everything is
// carries, shifts and masks, which CBMC decides at full width:
//   decode-then-encode of EVERY 32-byte string is the canonical representative of (le256(bytes) mod 2^255) mod p,
//   is_negative / is_nonzero / == agree with that canonical value.
#![allow(dead_code, unused_imports, missing_docs)]
use super::*;
use crate::verif_lib::*;

/// p = 2^255 - 19 as four little-endian u64 words
const P: [u64; 4] = [0xffff_ffff_ffff_ffed, 0xffff_ffff_ffff_ffff, 0xffff_ffff_ffff_ffff, 0x7fff_ffff_ffff_ffff];

fn words(b: &[u8; 32]) -> [u64; 4] {
    let mut w = [0u64; 4];
    let mut i = 0;
    while i < 32 {
        w[i >> 3] |= (b[i] as u64) << (8 * (i & 7));
        i += 1;
    }
    w
}
fn ge_p(w: &[u64; 4]) -> bool {
    // w >= p  (compare from the most significant word)
    if w[3] != P[3] {
        return w[3] > P[3];
    }
    if w[2] != P[2] {
        return w[2] > P[2];
    }
    if w[1] != P[1] {
        return w[1] > P[1];
    }
    w[0] >= P[0]
}
/// specification: canonical representative of the field element encoded by b (RFC 7748 5: mask bit 255, reduce mod p)
pub(crate) fn spec_canonical(b: &[u8; 32]) -> [u64; 4] {
    let mut w = words(b);
    w[3] &= 0x7fff_ffff_ffff_ffff;
    if ge_p(&w) {
        // w - p = w + 19 - 2^255 ; w < 2^255 so after adding 19 bit 255 is set exactly when w >= p
        let (a0, c0) = w[0].overflowing_add(19);
        let (a1, c1) = w[1].overflowing_add(c0 as u64);
        let (a2, c2) = w[2].overflowing_add(c1 as u64);
        let a3 = w[3].wrapping_add(c2 as u64);
        w = [a0, a1, a2, a3 & 0x7fff_ffff_ffff_ffff];
    }
    w
}

#[cfg_attr(kani, kani::proof)]
#[cfg_attr(kani, kani::unwind(34))]
pub(crate) fn c15_fe_decode_encode_canonical() {
    let b: [u8; 32] = any();
    vcover!(b[31] & 0x80 != 0, "bit 255 set");
    vcover!(b[0] == 0xed && b[1] == 0xff && b[15] == 0xff && b[30] == 0xff && b[31] == 0x7f, "near p");
    vcover!(b[0] >= 0xed && b[31] == 0xff && b[30] == 0xff && b[16] == 0xff && b[8] == 0xff && b[1] == 0xff, "non-canonical: value >= p with the top bit set");
    let f = Fe::from_bytes(&b);
    let out = f.to_bytes();
    let exp = spec_canonical(&b);
    let got = words(&out);
    vassert!(got[0] == exp[0] && got[1] == exp[1] && got[2] == exp[2] && got[3] == exp[3], "to_bytes(from_bytes(b)) == canonical (le256(b) mod 2^255) mod (2^255-19)");
    vassert!(out[31] & 0x80 == 0, "to_bytes: bit 255 clear");
    vassert!(f.is_negative() == (exp[0] & 1 == 1), "is_negative == least significant bit of the canonical value");
    vassert!(f.is_nonzero() == (exp[0] | exp[1] | exp[2] | exp[3] != 0), "is_nonzero == canonical value != 0");
}

/// equality of field elements is equality of VALUES: decodings of two byte strings are == exactly when their canonical values agree
#[cfg_attr(kani, kani::proof)]
#[cfg_attr(kani, kani::unwind(42))]
pub(crate) fn c15_fe_eq_is_value_equality() {
    let a: [u8; 32] = any();
    let b: [u8; 32] = any();
    let (ca, cb) = (spec_canonical(&a), spec_canonical(&b));
    let same = ca[0] == cb[0] && ca[1] == cb[1] && ca[2] == cb[2] && ca[3] == cb[3];
    vcover!(same && a[0] != b[0], "two encodings of the same value");
    vcover!(!same, "different values");
    vassert!((Fe::from_bytes(&a) == Fe::from_bytes(&b)) == same, "Fe == Fe exactly when the values are equal (mod 2^255-19)");
}

/// specification: (x + y) mod p for canonical x, y (both < p), as four little-endian words
fn spec_add_mod_p(x: &[u64; 4], y: &[u64; 4]) -> [u64; 4] {
    let (s0, c0) = x[0].overflowing_add(y[0]);
    let (t1, c1a) = x[1].overflowing_add(y[1]);
    let (s1, c1b) = t1.overflowing_add(c0 as u64);
    let (t2, c2a) = x[2].overflowing_add(y[2]);
    let (s2, c2b) = t2.overflowing_add((c1a | c1b) as u64);
    let s3 = x[3] + y[3] + ((c2a | c2b) as u64); // < 2^64: both operands < 2^63
    let s = [s0, s1, s2, s3];
    if ge_p(&s) {
        // s - p, s < 2p: subtract word-wise
        let (d0, b0) = s[0].overflowing_sub(P[0]);
        let (e1, b1a) = s[1].overflowing_sub(P[1]);
        let (d1, b1b) = e1.overflowing_sub(b0 as u64);
        let (e2, b2a) = s[2].overflowing_sub(P[2]);
        let (d2, b2b) = e2.overflowing_sub((b1a | b1b) as u64);
        let d3 = s[3].wrapping_sub(P[3]).wrapping_sub((b2a | b2b) as u64);
        [d0, d1, d2, d3]
    } else {
        s
    }
}
fn to_le(w: &[u64; 4]) -> [u8; 32] {
    let mut b = [0u8; 32];
    let mut i = 0;
    while i < 32 {
        b[i] = (w[i >> 3] >> (8 * (i & 7))) as u8;
        i += 1;
    }
    b
}

/// == is value equality also for elements produced by arithmetic (an unreduced sum against the decoding of its canonical bytes),
/// and the sum encodes to (x + y) mod p
#[cfg_attr(kani, kani::proof)]
#[cfg_attr(kani, kani::unwind(42))]
pub(crate) fn c15_fe_add_then_eq_and_encode() {
    let a: [u8; 32] = any();
    let b: [u8; 32] = any();
    let (x, y) = (Fe::from_bytes(&a), Fe::from_bytes(&b));
    let s = &x + &y;
    let want = spec_add_mod_p(&spec_canonical(&a), &spec_canonical(&b));
    let got = words(&s.to_bytes());
    vassert!(got[0] == want[0] && got[1] == want[1] && got[2] == want[2] && got[3] == want[3], "to_bytes(x + y) == (x + y) mod (2^255-19)");
    let c = Fe::from_bytes(&to_le(&want));
    vassert!(s == c, "x + y == decode(encode(x + y)): equality is equality of values, not of limb vectors");
}
