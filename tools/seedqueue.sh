#!/bin/bash
# tools/seedqueue.sh <jobs file>: lines "<mutation dir> <Cnn> [<Cmm> ...]"; confirms the seeded change, then runs each check against it. Log: /tmp/seedq/<name>.log
mkdir -p /tmp/seedq
while read -r d props; do
  [ -z "$d" ] && continue
  n=$(basename $(dirname $d))-$(basename $d)
  {
    echo "=== $n"
    /verif/tools/seedtest.sh $d 2>&1 | grep -E "^==|test result|FAILED|DOES NOT" | head -12
    for ID in $props; do /verif/tools/seedcheck.sh $d $ID 2>&1 | tail -8; done
  } > /tmp/seedq/$n.log 2>&1
done < "$1"
