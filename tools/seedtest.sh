#!/bin/bash
# tools/seedtest.sh <dir with patch.diff + demo.rs>  — confirm a seeded change in a scratch worktree:
#   clean: suite passes, demo passes;  patched: suite passes (63), demo fails.
set -u
D=$(readlink -f "$1"); W=/tmp/seedtest-wt.$$
git -C /repo worktree add -q --detach $W HEAD || exit 3
trap 'git -C /repo worktree remove --force $W' EXIT
cd $W; mkdir -p tests; cp $D/demo.rs tests/demo.rs
export CARGO_NET_OFFLINE=true CARGO_TARGET_DIR=$W/target
echo "== clean: demo"; cargo test --offline --test demo 2>&1 | grep -E "^test result|FAILED|panicked" | head -5
rm -f tests/demo.rs
if ! git apply --check $D/patch.diff 2>/dev/null; then echo "PATCH DOES NOT APPLY on current HEAD"; exit 4; fi
git apply $D/patch.diff
echo "== patched: suite"; cargo test --offline --lib 2>&1 | grep -E "^test result" | head -3
cp $D/demo.rs tests/demo.rs
echo "== patched: demo"; cargo test --offline --test demo 2>&1 | grep -E "^test result|FAILED" | head -5
