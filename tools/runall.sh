#!/bin/bash
# tools/runall.sh [tier]: run every registered check on /repo, rewriting evidence/; prints one summary line per property
cd /verif; T=${1:-quick}
for p in $(python3 -c "import json;print(' '.join(c['property_id'] for c in json.load(open('MANIFEST.json'))['checks']))"); do
  ./check $p --tier $T 2>&1 | grep -E "^\[C|^VIOLATION|^INCONCL|^KNOWN" | cut -c1-220; echo "  rc=${PIPESTATUS[0]}"
done
