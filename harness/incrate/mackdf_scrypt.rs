// C10 / C20 — scrypt (src/scrypt.rs; child module of crate::scrypt).
//
// Specification written from RFC 7914:
//   section 2   parameters: N > 1 a power of two with N < 2^(128 r / 8);  r, p positive;  p <= ((2^32-1) * 32) / (128 r);
//               dkLen a positive integer <= (2^32-1) * 32
//   section 3   Salsa20/8 core = Salsa20 core (Bernstein) with 8 rounds: out = in + doubleround^4(in), words little-endian
//   section 4   BlockMix: X = B[2r-1]; for i in 0..2r: X = Salsa(X xor B[i]), Y[i] = X; B' = Y[0],Y[2],..,Y[2r-2],Y[1],Y[3],..,Y[2r-1]
//   section 5   ROMix: X = B; for i in 0..N: V[i] = X, X = BlockMix(X); for i in 0..N: j = Integerify(X) mod N,
//               X = BlockMix(X xor V[j]); B' = X.   Integerify = last 64-byte block of X read as a little-endian integer
//   section 6   B = PBKDF2-HMAC-SHA256(P, S, 1, p*128*r); B[i] = ROMix(B[i]) for each 128r-byte block; DK = PBKDF2-HMAC-SHA256(P, B, 1, dkLen)
// Layering: each level is decided with the level below replaced by a recorder (arbitrary outputs, logged arguments), so the
// claim at each level holds for every lower-level function; the lowest level (Salsa20/8) is compared with the Salsa20
// transcription of harness/incrate/salsa.rs.  Natively (no stubs) every harness compares real output bytes with the
// composed specification functions below.
#![allow(dead_code, unused_imports, missing_docs, static_mut_refs)]
use super::*;
use crate::verif_lib::*;

// ------------------------------------------------------------------------------------------------ specification
fn le32(b: &[u8], i: usize) -> u32 {
    (b[i] as u32) | ((b[i + 1] as u32) << 8) | ((b[i + 2] as u32) << 16) | ((b[i + 3] as u32) << 24)
}
/// RFC 7914 section 3
pub(crate) fn spec_salsa20_8(inp: &[u8; 64]) -> [u8; 64] {
    let mut w = [0u32; 16];
    let mut i = 0;
    while i < 16 {
        w[i] = le32(inp, 4 * i);
        i += 1;
    }
    crate::salsa20::verif_salsa::spec_block(&w, 4)
}
/// RFC 7914 section 4 (LEN = 128 r)
pub(crate) fn spec_block_mix<const LEN: usize>(b: &[u8; LEN]) -> [u8; LEN] {
    let blocks = LEN / 64; // 2r
    let r = blocks / 2;
    let mut x = [0u8; 64];
    let mut k = 0;
    while k < 64 {
        x[k] = b[LEN - 64 + k];
        k += 1;
    }
    let mut out = [0u8; LEN];
    let mut i = 0;
    while i < blocks {
        let mut t = [0u8; 64];
        let mut k = 0;
        while k < 64 {
            t[k] = x[k] ^ b[64 * i + k];
            k += 1;
        }
        x = spec_salsa20_8(&t);
        let dst = if i % 2 == 0 { i / 2 } else { r + i / 2 };
        let mut k = 0;
        while k < 64 {
            out[64 * dst + k] = x[k];
            k += 1;
        }
        i += 1;
    }
    out
}
/// Integerify(X) mod N for N a power of two <= 2^63: low bits of the little-endian integer in the last 64-byte block
pub(crate) fn spec_integerify_mod(x: &[u8], n: usize) -> usize {
    let o = x.len() - 64;
    let lo = le32(x, o) as u64;
    let hi = le32(x, o + 4) as u64;
    ((lo | (hi << 32)) & (n as u64 - 1)) as usize
}
/// RFC 7914 section 5 (native twin only: allocates)
#[cfg(not(kani))]
pub(crate) fn spec_ro_mix<const LEN: usize>(b: &[u8; LEN], n: usize) -> [u8; LEN] {
    let mut v = std::vec::Vec::new();
    let mut x = *b;
    for _ in 0..n {
        v.push(x);
        x = spec_block_mix::<LEN>(&x);
    }
    for _ in 0..n {
        let j = spec_integerify_mod(&x, n);
        let mut t = [0u8; LEN];
        for k in 0..LEN {
            t[k] = x[k] ^ v[j][k];
        }
        x = spec_block_mix::<LEN>(&t);
    }
    x
}

/// RFC 7914 section 2 parameter set, plus the addressability limit of this implementation (stated in the evidence):
/// log2 N < 64 and the ROMix working memory 128 * r * N bytes must be below 2^64
pub(crate) fn spec_admissible(log_n: u8, r: u32, p: u32) -> bool {
    if r == 0 || p == 0 {
        return false; // r, p positive integers
    }
    if log_n == 0 {
        return false; // N > 1
    }
    if log_n >= 64 {
        return false; // implementation: N must fit a machine word
    }
    if (log_n as u64) >= 16 * (r as u64) {
        return false; // N < 2^(128 r / 8)
    }
    let rp = (r as u64) * (p as u64);
    if (rp as u128) * 128 > 0xffff_ffffu128 * 32 {
        return false; // p <= ((2^32 - 1) * 32) / (128 r)   <=>   128 r p <= (2^32 - 1) * 32
    }
    if (((r as u128) * 128) << log_n) >= (1u128 << 64) {
        return false; // implementation: 128 r N bytes of V must be addressable
    }
    true
}

// ------------------------------------------------------------------------------------------------ parameters (pure integers)
/// every RFC-admissible (log2 N, r, p) is accepted and stored unchanged — all 2^72 triples
#[cfg_attr(kani, kani::proof)]
#[cfg_attr(kani, kani::unwind(4))]
pub(crate) fn c10_scrypt_params_admissible_accepted() {
    let log_n: u8 = any();
    let r: u32 = any();
    let p: u32 = any();
    assume(spec_admissible(log_n, r, p));
    vcover!(log_n == 1 && r == 1 && p == 1, "smallest parameters");
    vcover!(log_n == 15 && r == 1, "largest N for r = 1 (N < 2^16)");
    vcover!(log_n == 20 && r == 8 && p == 1, "common interactive parameters");
    vcover!(r == 1 && p == 0x3fff_ffff, "largest p for r = 1");
    vcover!(log_n == 54 && r == 4, "working memory 2^63: just below the addressable limit");
    let sp = ScryptParams::new(log_n, r, p);
    vassert!(sp.log_n == log_n && sp.r == r && sp.p == p, "ScryptParams::new: parameters stored unchanged");
    vcover!(true, "witness: end of harness reached");
}
/// every other triple is refused — all 2^72 triples
#[cfg_attr(kani, kani::proof)]
#[cfg_attr(kani, kani::should_panic)]
#[cfg_attr(kani, kani::unwind(4))]
pub(crate) fn c10_scrypt_params_inadmissible_refused() {
    let log_n: u8 = any();
    let r: u32 = any();
    let p: u32 = any();
    assume(!spec_admissible(log_n, r, p));
    vcover!(log_n == 16 && r == 1 && p == 1, "N = 2^(128 r / 8) exactly");
    vcover!(r == 1 && p == 0x4000_0000, "p one above the limit for r = 1");
    vcover!(r == 0, "r = 0");
    vcover!(p == 0, "p = 0");
    vcover!(log_n == 0, "N = 1");
    vcover!(log_n == 64 && r == 8, "N does not fit a machine word");
    vcover!(log_n == 55 && r == 4 && p == 1, "working memory 2^64 exactly");
    let _ = ScryptParams::new(log_n, r, p);
    vcover!(true, "MUST-NOT: ScryptParams::new accepted parameters outside RFC 7914's set");
}

// ------------------------------------------------------------------------------------------------ Salsa20/8 core
/// the real salsa20_8 against the Salsa20 transcription with 4 double rounds, all 2^512 inputs
#[cfg_attr(kani, kani::proof)]
#[cfg_attr(kani, kani::unwind(66))]
#[doc = "verif-unwindset: scrypt::salsa20_8=18"]
pub(crate) fn c10_scrypt_salsa20_8_is_spec() {
    let inp: [u8; 64] = any();
    let prior: [u8; 64] = any();
    let mut out = prior;
    salsa20_8(&inp, &mut out);
    let exp = spec_salsa20_8(&inp);
    let mut i = 0;
    while i < 64 {
        vassert!(out[i] == exp[i], "scrypt salsa20_8 == Salsa20/8 core (RFC 7914 section 3)");
        i += 1;
    }
    vcover!(true, "witness: end of harness reached");
}

// ------------------------------------------------------------------------------------------------ xor helper
// The iterator chain of `xor` (zip of zip) costs ~1300 SSA steps per byte under CBMC; in the BlockMix / ROMix harnesses it is
// replaced by the plain-loop MODEL below.  Contract of the model, decided on the REAL xor by c10_scrypt_xor_contract:
// output[i] = x[i] ^ y[i] for i < min(lengths); nothing else written.
#[cfg(kani)]
pub(crate) fn xor_model(x: &[u8], y: &[u8], output: &mut [u8]) {
    let mut n = output.len();
    if x.len() < n {
        n = x.len();
    }
    if y.len() < n {
        n = y.len();
    }
    let mut i = 0;
    while i < n {
        output[i] = x[i] ^ y[i];
        i += 1;
    }
}
/// real xor: symbolic lengths 0..=12 each (three independent lengths), arbitrary prior output
#[cfg_attr(kani, kani::proof)]
#[cfg_attr(kani, kani::unwind(14))]
pub(crate) fn c10_scrypt_xor_contract() {
    let x: [u8; 12] = any();
    let y: [u8; 12] = any();
    let prior: [u8; 12] = any();
    let (lx, ly, lo): (usize, usize, usize) = (any(), any(), any());
    assume(lx <= 12 && ly <= 12 && lo <= 12);
    vcover!(lx == 12 && ly == 12 && lo == 12, "equal lengths (the only shape scrypt uses)");
    vcover!(lo == 12 && ly == 5 && lx == 7, "shortest operand limits the result");
    let mut out = prior;
    xor(&x[..lx], &y[..ly], &mut out[..lo]);
    let mut n = lo;
    if lx < n {
        n = lx;
    }
    if ly < n {
        n = ly;
    }
    let mut i = 0;
    while i < 12 {
        vassert!(out[i] == if i < n { x[i] ^ y[i] } else { prior[i] }, "scrypt xor: out[i] = x[i] ^ y[i] up to the shortest length, nothing else written");
        i += 1;
    }
    vcover!(true, "witness: end of harness reached");
}
/// real xor at the sizes scrypt uses with r = 1: 64 and 128 bytes
#[cfg_attr(kani, kani::proof)]
#[cfg_attr(kani, kani::unwind(130))]
#[doc = "verif-unwindset: scrypt::xor=130"]
pub(crate) fn c10_scrypt_xor_64_128() {
    let x: [u8; 128] = any();
    let y: [u8; 128] = any();
    let mut out = [0u8; 128];
    xor(&x, &y, &mut out);
    let mut ok = true;
    let mut i = 0;
    while i < 128 {
        if out[i] != x[i] ^ y[i] {
            ok = false;
        }
        i += 1;
    }
    vassert!(ok, "scrypt xor (128 bytes): out[i] = x[i] ^ y[i]");
    let mut out = [0u8; 64];
    xor(&x[..64], &y[64..], &mut out);
    let mut ok = true;
    let mut i = 0;
    while i < 64 {
        if out[i] != x[i] ^ y[64 + i] {
            ok = false;
        }
        i += 1;
    }
    vassert!(ok, "scrypt xor (64 bytes): out[i] = x[i] ^ y[i]");
    vcover!(true, "witness: end of harness reached");
}

// ------------------------------------------------------------------------------------------------ BlockMix (Salsa recorded)
pub(crate) const NS: usize = 6;
pub(crate) static mut SN: usize = 0;
pub(crate) static mut SIN: [[u8; 64]; NS] = [[0u8; 64]; NS];
pub(crate) static mut SOUT: [[u8; 64]; NS] = [[0u8; 64]; NS];
#[cfg(kani)]
pub(crate) fn salsa_rec(input: &[u8], output: &mut [u8]) {
    assert!(input.len() == 64 && output.len() == 64);
    let o: [u8; 64] = kani::any();
    unsafe {
        if SN < NS {
            SIN[SN].copy_from_slice(input);
            SOUT[SN] = o;
        }
        SN += 1;
    }
    output.copy_from_slice(&o);
}
fn case_block_mix<const LEN: usize>() {
    let b: [u8; LEN] = any();
    let prior: [u8; LEN] = any();
    let mut out = prior;
    scrypt_block_mix(&b, &mut out);
    #[cfg(kani)]
    unsafe {
        let blocks = LEN / 64;
        let r = blocks / 2;
        vassert!(SN == blocks, "BlockMix: one Salsa20/8 call per 64-byte block (2r calls)");
        let mut i = 0;
        while i < blocks {
            let mut ok = true;
            let mut k = 0;
            while k < 64 {
                let xprev = if i == 0 { b[LEN - 64 + k] } else { SOUT[i - 1][k] };
                if SIN[i][k] != xprev ^ b[64 * i + k] {
                    ok = false;
                }
                k += 1;
            }
            vassert!(ok, "BlockMix: X = Salsa(X xor B[i]) starting from X = B[2r-1]");
            let dst = if i % 2 == 0 { i / 2 } else { r + i / 2 };
            let mut ok = true;
            let mut k = 0;
            while k < 64 {
                if out[64 * dst + k] != SOUT[i][k] {
                    ok = false;
                }
                k += 1;
            }
            vassert!(ok, "BlockMix: output = Y[0], Y[2], ..., Y[2r-2], Y[1], Y[3], ..., Y[2r-1]");
            i += 1;
        }
    }
    #[cfg(not(kani))]
    {
        let exp = spec_block_mix::<LEN>(&b);
        assert!(out == exp, "BlockMix: output = Y[0], Y[2], ..., Y[2r-2], Y[1], Y[3], ..., Y[2r-1]");
        // the recorded run does not depend on the Salsa values, so the solver's input is often degenerate (all-zero blocks make every Y
        // equal): also try a fixed non-degenerate input; any failing input is a genuine violation of a for-all property
        let mut b2 = [0u8; LEN];
        for (i, x) in b2.iter_mut().enumerate() {
            *x = (i * 7 + 1) as u8;
        }
        let mut out2 = prior;
        scrypt_block_mix(&b2, &mut out2);
        assert!(out2 == spec_block_mix::<LEN>(&b2), "BlockMix: output = Y[0], Y[2], ..., Y[2r-2], Y[1], Y[3], ..., Y[2r-1]");
    }
}
#[cfg_attr(kani, kani::proof)]
#[cfg_attr(kani, kani::unwind(66))]
#[cfg_attr(kani, kani::stub(crate::scrypt::salsa20_8, salsa_rec))]
#[cfg_attr(kani, kani::stub(crate::scrypt::xor, xor_model))]
pub(crate) fn c10_scrypt_block_mix_r1() {
    case_block_mix::<128>();
    vcover!(true, "witness: end of harness reached");
}
#[cfg_attr(kani, kani::proof)]
#[cfg_attr(kani, kani::unwind(66))]
#[cfg_attr(kani, kani::stub(crate::scrypt::salsa20_8, salsa_rec))]
#[cfg_attr(kani, kani::stub(crate::scrypt::xor, xor_model))]
pub(crate) fn c10_scrypt_block_mix_r2() {
    case_block_mix::<256>();
    vcover!(true, "witness: end of harness reached");
}
#[cfg_attr(kani, kani::proof)]
#[cfg_attr(kani, kani::unwind(66))]
#[cfg_attr(kani, kani::stub(crate::scrypt::salsa20_8, salsa_rec))]
#[cfg_attr(kani, kani::stub(crate::scrypt::xor, xor_model))]
pub(crate) fn c10_scrypt_block_mix_r3() {
    case_block_mix::<384>();
    vcover!(true, "witness: end of harness reached");
}

// ------------------------------------------------------------------------------------------------ ROMix (BlockMix recorded)
// The V index j = Integerify(X) mod N is SYMBOLIC (every X is an arbitrary recorder output).  `plant` (unused by the registered
// harnesses) lets a caller fix the index sequence through the recorder instead, should a larger N need case splitting.
pub(crate) const NB: usize = 8;
pub(crate) const RLEN: usize = 128; // r = 1
pub(crate) static mut BN: usize = 0;
pub(crate) static mut BIN: [[u8; RLEN]; NB] = [[0u8; RLEN]; NB];
pub(crate) static mut BOUT: [[u8; RLEN]; NB] = [[0u8; RLEN]; NB];
pub(crate) static mut JN: usize = 0; // N of the running case
pub(crate) static mut JSEQ: [usize; 4] = [0; 4]; // planted index for mixing step i
pub(crate) const HIGH_GARBAGE: u64 = 0xC3A5_5A3C_96F0_0F00;
#[cfg(kani)]
pub(crate) fn block_mix_rec(input: &[u8], output: &mut [u8]) {
    assert!(input.len() == RLEN && output.len() == RLEN);
    let mut o: [u8; RLEN] = kani::any();
    unsafe {
        // the X read by mixing step i is the output of call number N-1+i
        if BN + 1 >= JN && BN + 1 < 2 * JN {
            let j = JSEQ[BN + 1 - JN] as u64;
            let w = ((HIGH_GARBAGE & !(JN as u64 - 1)) | j).to_le_bytes();
            let mut k = 0;
            while k < 8 {
                o[64 + k] = w[k];
                k += 1;
            }
        }
        if BN < NB {
            BIN[BN].copy_from_slice(input);
            BOUT[BN] = o;
        }
        BN += 1;
    }
    output.copy_from_slice(&o);
}
fn eq128(a: &[u8; RLEN], b: &[u8; RLEN]) -> bool {
    let mut ok = true;
    let mut k = 0;
    while k < RLEN {
        if a[k] != b[k] {
            ok = false;
        }
        k += 1;
    }
    ok
}
/// r = 1 (128-byte blocks), N blocks of V (VLEN = 128 N), planted index sequence `seq`
fn case_ro_mix<const N: usize, const VLEN: usize>(plant: bool, seq: [usize; 4]) {
    let b0: [u8; RLEN] = any();
    let vprior: [u8; VLEN] = any();
    let tprior: [u8; RLEN] = any();
    let mut b = b0;
    let mut v = vprior;
    let mut t = tprior;
    unsafe {
        BN = 0;
        JN = if plant { N } else { 0 };
        JSEQ = seq;
    }
    scrypt_ro_mix(&mut b, &mut v, &mut t, N);
    #[cfg(kani)]
    unsafe {
        vassert!(BN == 2 * N, "ROMix: N BlockMix calls filling V, N mixing calls");
        // phase 1: V[i] = X_i, X_{i+1} = BlockMix(X_i), X_0 = B
        let mut ok1 = true;
        let mut ok2 = true;
        let mut i = 0;
        while i < N {
            let xi: &[u8; RLEN] = if i == 0 { &b0 } else { &BOUT[i - 1] };
            if !eq128(&BIN[i], xi) {
                ok1 = false;
            }
            let mut k = 0;
            while k < RLEN {
                if v[RLEN * i + k] != xi[k] {
                    ok2 = false;
                }
                k += 1;
            }
            i += 1;
        }
        vassert!(ok1, "ROMix: V[i] = X, X = BlockMix(X) for i = 0..N-1");
        vassert!(ok2, "ROMix: V[i] holds X_i");
        // phase 2: j = Integerify(X) mod N; X = BlockMix(X xor V[j])
        let mut ok3 = true;
        let mut i = 0;
        while i < N {
            let x: &[u8; RLEN] = &BOUT[N + i - 1];
            let j = spec_integerify_mod(x, N);
            if plant {
                vassert!(j == seq[i], "harness: planted index is what the specification's Integerify reads");
            } else {
                vcover!(i == 1 && j == N - 1, "second mixing step reads the last V block");
                vcover!(i == 0 && j == 0, "first mixing step reads V[0]");
            }
            let vj: &[u8; RLEN] = if j == 0 { &b0 } else { &BOUT[j - 1] };
            let mut k = 0;
            while k < RLEN {
                if BIN[N + i][k] != x[k] ^ vj[k] {
                    ok3 = false;
                }
                k += 1;
            }
            i += 1;
        }
        vassert!(ok3, "ROMix: X = BlockMix(X xor V[Integerify(X) mod N])");
        vassert!(eq128(&b, &BOUT[2 * N - 1]), "ROMix: result is the last X");
    }
    #[cfg(not(kani))]
    {
        let exp = spec_ro_mix::<RLEN>(&b0, N);
        assert!(b == exp, "ROMix: result is the last X");
    }
}
#[cfg_attr(kani, kani::proof)]
#[cfg_attr(kani, kani::unwind(130))]
#[doc = "verif-unwindset: scrypt::scrypt_ro_mix=3"]
#[cfg_attr(kani, kani::stub(crate::scrypt::scrypt_block_mix, block_mix_rec))]
#[cfg_attr(kani, kani::stub(crate::scrypt::xor, xor_model))]
pub(crate) fn c10_scrypt_ro_mix_n2() {
    case_ro_mix::<2, 256>(false, [0, 0, 0, 0]);
    vcover!(true, "witness: end of harness reached");
}
#[cfg_attr(kani, kani::proof)]
#[cfg_attr(kani, kani::unwind(130))]
#[doc = "verif-unwindset: scrypt::scrypt_ro_mix=5"]
#[cfg_attr(kani, kani::stub(crate::scrypt::scrypt_block_mix, block_mix_rec))]
#[cfg_attr(kani, kani::stub(crate::scrypt::xor, xor_model))]
pub(crate) fn c10_t_scrypt_ro_mix_n4() {
    case_ro_mix::<4, 512>(false, [0, 0, 0, 0]);
    vcover!(true, "witness: end of harness reached");
}

// ------------------------------------------------------------------------------------------------ top level (PBKDF2, ROMix, Hmac::new recorded)
pub(crate) const MAXB: usize = 256; // p * 128 * r for p <= 2, r = 1
pub(crate) const MAXDK: usize = 70;
pub(crate) static mut HN: usize = 0; // Hmac::new calls
pub(crate) static mut HKEY: (usize, usize) = (0, 0);
pub(crate) static mut HDIG: (usize, usize) = (0, 0); // (block size, output bits) of the digest handed to Hmac::new
pub(crate) static mut PN: usize = 0; // pbkdf2 calls
pub(crate) static mut PMAC: [usize; 2] = [0; 2];
pub(crate) static mut PC: [u32; 2] = [0; 2];
pub(crate) static mut PSALT: [(usize, usize); 2] = [(0, 0); 2];
pub(crate) static mut PSALTB: [u8; MAXB] = [0u8; MAXB]; // salt bytes of the SECOND call
pub(crate) static mut POUT: [(usize, usize); 2] = [(0, 0); 2];
pub(crate) static mut PFILL0: [u8; MAXB] = [0u8; MAXB]; // bytes produced by the first call
pub(crate) static mut PFILL1: [u8; MAXDK] = [0u8; MAXDK]; // bytes produced by the second call
pub(crate) static mut RN: usize = 0; // ro_mix calls
pub(crate) static mut RARG: [(usize, usize, usize, usize); 2] = [(0, 0, 0, 0); 2]; // (b.len, v.len, t.len, n)
pub(crate) static mut RIN: [[u8; RLEN]; 2] = [[0u8; RLEN]; 2];
pub(crate) static mut ROUT: [[u8; RLEN]; 2] = [[0u8; RLEN]; 2];

#[cfg(kani)]
pub(crate) fn hmac_new_rec<D: crate::digest::Digest>(digest: D, key: &[u8]) -> Hmac<D> {
    unsafe {
        HN += 1;
        HKEY = (key.as_ptr() as usize, key.len());
        HDIG = (digest.block_size(), digest.output_bits());
    }
    crate::hmac::verif_mk_hmac::mk_hmac_raw(digest, &[], &[], false)
}
#[cfg(kani)]
pub(crate) fn pbkdf2_rec<M: crate::mac::Mac>(mac: &mut M, salt: &[u8], c: u32, output: &mut [u8]) {
    unsafe {
        let k = PN;
        PN += 1;
        if k < 2 {
            PMAC[k] = mac as *mut M as *mut u8 as usize;
            PC[k] = c;
            PSALT[k] = (salt.as_ptr() as usize, salt.len());
            POUT[k] = (output.as_ptr() as usize, output.len());
        }
        if k == 0 {
            assert!(output.len() <= MAXB);
            let fill: [u8; MAXB] = kani::any();
            PFILL0 = fill;
            let n = output.len(); // concrete in every registered harness (p * 128 * r)
            output.copy_from_slice(&fill[..n]);
        } else if k == 1 {
            assert!(salt.len() <= MAXB && output.len() <= MAXDK);
            let n = salt.len(); // concrete (p * 128 * r)
            PSALTB[..n].copy_from_slice(salt);
            let fill: [u8; MAXDK] = kani::any();
            PFILL1 = fill;
            let mut i = 0;
            while i < MAXDK {
                if i < output.len() {
                    output[i] = fill[i];
                }
                i += 1;
            }
        }
    }
}
#[cfg(kani)]
pub(crate) fn ro_mix_rec(b: &mut [u8], v: &mut [u8], t: &mut [u8], n: usize) {
    assert!(b.len() == RLEN);
    let o: [u8; RLEN] = kani::any();
    unsafe {
        if RN < 2 {
            RARG[RN] = (b.len(), v.len(), t.len(), n);
            RIN[RN].copy_from_slice(b);
            ROUT[RN] = o;
        }
        RN += 1;
    }
    b.copy_from_slice(&o);
}
/// r = 1, N = 2^LOGN, parallelisation P in {1, 2} (concrete per harness); password, salt symbolic; dkLen symbolic 1..=70
fn case_scrypt_top<const LOGN: u8, const P: usize>() {
    let password = Bytes::<5>::any();
    let salt = Bytes::<5>::any();
    let prior: [u8; MAXDK] = any();
    let dk: usize = any();
    assume(dk >= 1 && dk <= MAXDK);
    vcover!(dk == 1, "dkLen = 1");
    vcover!(dk == 64, "dkLen = 64");
    vcover!(dk == MAXDK && password.len == 0 && salt.len == 0, "longest output, empty password and salt");
    let params = ScryptParams { log_n: LOGN, r: 1, p: P as u32 };
    let mut out = prior;
    scrypt(password.get(), salt.get(), &params, &mut out[..dk]);
    let n = 1usize << LOGN;
    #[cfg(kani)]
    unsafe {
        vassert!(HN == 1 && HKEY == (password.buf.as_ptr() as usize, password.len) && HDIG == (64, 256), "scrypt: one HMAC-SHA256 object keyed with the password");
        vassert!(PN == 2 && PMAC[0] == PMAC[1] && PC[0] == 1 && PC[1] == 1, "scrypt: two PBKDF2 calls with that HMAC, iteration count 1");
        vassert!(PSALT[0] == (salt.buf.as_ptr() as usize, salt.len) && POUT[0].1 == P * 128, "scrypt: B = PBKDF2(P, S, 1, p * 128 * r)");
        vassert!(RN == P, "scrypt: one ROMix per 128r-byte block of B");
        let mut i = 0;
        while i < P {
            vassert!(RARG[i] == (RLEN, n * RLEN, RLEN, n), "scrypt: ROMix on a 128r-byte block with N and a V of N blocks");
            let mut ok = true;
            let mut k = 0;
            while k < RLEN {
                if RIN[i][k] != PFILL0[RLEN * i + k] {
                    ok = false;
                }
                k += 1;
            }
            vassert!(ok, "scrypt: B[i] = ROMix(B[i]) on consecutive blocks of the first PBKDF2 output");
            i += 1;
        }
        vassert!(PSALT[1].1 == P * 128, "scrypt: second PBKDF2 salted with all of B");
        let mut ok = true;
        let mut k = 0;
        while k < P * RLEN {
            if PSALTB[k] != ROUT[k / RLEN][k % RLEN] {
                ok = false;
            }
            k += 1;
        }
        vassert!(ok, "scrypt: DK = PBKDF2(P, B[0] || ... || B[p-1], 1, dkLen)");
        vassert!(POUT[1] == (out.as_ptr() as usize, dk), "scrypt: second PBKDF2 writes the caller's output buffer, dkLen bytes");
        let mut k = 0;
        while k < MAXDK {
            vassert!(out[k] == if k < dk { PFILL1[k] } else { prior[k] }, "scrypt: output = second PBKDF2 result, bytes beyond dkLen untouched");
            k += 1;
        }
    }
    #[cfg(not(kani))]
    {
        use crate::mac::Mac;
        let mut mac = Hmac::new(Sha256::new(), password.get());
        let mut b = [0u8; MAXB];
        pbkdf2(&mut mac, salt.get(), 1, &mut b[..P * RLEN]);
        for i in 0..P {
            let mut blk = [0u8; RLEN];
            blk.copy_from_slice(&b[RLEN * i..RLEN * (i + 1)]);
            let m = spec_ro_mix::<RLEN>(&blk, n);
            b[RLEN * i..RLEN * (i + 1)].copy_from_slice(&m);
        }
        let mut exp = prior;
        let mut mac = Hmac::new(Sha256::new(), password.get());
        pbkdf2(&mut mac, &b[..P * RLEN], 1, &mut exp[..dk]);
        assert!(out == exp, "scrypt: output = second PBKDF2 result, bytes beyond dkLen untouched");
        let _ = mac.output_bytes();
    }
}
#[cfg_attr(kani, kani::proof)]
#[cfg_attr(kani, kani::unwind(514))]
#[doc = "verif-unwindset: scrypt::scrypt$=3"]
#[cfg_attr(kani, kani::stub(crate::hmac::Hmac::new, hmac_new_rec))]
#[cfg_attr(kani, kani::stub(crate::pbkdf2::pbkdf2, pbkdf2_rec))]
#[cfg_attr(kani, kani::stub(crate::scrypt::scrypt_ro_mix, ro_mix_rec))]
pub(crate) fn c10_scrypt_top_p1() {
    case_scrypt_top::<1, 1>();
    vcover!(true, "witness: end of harness reached");
}
#[cfg_attr(kani, kani::proof)]
#[cfg_attr(kani, kani::unwind(514))]
#[doc = "verif-unwindset: scrypt::scrypt$=3"]
#[cfg_attr(kani, kani::stub(crate::hmac::Hmac::new, hmac_new_rec))]
#[cfg_attr(kani, kani::stub(crate::pbkdf2::pbkdf2, pbkdf2_rec))]
#[cfg_attr(kani, kani::stub(crate::scrypt::scrypt_ro_mix, ro_mix_rec))]
pub(crate) fn c10_scrypt_top_p2() {
    case_scrypt_top::<2, 2>();
    vcover!(true, "witness: end of harness reached");
}

// ------------------------------------------------------------------------------------------------ C20
/// an empty output buffer is refused (RFC 7914: dkLen is a positive integer)
#[cfg_attr(kani, kani::proof)]
#[cfg_attr(kani, kani::should_panic)]
#[cfg_attr(kani, kani::unwind(514))]
#[cfg_attr(kani, kani::stub(crate::hmac::Hmac::new, hmac_new_rec))]
#[cfg_attr(kani, kani::stub(crate::pbkdf2::pbkdf2, pbkdf2_rec))]
#[cfg_attr(kani, kani::stub(crate::scrypt::scrypt_ro_mix, ro_mix_rec))]
pub(crate) fn c20_mackdf_scrypt_empty_output_panics() {
    let password = Bytes::<3>::any();
    let salt = Bytes::<3>::any();
    let params = ScryptParams { log_n: 1, r: 1, p: 1 };
    let mut out = [0u8; 0];
    scrypt(password.get(), salt.get(), &params, &mut out);
    vcover!(true, "MUST-NOT: scrypt accepted an empty output buffer");
}
