// Native execution entry for mirsym kernel counterexamples (SHA-1 compression).  Not a proof harness.
#![allow(dead_code, unused_imports, missing_docs)]
use crate::verif_lib::*;

#[cfg_attr(kani, kani::proof)]
pub(crate) fn zz_native_kernel_sha1() {
    #[cfg(not(kani))]
    {
        let _op: u8 = any();
        let mut h: [u32; 5] = any();
        let w: [u32; 16] = any();
        let mut blk = [0u8; 64];
        for i in 0..16 {
            blk[4 * i..4 * i + 4].copy_from_slice(&w[i].to_be_bytes());
        }
        super::digest_block(&mut h, &blk);
        let mut s = std::string::String::from("VERIF-NATIVE-OUT:");
        for v in h.iter() {
            s.push_str(&std::format!(" {}", v));
        }
        std::println!("{}", s);
    }
}
