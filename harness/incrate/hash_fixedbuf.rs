// C01 / C02 / C20 — FixedBuffer<N> of src/cryptoutil.rs: the Merkle-Damgard block buffer (child module of crate::cryptoutil).
//
// FixedBuffer::input is decided as ONE step from an ARBITRARY buffer state (all N buffer bytes arbitrary, every fill
// 0..N-1) on an input of symbolic length: the block function must be applied to exactly the complete N-byte blocks of
//     stream = pending ++ input            (pending = buffer[..buffer_idx])
// in stream order (first the topped-up internal buffer, then whole blocks straight from the caller's slice), and the
// buffer must be left holding the stream's incomplete tail.  Since the post-state is again an arbitrary valid buffer
// state, every split of a message into calls follows by induction (C02).  The block function is a recording closure:
// nothing is assumed about it.  The same body runs natively (a closure needs no Kani stub).
#![allow(dead_code, unused_imports, missing_docs)]
use super::*;
use crate::verif_lib::*;

// ---- constructors / observers for the other hash harness files (FixedBuffer's fields are private to cryptoutil) ----------
pub(crate) fn mk_fb<const N: usize>(buffer: [u8; N], idx: usize) -> FixedBuffer<N> {
    FixedBuffer { buffer, buffer_idx: idx }
}
pub(crate) fn fb_buf<const N: usize>(f: &FixedBuffer<N>) -> [u8; N] {
    f.buffer
}
pub(crate) fn fb_idx<const N: usize>(f: &FixedBuffer<N>) -> usize {
    f.buffer_idx
}
pub(crate) fn fb_addr<const N: usize>(f: &FixedBuffer<N>) -> usize {
    f.buffer.as_ptr() as usize
}

/// number of whole N-byte blocks in `total` bytes (shift for the two real block sizes: `/` is a 64-bit divider in CBMC)
pub(crate) fn blocks_of<const N: usize>(total: usize) -> usize {
    if N == 64 {
        total >> 6
    } else if N == 128 {
        total >> 7
    } else if N == 16 {
        total >> 4
    } else {
        total / N
    }
}

/// FixedBuffer::<N>::input, one step, input length 0..=MAX.
/// "for every byte position" is expressed with ONE symbolic position j (an input of the harness) instead of a loop over
/// all N positions: same claim, a third of the formula (measured 240 s -> 110 s for N = 64).
fn case_input_step<const N: usize, const MAX: usize>() {
    let buffer: [u8; N] = any();
    let idx: usize = any();
    let data = Bytes::<MAX>::any();
    let j: usize = any();
    assume(idx < N && j < N);
    let len = data.len;
    // few covers: each one is a SAT call on the full formula
    vcover!(len == 0, "empty input");
    vcover!(idx > 0 && idx + len == N - 1, "partial buffer stays one byte short of a block");
    vcover!(idx > 0 && idx + len > 2 * N && ((idx + len) & (N - 1)) == 1, "top-up AND direct block(s) AND a tail in one call");
    vcover!(idx == 0 && len == 2 * N, "two blocks straight from the input, empty tail");

    let mut fb = mk_fb::<N>(buffer, idx);
    let base = data.buf.as_ptr() as usize;
    let fbaddr = fb_addr(&fb);
    let mut ncalls = 0usize;
    let mut p = [0usize; 2];
    let mut l = [0usize; 2];
    let mut c0 = [0u8; N]; // contents of the internal buffer when it was handed to the block function
    fb.input(&data.buf[..len], |d: &[u8]| {
        if ncalls < 2 {
            p[ncalls] = d.as_ptr() as usize;
            l[ncalls] = d.len();
        }
        if d.as_ptr() as usize == fbaddr {
            if let Ok(a) = <&[u8; N]>::try_from(d) {
                c0 = *a;
            }
        }
        ncalls += 1;
    });

    // specification: stream = pending ++ input
    let total = idx + len;
    let nblk = blocks_of::<N>(total);
    let topup = idx > 0 && total >= N;
    let direct = nblk - (topup as usize);
    vassert!(ncalls == (topup as usize) + ((direct > 0) as usize), "FixedBuffer::input: block function applied once to the topped-up buffer (if it fills) and once to the whole blocks of the remaining input");
    if topup {
        vassert!(p[0] == fbaddr && l[0] == N, "FixedBuffer::input: first application is the full internal buffer");
        let s = if j < idx { buffer[j] } else { data.buf[j - idx] };
        vassert!(c0[j] == s, "FixedBuffer::input: topped-up buffer == pending bytes ++ head of the input");
    }
    if direct > 0 {
        let k = topup as usize;
        let at = if topup { N - idx } else { 0 };
        vassert!(p[k] == base + at, "FixedBuffer::input: whole blocks are taken from the input at the stream position that follows the buffer");
        vassert!(l[k] == direct * N, "FixedBuffer::input: all remaining whole blocks, and only whole blocks, are processed directly");
    }
    let nidx = total - nblk * N;
    vassert!(fb_idx(&fb) == nidx, "FixedBuffer::input: buffer fill == stream length mod N");
    let nb = fb_buf(&fb);
    if j < nidx {
        let k = nblk * N + j;
        let s = if k < idx { buffer[k] } else { data.buf[k - idx] };
        vassert!(nb[j] == s, "FixedBuffer::input: buffer holds the incomplete tail of the stream");
    }
}

#[cfg_attr(kani, kani::proof)]
#[cfg_attr(kani, kani::unwind(66))]
pub(crate) fn c01_fixedbuf64_input_step() {
    case_input_step::<64, 130>();
}
#[cfg_attr(kani, kani::proof)]
#[cfg_attr(kani, kani::unwind(130))]
pub(crate) fn c01_t_fixedbuf128_input_step() {
    case_input_step::<128, 258>();
}
/// generic code, small instantiation: N = 16, input up to 4 blocks + 3 (more direct blocks per call than the real sizes reach)
#[cfg_attr(kani, kani::proof)]
#[cfg_attr(kani, kani::unwind(18))]
pub(crate) fn c20_hash_fixedbuf16_input_step() {
    case_input_step::<16, 67>();
}

/// standard_padding(rem) from an arbitrary non-full buffer, followed by the length field write and full_buffer() exactly
/// as the four Merkle-Damgard finalisations do: no panic for any fill, emitted block(s) = pending ++ 0x80 ++ zeros.
fn case_padding<const N: usize, const REM: usize>() {
    let buffer: [u8; N] = any();
    let idx: usize = any();
    let lenfield: [u8; REM] = any();
    assume(idx < N);
    vcover!(idx == N - REM - 1, "0x80 is the last byte before the length field");
    vcover!(idx == N - REM, "no room for the length field: extra block");
    vcover!(idx == N - 1, "only the 0x80 fits");
    vcover!(idx == 0, "empty buffer");
    let mut fb = mk_fb::<N>(buffer, idx);
    let mut ncalls = 0usize;
    let mut c0 = [0u8; N];
    fb.standard_padding(REM, |d: &[u8; N]| {
        c0 = *d;
        ncalls += 1;
    });
    let spill = idx + 1 + REM > N;
    vassert!(ncalls == spill as usize, "standard_padding: an extra block is emitted iff 0x80 and the length field do not fit");
    vassert!(fb_idx(&fb) == N - REM, "standard_padding: exactly the length field remains free");
    let nb = fb_buf(&fb);
    let mut j = 0;
    while j < N {
        let first = if j < idx { buffer[j] } else if j == idx { 0x80 } else { 0 };
        if spill {
            vassert!(c0[j] == first, "standard_padding: emitted block == pending ++ 0x80 ++ zeros");
            if j < N - REM {
                vassert!(nb[j] == 0, "standard_padding: second block is zero up to the length field");
            }
        } else if j < N - REM {
            vassert!(nb[j] == first, "standard_padding: block == pending ++ 0x80 ++ zeros up to the length field");
        }
        j += 1;
    }
    *fb.next::<REM>() = lenfield;
    let fin = *fb.full_buffer();
    vassert!(fb_idx(&fb) == 0, "full_buffer: buffer handed out and emptied");
    let mut j = 0;
    while j < REM {
        vassert!(fin[N - REM + j] == lenfield[j], "next::<REM>: the length field occupies the last REM bytes of the final block");
        j += 1;
    }
}
#[cfg_attr(kani, kani::proof)]
#[cfg_attr(kani, kani::unwind(66))]
pub(crate) fn c20_hash_fixedbuf64_padding() {
    case_padding::<64, 8>();
}
#[cfg_attr(kani, kani::proof)]
#[cfg_attr(kani, kani::unwind(130))]
pub(crate) fn c20_hash_fixedbuf128_padding() {
    case_padding::<128, 16>();
}

/// new() is the empty buffer, reset() empties any buffer, Clone is field-wise
#[cfg_attr(kani, kani::proof)]
#[cfg_attr(kani, kani::unwind(130))]
pub(crate) fn c02_fixedbuf_new_reset_clone() {
    let buffer: [u8; 128] = any();
    let idx: usize = any();
    assume(idx < 128);
    vassert!(fb_idx(&FixedBuffer::<64>::new()) == 0 && fb_idx(&FixedBuffer::<128>::new()) == 0, "FixedBuffer::new: empty");
    let mut fb = mk_fb::<128>(buffer, idx);
    let c = fb.clone();
    vassert!(fb_idx(&c) == idx, "FixedBuffer::clone: same fill");
    let cb = fb_buf(&c);
    let mut j = 0;
    while j < 128 {
        vassert!(cb[j] == buffer[j], "FixedBuffer::clone: same bytes");
        j += 1;
    }
    fb.reset();
    vassert!(fb_idx(&fb) == 0, "FixedBuffer::reset: empty");
}
