"""Scratch copy of /repo's working tree + append-only overlay lines that mount the harness files.

Nothing is written to /repo. Each overlay line has the form
    #[cfg(any(kani, all(cryptoxide_verif, test)))] #[path = "<verif>/harness/incrate/<m>.rs"] mod verif_<m>;
appended to the source file whose private items the harness needs (a child module sees its
parent's private items).
"""
import os, re, shutil, subprocess, sys, json

VERIF = os.path.dirname(os.path.dirname(os.path.abspath(__file__)))
REPO = os.environ.get("VERIF_REPO", "/repo")
WORKROOT = os.environ.get("VERIF_WORK", "/var/tmp/cryptoxide-verif")
GUARD = "any(kani, all(cryptoxide_verif, test))"

X86SSE2 = 'all(any(target_arch = "x86", target_arch = "x86_64"), target_feature = "sse2")'

# overlay lines: (source file to append to, module name, harness file | "@glue" | "@rel:<relative path>", extra cfg, module path of the parent)
OVERLAYS = [
    ("src/lib.rs", "verif_lib", "vlib.rs", None, "crate"),
    ("src/lib.rs", "verif_glue", "@glue", None, "crate"),
    ("src/lib.rs", "verif_native", "limbs_native.rs", None, "crate"),
    ("src/constant_time.rs", "verif_ct", "ct.rs", None, "crate::constant_time"),
    # the portable ChaCha engine is not compiled on x86-64: mount the unmodified file a second time (C03/C16 hook)
    ("src/chacha/mod.rs", "reference_verif", "@rel:reference.rs", X86SSE2, "crate::chacha"),
    ("src/chacha/mod.rs", "verif_chacha", "chacha_spec.rs", None, "crate::chacha"),
    ("src/chacha/mod.rs", "verif_chacha_equiv", "chacha_equiv.rs", X86SSE2, "crate::chacha"),
    ("src/chacha/reference.rs", "verif_ref", "chacha_ref.rs", None, "crate::chacha::reference_verif"),
    ("src/chacha/sse2.rs", "verif_sse2", "chacha_sse2.rs", None, "crate::chacha::sse2"),
    ("src/chacha20.rs", "verif_ctx", "chacha20_ctx.rs", None, "crate::chacha20"),
    # the SHA-256 vector modules are only compiled with -C target-feature=+sse4.1/+avx: mount them unconditionally for the checks (C16 hook)
    ("src/hashing/sha2/impl256/mod.rs", "sse41", "@rel:sse41.rs", 'all(target_arch = "x86_64", not(target_feature = "sse4.1"))', "crate::hashing::sha2::impl256"),
    ("src/hashing/sha2/impl256/mod.rs", "avx", "@rel:avx.rs", 'all(target_arch = "x86_64", not(target_feature = "avx"))', "crate::hashing::sha2::impl256"),
    ("src/hashing/sha2/impl256/mod.rs", "verif_simd", "sha256_simd.rs", 'target_arch = "x86_64"', "crate::hashing::sha2::impl256"),
    ("src/cryptoutil.rs", "verif_cu", "cryptoutil.rs", None, "crate::cryptoutil"),
    ("src/salsa20.rs", "verif_salsa", "salsa.rs", None, "crate::salsa20"),
    ("src/drg/chacha.rs", "verif_drg", "drg.rs", None, "crate::drg::chacha"),
]

# plug-in registrations: runner/reg/*.py may define OVERLAYS (same tuple format) — one file per harness family
import glob as _glob, importlib.util as _ilu
def _load_reg():
    mods = []
    for f in sorted(_glob.glob(os.path.join(VERIF, "runner", "reg", "*.py"))):
        spec = _ilu.spec_from_file_location("reg_" + os.path.basename(f)[:-3], f)
        m = _ilu.module_from_spec(spec)
        spec.loader.exec_module(m)
        mods.append(m)
    return mods
REG = _load_reg()
for _m in REG:
    OVERLAYS += list(getattr(_m, "OVERLAYS", []))

# harness modules that sit below a private module are re-exported from the nearest crate-visible ancestor so that the
# native replay dispatcher (crate::verif_glue) can name them: real module path -> (file to append to, use-path, alias, cfg)
EXPORTS = {
    "crate::chacha::sse2::verif_sse2": ("src/chacha/mod.rs", "self::sse2::verif_sse2", "verif_sse2_x", X86SSE2, "crate::chacha"),
}


for _m in REG:
    EXPORTS.update(getattr(_m, "EXPORTS", {}))


def harness_files():
    out = []
    for (src, m, f, cfg, parent) in OVERLAYS:
        if not f.startswith("@") and f != "vlib.rs":
            out.append((src, m, f, cfg, parent))
    return out


PROOF_RE = re.compile(
    r"((?:^[ \t]*#\[[^\n]*\]\s*\n)+)[ \t]*pub\(crate\) fn ([a-z][a-z0-9_]*)\(\)", re.M)


def scan_harnesses(path):
    """-> list of dict(name, should_panic, unwind, stubs, feature_cfg)"""
    txt = open(path).read()
    res = []
    for m in PROOF_RE.finditer(txt):
        attrs, name = m.group(1), m.group(2)
        if "kani::proof" not in attrs:
            continue
        uw = re.search(r"kani::unwind\((\d+)\)", attrs)
        stubs = re.findall(r"kani::stub\(([^)]*)\)", attrs)
        cfgs = re.findall(r"^[ \t]*#\[cfg\(([^\n]*)\)\]\s*$", attrs, re.M)
        uws = []
        for um in re.finditer(r'verif-unwindset:\s*([^"]*)"', attrs):
            for item in um.group(1).split(","):
                item = item.strip()
                if item:
                    k, v = item.rsplit("=", 1)
                    uws.append((k.strip(), int(v)))
        cargs = []
        for cm in re.finditer(r'verif-cbmc-args:\s*([^"]*)"', attrs):
            cargs += cm.group(1).split()
        res.append(dict(name=name, should_panic="kani::should_panic" in attrs, unwindset=uws, cbmc_args=cargs,
                        unwind=int(uw.group(1)) if uw else None,
                        stubs=[s.strip() for s in stubs], cfg=cfgs))
    return res


def module_path_of(src):
    """src/hashing/sha2/mod.rs -> crate::hashing::sha2 ; src/lib.rs -> crate"""
    p = src[len("src/"):-len(".rs")]
    parts = p.split("/")
    if parts[-1] in ("mod", "lib"):
        parts = parts[:-1]
    return "::".join(["crate"] + parts)


def all_harnesses():
    """name -> info (with module path and file)"""
    out = {}
    for (src, m, f, cfg, parent) in harness_files():
        path = os.path.join(VERIF, "harness", "incrate", f)
        for h in scan_harnesses(path):
            h = dict(h)
            h["module"] = parent + "::" + m
            if cfg:
                h["cfg"] = h["cfg"] + [cfg]
            h["file"] = f
            h["src"] = src
            if h["name"] in out:
                raise SystemExit("duplicate harness name " + h["name"])
            out[h["name"]] = h
    return out


def make_scratch(tag, features=None):
    """copy /repo's working tree (no target/, no .git) and apply the overlay. returns scratch dir"""
    base = os.path.join(WORKROOT, "%s.%d" % (tag, os.getpid()))
    if os.path.exists(base):
        shutil.rmtree(base)
    os.makedirs(base)
    dst = os.path.join(base, "crate")
    subprocess.check_call(["rsync", "-a", "--exclude", "/target", "--exclude", "/.git",
                           REPO.rstrip("/") + "/", dst + "/"])
    # glue: native replay dispatcher
    hs = all_harnesses()
    glue = ["// generated by runner/overlay.py — native replay dispatcher", "#![allow(missing_docs, dead_code)]",
            "#[cfg(all(test, not(kani)))]", "pub(crate) fn dispatch(name: &str) -> Option<fn()> {", "    match name {"]
    for name, h in sorted(hs.items()):
        guard = ""
        for c in h["cfg"]:
            guard += "#[cfg(%s)] " % c
        mp = h["module"]
        if mp in EXPORTS:
            mp = EXPORTS[mp][4] + "::" + EXPORTS[mp][2]
        glue.append('        %s"%s" => Some(%s::%s as fn()),' % (guard, name, mp, name))
    glue += ["        _ => None,", "    }", "}", "",
             "#[cfg(all(test, not(kani)))]", "#[test]", "fn verif_replay_entry() {",
             "    use std::string::String; use std::vec::Vec;",
             '    let name = std::env::var("VERIF_REPLAY_HARNESS").expect("VERIF_REPLAY_HARNESS");',
             '    let hex = std::env::var("VERIF_REPLAY_BYTES").unwrap_or_default();',
             "    let bytes: Vec<u8> = (0..hex.len() / 2).map(|i| u8::from_str_radix(&hex[2 * i..2 * i + 2], 16).unwrap()).collect();",
             "    crate::verif_lib::set_stream(bytes);",
             '    let f = dispatch(&name).expect("unknown harness");',
             "    let r = std::panic::catch_unwind(f);",
             "    let under = crate::verif_lib::underrun();",
             "    match r {",
             '        Ok(()) => std::println!("VERIF-REPLAY-RESULT: returned underrun={}", under),',
             "        Err(e) => {",
             "            let msg: String = if let Some(s) = e.downcast_ref::<&str>() { String::from(*s) } else if let Some(s) = e.downcast_ref::<String>() { s.clone() } else { String::from(\"?\") };",
             '            std::println!("VERIF-REPLAY-RESULT: panicked underrun={} msg={}", under, msg.replace(\'\\n\', " "));',
             "        }", "    }", "}", ""]
    gluepath = os.path.join(base, "verif_glue.rs")
    open(gluepath, "w").write("\n".join(glue))
    for (src, m, f, cfg, parent) in OVERLAYS:
        p = os.path.join(dst, src)
        if not os.path.exists(p):
            raise SystemExit("INCONCLUSIVE: overlay target %s missing in current tree" % src)
        with open(p, "a") as fh:
            if f == "@glue":
                path = gluepath
            elif f.startswith("@rel:"):
                path = f[5:]
            else:
                path = os.path.join(VERIF, "harness", "incrate", f)
            g = GUARD if not cfg else "all(%s, %s)" % (GUARD, cfg)
            fh.write('\n#[cfg(%s)] #[path = "%s"] pub(crate) mod %s;\n' % (g, path, m))
    for mp, (src, usepath, alias, cfg, parent) in EXPORTS.items():
        g = GUARD if not cfg else "all(%s, %s)" % (GUARD, cfg)
        with open(os.path.join(dst, src), "a") as fh:
            fh.write('#[cfg(%s)] #[allow(unused_imports)] pub(crate) use %s as %s;\n' % (g, usepath, alias))
    # cargo config: offline
    os.makedirs(os.path.join(dst, ".cargo"), exist_ok=True)
    open(os.path.join(dst, ".cargo", "config.toml"), "w").write("[net]\noffline = true\n")
    return base


def remove_scratch(base):
    shutil.rmtree(base, ignore_errors=True)


if __name__ == "__main__":
    b = make_scratch(sys.argv[1] if len(sys.argv) > 1 else "manual")
    print(b)
