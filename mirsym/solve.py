"""Discharge Int-domain obligations with z3 (linear integer arithmetic after monomial abstraction).

Variables: one Int per atom, one Int per non-linear monomial (abstraction; bounded by interval products and McCormick
envelopes for degree-2 monomials). Assumptions: atom bounds, quotient-atom definitions (0 <= X - q*2^k < 2^k), caller assumptions.
An obligation `lo <= P <= hi` is proved when assumptions /\ not(lo <= P <= hi) is unsat; `P == 0 (mod M)` when
assumptions /\ (P mod M != 0) is unsat. sat => candidate counterexample (may be spurious because of the abstraction:
the caller re-runs the interpreter concretely on the model's input values).
"""
import time
import z3
from poly import Poly, DP, mono_interval


class Problem:
    def __init__(self, tab, timeout_ms=60000):
        self.tab = tab
        self.s = z3.Solver()
        self.s.set("timeout", timeout_ms)
        self.avars = {}
        self.mvars = {}
        self.n_constraints = 0
        self._done_atoms = 0
        self._done_cons = 0
        self.time = 0.0
        self.queries = 0
        self.cross = None          # dict(left=n, results=[...]) when a second solver should re-decide a sample of the unsat queries

    def _cross_check(self):
        """diff with a second solver: the current assertion stack (assumptions + negated obligation) as SMT-LIB 2 through cvc5"""
        import subprocess, tempfile, os
        self.cross["left"] -= 1
        txt = "(set-logic ALL)\n" + self.s.to_smt2()
        fd, path = tempfile.mkstemp(suffix=".smt2")
        os.write(fd, txt.encode())
        os.close(fd)
        try:
            pr = subprocess.run(["cvc5", "--lang", "smt2", "--tlimit", "60000", path], stdout=subprocess.PIPE, stderr=subprocess.STDOUT, timeout=90)
            out = pr.stdout.decode("utf-8", "replace").strip().splitlines()
            verdict = out[0].strip() if out else "no output"
            if any("(error" in l for l in out):
                verdict = "error"
        except Exception as e:
            verdict = "failed: %r" % e
        finally:
            os.unlink(path)
        self.cross["results"].append(verdict)

    def avar(self, i):
        if i not in self.avars:
            v = z3.Int("a%d_%s" % (i, self.tab.atoms[i]["name"]))
            self.avars[i] = v
            lo, hi = self.tab.bounds(i)
            self.s.add(v >= lo, v <= hi)
        return self.avars[i]

    def mvar(self, m):
        if len(m) == 1:
            return self.avar(m[0])
        if m not in self.mvars:
            v = z3.Int("m_" + "_".join(str(x) for x in m))
            self.mvars[m] = v
            lo, hi = mono_interval(m, self.tab)
            self.s.add(v >= lo, v <= hi)
            if len(m) == 2:
                x, y = self.avar(m[0]), self.avar(m[1])
                (xl, xh), (yl, yh) = self.tab.bounds(m[0]), self.tab.bounds(m[1])
                # McCormick envelopes: valid linear consequences of v = x*y within the boxes
                self.s.add(v >= xl * y + x * yl - xl * yl, v >= xh * y + x * yh - xh * yh,
                           v <= xh * y + x * yl - xh * yl, v <= xl * y + x * yh - xl * yh)
        return self.mvars[m]

    def lin(self, p):
        terms = []
        for m, c in p.t.items():
            if m == ():
                terms.append(z3.IntVal(c))
            else:
                terms.append(c * self.mvar(m))
        if not terms:
            return z3.IntVal(0)
        return z3.Sum(terms) if len(terms) > 1 else terms[0]

    def sync(self):
        """add the definitions of quotient atoms / assumptions created since the last call"""
        cons = self.tab.constraints
        while self._done_cons < len(cons):
            p, lo, hi = cons[self._done_cons]
            e = self.lin(p)
            self.s.add(e >= lo, e <= hi)
            self._done_cons += 1

    def _check(self, neg):
        self.sync()
        t = time.time()
        self.s.push()
        self.s.add(neg)
        r = self.s.check()
        if r == z3.unsat and self.cross is not None and self.cross["left"] > 0:
            self._cross_check()
        model = None
        if r == z3.sat:
            mdl = self.s.model()
            model = {}
            for i, v in self.avars.items():
                val = mdl.eval(v, model_completion=True)
                model[self.tab.atoms[i]["name"]] = val.as_long()
        self.s.pop()
        self.time += time.time() - t
        self.queries += 1
        return str(r), model

    def prove_range(self, p, lo, hi):
        p = DP.lift(p).c      # compact form: remainders are atoms with their own bounds (linked to the expanded form by the definitions)
        if p.is_const():
            self.queries += 1
            return ("unsat", None) if lo <= p.cval() <= hi else ("sat", {})
        e = self.lin(p)
        return self._check(z3.Or(e < lo, e > hi))

    def prove_congruent(self, p, modulus):
        """p == 0 (mod modulus). Encoding: coefficients are first reduced to symmetric residues (changes p by a multiple of the
        modulus); if the reduced polynomial provably lies strictly between -modulus and modulus the query is `!= 0`, else `mod != 0`."""
        p = DP.lift(p).e      # expanded form: canonical, carries cancel syntactically
        red = {}
        for m, c in p.t.items():
            r = c % modulus
            if r > modulus // 2:
                r -= modulus
            if r:
                red[m] = r
        red = Poly(red)
        e = self.lin(red)
        lo, hi = red.interval(self.tab)
        if -modulus < lo and hi < modulus:
            return self._check(e != 0)
        return self._check(e % modulus != 0)

    def prove_fzero(self, fp):
        """ring-level identity: after normalisation in GF(p)[vars] (and rewriting with the curve equation) the polynomial must be 0.
        The residual polynomial is handed to z3 as `exists assignment of its monomials (as opaque reals): residual != 0`, which is unsat
        exactly when every coefficient vanished; a non-zero residual is returned with its leading terms."""
        self.queries += 1
        t = time.time()
        s2 = z3.Solver()
        terms = []
        for m, c in list(fp.t.items())[:200]:
            terms.append(z3.RealVal(c) * z3.Real("mono_" + "_".join(m) if m else "one"))
        expr = z3.Sum(terms) if terms else z3.RealVal(0)
        s2.add(expr != 0)
        r = s2.check()
        self.time += time.time() - t
        if r == z3.unsat:
            return "unsat", None
        return "sat", {"residual": fp.show(8), "terms": fp.nterms()}

    def prove_equal(self, p):
        """p == 0"""
        p = DP.lift(p).e
        if not p.t:
            self.queries += 1
            return "unsat", None
        e = self.lin(p)
        return self._check(e != 0)
