"""Integer polynomials over named atoms with interval bounds: the value domain of the Int engine.

A Poly is a dict {monomial: coefficient}; a monomial is a sorted tuple of atom ids (() = constant term).
Atoms live in an AtomTable (name, lo, hi, optional definition as a quotient atom).
"""
from fractions import Fraction


class AtomTable:
    def __init__(self):
        self.atoms = []      # dict(name, lo, hi, kind, defn)
        self.by_name = {}
        self.quot_cache = {}  # (frozen poly, k) -> atom id
        self.constraints = []  # (poly, lo, hi): lo <= poly <= hi  (definitions of quotient atoms, caller's assumptions)

    def new(self, name, lo, hi, kind="input", defn=None):
        assert lo <= hi, (name, lo, hi)
        i = len(self.atoms)
        self.atoms.append(dict(name=name, lo=lo, hi=hi, kind=kind, defn=defn))
        self.by_name[name] = i
        return i

    def bounds(self, i):
        a = self.atoms[i]
        return a["lo"], a["hi"]


def _madd(d, m, c):
    if c == 0:
        return
    v = d.get(m, 0) + c
    if v == 0:
        d.pop(m, None)
    else:
        d[m] = v


class Poly:
    __slots__ = ("t",)

    def __init__(self, t=None):
        self.t = t if t is not None else {}

    @staticmethod
    def const(c):
        return Poly({(): c} if c else {})

    @staticmethod
    def atom(i):
        return Poly({(i,): 1})

    def is_const(self):
        return all(m == () for m in self.t)

    def cval(self):
        assert self.is_const()
        return self.t.get((), 0)

    def __add__(self, o):
        d = dict(self.t)
        for m, c in o.t.items():
            _madd(d, m, c)
        return Poly(d)

    def __sub__(self, o):
        d = dict(self.t)
        for m, c in o.t.items():
            _madd(d, m, -c)
        return Poly(d)

    def __neg__(self):
        return Poly({m: -c for m, c in self.t.items()})

    def scale(self, k):
        if k == 0:
            return Poly()
        return Poly({m: c * k for m, c in self.t.items()})

    def __mul__(self, o):
        if o.is_const():
            return self.scale(o.cval())
        if self.is_const():
            return o.scale(self.cval())
        d = {}
        for m1, c1 in self.t.items():
            for m2, c2 in o.t.items():
                _madd(d, tuple(sorted(m1 + m2)), c1 * c2)
        return Poly(d)

    def key(self):
        return tuple(sorted(self.t.items()))

    def __eq__(self, o):
        return isinstance(o, Poly) and self.t == o.t

    def __hash__(self):
        return hash(self.key())

    def degree(self):
        return max((len(m) for m in self.t), default=0)

    def atoms(self):
        s = set()
        for m in self.t:
            s.update(m)
        return s

    def pow2_content(self):
        """largest g with 2^g dividing every coefficient (incl. constant); None for the zero poly"""
        if not self.t:
            return None
        g = None
        for c in self.t.values():
            c = abs(c)
            k = (c & -c).bit_length() - 1
            g = k if g is None else min(g, k)
        return g

    def div_exact(self, k):
        return Poly({m: c // k for m, c in self.t.items()})

    def interval(self, tab):
        lo = hi = 0
        for m, c in self.t.items():
            ml, mh = mono_interval(m, tab)
            if c >= 0:
                lo += c * ml
                hi += c * mh
            else:
                lo += c * mh
                hi += c * ml
        return lo, hi

    def eval(self, env):
        v = 0
        for m, c in self.t.items():
            p = c
            for a in m:
                p *= env[a]
            v += p
        return v

    def show(self, tab, maxterms=12):
        items = sorted(self.t.items(), key=lambda x: (len(x[0]), x[0]))
        out = []
        for m, c in items[:maxterms]:
            out.append("%d%s" % (c, "".join("*" + tab.atoms[a]["name"] for a in m)))
        if len(items) > maxterms:
            out.append("... (%d terms)" % len(items))
        return " + ".join(out) if out else "0"


def mono_interval(m, tab):
    lo, hi = 1, 1
    # group equal atoms so that squares get a non-negative lower bound
    i = 0
    while i < len(m):
        j = i
        while j < len(m) and m[j] == m[i]:
            j += 1
        e = j - i
        al, ah = tab.bounds(m[i])
        if e % 2 == 0:
            cands = [al ** e, ah ** e]
            pl = 0 if al <= 0 <= ah else min(cands)
            ph = max(cands)
        else:
            pl, ph = al ** e, ah ** e
        c = [lo * pl, lo * ph, hi * pl, hi * ph]
        lo, hi = min(c), max(c)
        i = j
    return lo, hi


class DP:
    """dual polynomial: the same integer value in two forms
         e : expanded over input atoms and quotient atoms only (remainders substituted: r = X - q*2^k) -- canonical, used for algebra
         c : compact, may mention remainder atoms (tight bounds by construction)                      -- used for interval bounds
       the solver is told r == X_e - q*2^k for every remainder atom, so both forms denote the same value"""
    __slots__ = ("e", "c")

    def __init__(self, e=None, c=None):
        self.e = e if e is not None else Poly()
        self.c = c if c is not None else self.e

    @staticmethod
    def const(v):
        p = Poly.const(v)
        return DP(p, p)

    @staticmethod
    def atom(i):
        p = Poly.atom(i)
        return DP(p, p)

    @staticmethod
    def lift(x):
        if isinstance(x, DP):
            return x
        if isinstance(x, Poly):
            return DP(x, x)
        if isinstance(x, int):
            return DP.const(x)
        raise TypeError(type(x))

    def is_const(self):
        return self.e.is_const()

    def cval(self):
        return self.e.cval()

    def __add__(self, o):
        o = DP.lift(o)
        return DP(self.e + o.e, self.c + o.c)

    __radd__ = __add__

    def __sub__(self, o):
        o = DP.lift(o)
        return DP(self.e - o.e, self.c - o.c)

    def __rsub__(self, o):
        return DP.lift(o) - self

    def __neg__(self):
        return DP(-self.e, -self.c)

    def scale(self, k):
        return DP(self.e.scale(k), self.c.scale(k))

    def __mul__(self, o):
        o = DP.lift(o)
        return DP(self.e * o.e, self.c * o.c)

    __rmul__ = __mul__

    def key(self):
        return self.e.key()

    def pow2_content(self):
        return self.e.pow2_content()

    def atoms(self):
        return self.e.atoms()

    @property
    def t(self):
        return self.e.t

    def interval(self, tab):
        l1, h1 = self.c.interval(tab)
        if self.c is self.e:
            return l1, h1
        l2, h2 = self.e.interval(tab)
        return max(l1, l2), min(h1, h2)

    def show(self, tab, maxterms=12):
        return self.c.show(tab, maxterms)
