// C09 — shared pieces for the legacy digest wrapper harnesses (child module of crate::digest).
//
// A legacy digest object (src/sha1.rs, src/sha2.rs, src/sha3.rs, src/ripemd160.rs) is (hashing context, computed flag).
// Under Kani the three context methods it delegates to (update_mut / finalize_reset / reset of crate::hashing::*) are
// RECORDERS: they log which context they were called on and with which slice, finalize_reset returns fresh arbitrary bytes.
// The wrapper's own logic — the gate, the flag transitions, which context method is called with what, which bytes reach the
// caller — is the real code.  What the recorded context methods themselves compute (streaming == one-shot, reset == new at
// the context level) is the subject of C01/C02.  Natively (no stubs) the same body compares the wrapper's output with the
// hashing-context API and the consuming one-shot API on the same bytes.
#![allow(dead_code, unused_imports, missing_docs, static_mut_refs)]
use super::*;
use crate::verif_lib::*;
use alloc::vec::Vec;

pub(crate) static mut NUPD: usize = 0;
pub(crate) static mut UADDR: usize = 0;
pub(crate) static mut UPTR: usize = 0;
pub(crate) static mut ULEN: usize = 0;
pub(crate) static mut NFIN: usize = 0;
pub(crate) static mut FADDR: usize = 0;
pub(crate) static mut FOUT: [u8; 64] = [0u8; 64];
pub(crate) static mut NRST: usize = 0;
pub(crate) static mut RADDR: usize = 0;

pub(crate) fn rec_update(addr: usize, input: &[u8]) {
    unsafe {
        NUPD += 1;
        UADDR = addr;
        UPTR = input.as_ptr() as usize;
        ULEN = input.len();
    }
}
pub(crate) fn rec_final<const OB: usize>(addr: usize, o: &[u8; OB]) {
    unsafe {
        NFIN += 1;
        FADDR = addr;
        let mut i = 0;
        while i < OB {
            FOUT[i] = o[i];
            i += 1;
        }
    }
}
pub(crate) fn rec_reset(addr: usize) {
    unsafe {
        NRST += 1;
        RADDR = addr;
    }
}

pub(crate) trait Wrap: Digest + Clone {
    /// digest size in bytes
    const OB: usize;
    fn with_flag(computed: bool) -> Self;
    fn flag(&self) -> bool;
    fn ctx_addr(&self) -> usize;
    /// native twin: the same chunks through the hashing-context API (update_mut ..., finalize_reset)
    #[cfg(not(kani))]
    fn direct(chunks: &[&[u8]]) -> Vec<u8>;
    /// native twin: consuming one-shot API on the concatenation
    #[cfg(not(kani))]
    fn oneshot(all: &[u8]) -> Vec<u8>;
}

/// history  reset; input(d1); input(d2); result; reset; input(d2); result  from an object that is open OR closed at the start
pub(crate) fn case_glue<W: Wrap>() {
    let d1 = Bytes::<5>::any();
    let d2 = Bytes::<5>::any();
    let start_closed: bool = any();
    vcover!(start_closed, "starts from a closed object (result taken, not yet reset)");
    vcover!(!start_closed && d1.len == 0 && d2.len == 5, "empty chunk then a non-empty one");
    let mut w = W::with_flag(start_closed);
    let mut out = [0u8; 64];
    let mut out2 = [0u8; 64];

    w.reset();
    vassert!(!w.flag(), "legacy digest reset: object open again");
    #[cfg(kani)]
    unsafe {
        vassert!(NRST == 1 && RADDR == w.ctx_addr() && NUPD == 0 && NFIN == 0, "legacy digest reset: exactly the context's reset");
    }
    w.input(d1.get());
    #[cfg(kani)]
    unsafe {
        vassert!(NUPD == 1 && UADDR == w.ctx_addr() && UPTR == d1.buf.as_ptr() as usize && ULEN == d1.len, "legacy digest input: the chunk goes to the context's update, unchanged");
    }
    w.input(d2.get());
    vassert!(!w.flag(), "legacy digest input: object stays open");
    #[cfg(kani)]
    unsafe {
        vassert!(NUPD == 2 && UADDR == w.ctx_addr() && UPTR == d2.buf.as_ptr() as usize && ULEN == d2.len, "legacy digest input: the chunk goes to the context's update, unchanged");
        vassert!(NFIN == 0 && NRST == 1, "legacy digest input: nothing finalised, nothing reset");
    }
    w.result(&mut out[..W::OB]);
    vassert!(w.flag(), "legacy digest result: object closed afterwards");
    #[cfg(kani)]
    unsafe {
        vassert!(NFIN == 1 && FADDR == w.ctx_addr() && NUPD == 2 && NRST == 1, "legacy digest result: exactly one finalisation of its own context");
        let mut i = 0;
        while i < 64 {
            vassert!(out[i] == if i < W::OB { FOUT[i] } else { 0 }, "legacy digest result: caller receives the context's digest bytes");
            i += 1;
        }
    }
    w.reset();
    vassert!(!w.flag(), "legacy digest reset: object open again");
    w.input(d2.get());
    w.result(&mut out2[..W::OB]);
    vassert!(w.flag(), "legacy digest result: object closed afterwards");
    #[cfg(kani)]
    unsafe {
        vassert!(NRST == 2 && NUPD == 3 && NFIN == 2, "legacy digest second message: reset, one update, one finalisation");
    }
    #[cfg(not(kani))]
    {
        let mut all = Vec::new();
        all.extend_from_slice(d1.get());
        all.extend_from_slice(d2.get());
        let a = W::direct(&[d1.get(), d2.get()]);
        let b = W::oneshot(&all);
        assert!(&out[..W::OB] == &a[..] && a == b, "legacy digest result: caller receives the context's digest bytes");
        let c = W::oneshot(d2.get());
        assert!(&out2[..W::OB] == &c[..], "legacy digest second message: reset, one update, one finalisation");
    }
}

/// closed object: input must fail loudly
pub(crate) fn case_closed_input<W: Wrap>() {
    let d = Bytes::<3>::any();
    let mut w = W::with_flag(true);
    w.input(d.get());
}
/// closed object: a second result must fail loudly
pub(crate) fn case_closed_result<W: Wrap>() {
    let mut w = W::with_flag(true);
    let mut out = [0u8; 64];
    w.result(&mut out[..W::OB]);
}
/// result into a buffer of the wrong length must fail loudly (never a truncated digest)
pub(crate) fn case_wrong_len<W: Wrap>() {
    let n: usize = any();
    assume(n <= 64 && n != W::OB);
    let mut w = W::with_flag(false);
    let mut out = [0u8; 64];
    w.result(&mut out[..n]);
}
/// clone copies the flag (context: derive(Clone))
pub(crate) fn case_clone<W: Wrap>() {
    let f: bool = any();
    let w = W::with_flag(f);
    let c = w.clone();
    vassert!(c.flag() == w.flag(), "legacy digest clone: same open/closed state");
}
