// C05 — Poly1305 (src/poly1305.rs; child module of crate::poly1305).
// Decomposition (DESIGN.md 4/C05):
//   new     : clamp + 26-bit limb split of r, pad words                                  [here, full width]
//   input   : 16-byte staging buffer; one step from an arbitrary context, block() recorded [here]
//   finish  : final partial block framing (block() recorded) and the final carry /
//             conditional subtraction of p / + s mod 2^128 for ALL accumulators in the
//             limb invariant I_h                                                           [here, full width]
//   block   : h' = (h + m + hibit*2^128) * r mod p, no overflow, I_h preserved             [mirsym Int engine]
// I_h (established by new/reset/block, see the mirsym obligations): h0,h2,h3,h4 < 2^26, h1 < 2^26 + 2^7.
#![allow(dead_code, unused_imports, missing_docs)]
use super::*;
use crate::verif_lib::*;

pub(crate) const M26: u32 = 0x3ffffff;

pub(crate) fn mk(r: [u32; 5], h: [u32; 5], pad: [u32; 4], leftover: usize, buffer: [u8; 16], finalized: bool) -> Poly1305 {
    Poly1305 { r, h, pad, leftover, buffer, finalized }
}
pub(crate) fn parts(p: &Poly1305) -> ([u32; 5], [u32; 5], [u32; 4], usize, [u8; 16], bool) {
    (p.r, p.h, p.pad, p.leftover, p.buffer, p.finalized)
}
pub(crate) fn assume_ih(h: &[u32; 5]) {
    assume(h[0] <= M26 && h[2] <= M26 && h[3] <= M26 && h[4] <= M26 && h[1] < (1 << 26) + (1 << 7));
}
/// clamped-r limb ranges (what new() produces for any key)
pub(crate) fn assume_r(r: &[u32; 5]) {
    assume(r[0] & !0x3ffffff == 0 && r[1] & !0x3ffff03 == 0 && r[2] & !0x3ffc0ff == 0 && r[3] & !0x3f03fff == 0 && r[4] & !0x00fffff == 0);
}
fn eq5(a: &[u32; 5], b: &[u32; 5]) -> bool {
    a[0] == b[0] && a[1] == b[1] && a[2] == b[2] && a[3] == b[3] && a[4] == b[4]
}
fn eq4(a: &[u32; 4], b: &[u32; 4]) -> bool {
    a[0] == b[0] && a[1] == b[1] && a[2] == b[2] && a[3] == b[3]
}
fn le128(b: &[u8]) -> u128 {
    let mut v = 0u128;
    let mut i = 0;
    while i < 16 {
        v |= (b[i] as u128) << (8 * i);
        i += 1;
    }
    v
}

// ---- recorder for the private block(): logs the 16 message bytes and the `finalized` flag (=> hibit), returns a fresh accumulator
pub(crate) const NB: usize = 5;
pub(crate) static mut BN: usize = 0;
pub(crate) static mut BM: [[u8; 16]; NB] = [[0u8; 16]; NB];
pub(crate) static mut BF: [bool; NB] = [false; NB];
pub(crate) static mut BLEN: [usize; NB] = [0; NB];
#[cfg(kani)]
pub(crate) fn block_rec(p: &mut Poly1305, m: &[u8]) {
    unsafe {
        if BN < NB {
            BLEN[BN] = m.len();
            if m.len() >= 16 {
                let mut b = [0u8; 16];
                b.copy_from_slice(&m[0..16]);
                BM[BN] = b;
            }
            BF[BN] = p.finalized;
        }
        BN += 1;
    }
    // contract of the real block(): the result is again in the limb invariant I_h (mirsym obligation c05/block)
    let nh: [u32; 5] = kani::any();
    assume_ih(&nh);
    p.h = nh;
}

// ------------------------------------------------------------------------------------------------ new
#[cfg_attr(kani, kani::proof)]
#[cfg_attr(kani, kani::unwind(18))]
pub(crate) fn c05_new_clamp_and_limbs() {
    let key: [u8; 32] = any();
    let p = Poly1305::new(&key);
    // RFC 8439 2.5: r = le_bytes_to_num(key[0..16]) & 0x0ffffffc0ffffffc0ffffffc0fffffff ; s = le_bytes_to_num(key[16..32])
    let r = le128(&key[0..16]) & 0x0ffffffc0ffffffc0ffffffc0fffffffu128;
    let s = le128(&key[16..32]);
    vcover!(key[3] == 0xff && key[4] == 0xff, "unclamped key bytes");
    let mut i = 0;
    while i < 5 {
        vassert!(p.r[i] as u128 == (r >> (26 * i)) & 0x3ffffff, "new: r limbs are the 26-bit limbs of the clamped r");
        i += 1;
    }
    let mut i = 0;
    while i < 4 {
        vassert!(p.pad[i] as u128 == (s >> (32 * i)) & 0xffffffff, "new: pad words are the little-endian words of s");
        i += 1;
    }
    vassert!(p.h[0] == 0 && p.h[1] == 0 && p.h[2] == 0 && p.h[3] == 0 && p.h[4] == 0, "new: accumulator zero");
    vassert!(p.leftover == 0 && !p.finalized, "new: nothing buffered, not finalized");
}

// ------------------------------------------------------------------------------------------------ input step
/// From an arbitrary context (leftover < 16, arbitrary buffer/accumulator/key) one input(data), data 0..=MAX bytes:
/// block() is called on exactly the successive 16-byte chunks of  buffer[..leftover] || data  (hibit set), the
/// remainder is staged.  Any chunking of a message therefore feeds block() the same sequence.
fn case_input_step<const MAX: usize>() {
    let r: [u32; 5] = any();
    let h: [u32; 5] = any();
    let pad: [u32; 4] = any();
    let leftover: usize = any();
    let buffer: [u8; 16] = any();
    let data = Bytes::<MAX>::any();
    assume(leftover < 16);
    assume_r(&r);
    assume_ih(&h);
    let len = data.len;
    vcover!(leftover == 0 && len == 16, "exactly one block, nothing staged");
    vcover!(leftover == 5 && len == 11, "completes the staged block exactly");
    vcover!(leftover == 5 && len > 27, "completes the staged block and carries at least one more block");
    vcover!(leftover == 3 && len == 2, "stays below a block");
    vcover!(len == 0, "empty input");
    vcover!(len == MAX, "longest input");
    let mut p = mk(r, h, pad, leftover, buffer, false);
    p.input(&data.buf[..len]);

    let total = leftover + len;
    let nblk = total >> 4;
    let rem = total & 15;
    // byte j of the logical stream buffer[..leftover] || data
    let stream = |j: usize| -> u8 {
        if j < leftover {
            buffer[j]
        } else {
            data.buf[j - leftover]
        }
    };
    #[cfg(kani)]
    unsafe {
        vassert!(BN == nblk, "input: one block() call per complete 16-byte chunk of staged||data");
        let mut k = 0;
        while k < NB {
            if k < nblk {
                vassert!(BLEN[k] == 16, "input: block() receives exactly 16 bytes");
                vassert!(!BF[k], "input: blocks absorbed with the 2^128 marker (not finalized)");
                let mut i = 0;
                while i < 16 {
                    vassert!(BM[k][i] == stream(16 * k + i), "input: k-th block is the k-th 16-byte chunk of staged||data");
                    i += 1;
                }
            }
            k += 1;
        }
    }
    #[cfg(not(kani))]
    {
        // native twin: the accumulator equals the one obtained by absorbing the chunks of staged||data directly
        let mut q = mk(r, h, pad, 0, [0u8; 16], false);
        for k in 0..nblk {
            let mut b = [0u8; 16];
            for i in 0..16 {
                b[i] = stream(16 * k + i);
            }
            q.block(&b);
        }
        assert!(eq5(&q.h, &p.h), "input: k-th block is the k-th 16-byte chunk of staged||data");
    }
    vassert!(p.leftover == rem, "input: bytes staged = (staged + len) mod 16");
    let mut i = 0;
    while i < 16 {
        if i < rem {
            vassert!(p.buffer[i] == stream(16 * nblk + i), "input: staged bytes are the unprocessed tail of staged||data");
        }
        i += 1;
    }
    vassert!(!p.finalized && eq5(&p.r, &r) && eq4(&p.pad, &pad), "input: key material and phase untouched");
}
#[cfg_attr(kani, kani::proof)]
#[cfg_attr(kani, kani::unwind(18))]
#[cfg_attr(kani, kani::stub(Poly1305::block, block_rec))]
pub(crate) fn c05_input_step() {
    case_input_step::<48>();
}
#[cfg_attr(kani, kani::proof)]
#[cfg_attr(kani, kani::should_panic)]
#[cfg_attr(kani, kani::unwind(18))]
#[cfg_attr(kani, kani::stub(Poly1305::block, block_rec))]
pub(crate) fn c05_input_after_finalize_panics() {
    let mut p = mk(any(), any(), any(), 0, any(), true);
    let d: [u8; 3] = any();
    p.input(&d);
    vcover!(true, "MUST-NOT: returned normally instead of refusing");
}

// ------------------------------------------------------------------------------------------------ finish: framing of the last partial block
#[cfg_attr(kani, kani::proof)]
#[cfg_attr(kani, kani::unwind(18))]
#[cfg_attr(kani, kani::stub(Poly1305::block, block_rec))]
pub(crate) fn c05_finish_partial_block_framing() {
    let r: [u32; 5] = any();
    let h: [u32; 5] = any();
    let pad: [u32; 4] = any();
    let leftover: usize = any();
    let buffer: [u8; 16] = any();
    assume(leftover < 16);
    assume_r(&r);
    assume_ih(&h);
    vcover!(leftover == 0, "no partial block");
    vcover!(leftover == 15, "15 bytes staged: marker in the last byte");
    vcover!(leftover == 1, "1 byte staged");
    let mut p = mk(r, h, pad, leftover, buffer, false);
    #[cfg(kani)]
    unsafe {
        p.finish();
        if leftover == 0 {
            vassert!(BN == 0, "finish: no block() call when nothing is staged");
        } else {
            vassert!(BN == 1 && BLEN[0] == 16, "finish: exactly one block() call for the staged partial block");
            vassert!(BF[0], "finish: the partial block is absorbed WITHOUT the 2^128 marker (finalized set first)");
            let mut i = 0;
            while i < 16 {
                let e = if i < leftover {
                    buffer[i]
                } else if i == leftover {
                    1
                } else {
                    0
                };
                vassert!(BM[0][i] == e, "finish: partial block = staged bytes || 0x01 || zeros");
                i += 1;
            }
        }
    }
    #[cfg(not(kani))]
    {
        // native twin: same accumulator as absorbing the framed block directly with hibit = 0
        let mut q = mk(r, h, pad, 0, [0u8; 16], true);
        if leftover > 0 {
            let mut b = [0u8; 16];
            for i in 0..16 {
                b[i] = if i < leftover { buffer[i] } else if i == leftover { 1 } else { 0 };
            }
            q.block(&b);
        }
        q.finalized = false;
        q.finish();
        p.finish();
        assert!(p.h[0] == q.h[0] && p.h[1] == q.h[1] && p.h[2] == q.h[2] && p.h[3] == q.h[3], "finish: partial block = staged bytes || 0x01 || zeros");
    }
}

// ------------------------------------------------------------------------------------------------ finish: final reduction and + s
/// specification: low 128 bits of ((sum h_i 2^(26 i)) mod (2^130 - 5)) + s
pub(crate) fn spec_tag(h: &[u32; 5], pad: &[u32; 4]) -> u128 {
    // v = hi * 2^128 + lo
    let s = (h[0] as u128) + ((h[1] as u128) << 26) + ((h[2] as u128) << 52) + ((h[3] as u128) << 78);
    let low4 = ((h[4] & 0xffffff) as u128) << 104;
    let (lo, c1) = s.overflowing_add(low4);
    let hi: u32 = (h[4] >> 24) + (c1 as u32);
    // 2^130 = 5 (mod p): fold the multiples of 2^130
    let k = (hi >> 2) as u128;
    let (wlo, c2) = lo.overflowing_add(5 * k);
    let whi = (hi & 3) + (c2 as u32);
    // now w = whi*2^128 + wlo < 2^130 + small ; p = 3*2^128 + (2^128 - 5)
    let ge_p = whi > 3 || (whi == 3 && wlo >= (0u128.wrapping_sub(5)));
    let red = if ge_p { wlo.wrapping_add(5) } else { wlo };
    let sv = (pad[0] as u128) | ((pad[1] as u128) << 32) | ((pad[2] as u128) << 64) | ((pad[3] as u128) << 96);
    red.wrapping_add(sv)
}
#[cfg_attr(kani, kani::proof)]
#[cfg_attr(kani, kani::unwind(18))]
pub(crate) fn c05_finish_final_reduction() {
    let h: [u32; 5] = any();
    let pad: [u32; 4] = any();
    assume_ih(&h);
    vcover!(h[0] >= 0x3fffffb && h[1] == M26 && h[2] == M26 && h[3] == M26 && h[4] == M26, "accumulator in [p, 2^130)");
    vcover!(h[0] == 0x3fffffa && h[1] == M26 && h[2] == M26 && h[3] == M26 && h[4] == M26, "accumulator = p - 1");
    vcover!(h[1] > M26, "h1 carries");
    vcover!(pad[0] == u32::MAX && pad[1] == u32::MAX && pad[2] == u32::MAX && pad[3] == u32::MAX, "s all ones");
    let mut p = mk(any(), h, pad, 0, any(), false);
    p.finish();
    let tag = spec_tag(&h, &pad);
    let mut i = 0;
    while i < 4 {
        vassert!(p.h[i] as u128 == (tag >> (32 * i)) & 0xffffffff, "finish: tag = ((h mod 2^130-5) + s) mod 2^128");
        i += 1;
    }
}

/// raw_result serialises the four tag words little-endian into the first 16 bytes and leaves the rest alone; result() wraps them
#[cfg_attr(kani, kani::proof)]
#[cfg_attr(kani, kani::unwind(22))]
pub(crate) fn c05_raw_result_layout() {
    let h: [u32; 5] = any();
    // finalized already: raw_result must not re-run finish
    let mut p = mk(any(), h, any(), 0, any(), true);
    let mut out = [0xa5u8; 20];
    p.raw_result(&mut out);
    let mut i = 0;
    while i < 16 {
        vassert!(out[i] == (h[i >> 2] >> (8 * (i & 3))) as u8, "raw_result: 16 little-endian tag bytes");
        i += 1;
    }
    vassert!(out[16] == 0xa5 && out[19] == 0xa5, "raw_result: bytes beyond 16 untouched");
    vassert!(p.output_bytes() == 16, "output_bytes == 16");
}
#[cfg_attr(kani, kani::proof)]
#[cfg_attr(kani, kani::should_panic)]
#[cfg_attr(kani, kani::unwind(22))]
pub(crate) fn c20_poly1305_raw_result_short_output_panics() {
    let mut p = mk(any(), any(), any(), 0, any(), true);
    let mut out = [0u8; 16];
    let n: usize = any();
    assume(n < 16);
    p.raw_result(&mut out[..n]);
    vcover!(true, "MUST-NOT: returned normally instead of refusing");
}

/// native execution of the private block() for mirsym counterexamples (see limbs_native.rs)
#[cfg(not(kani))]
pub(crate) fn native_block(r: [u32; 5], h: [u32; 5], m: [u8; 16], finalized: bool) -> [u32; 5] {
    let mut p = mk(r, h, [0; 4], 0, [0; 16], finalized);
    p.block(&m);
    p.h
}
