"""Run Kani harnesses on the overlay scratch copy, parse results, extract counterexamples, replay natively."""
import os, re, json, subprocess, time, shlex, signal

KANI_ENV = dict(os.environ, CARGO_NET_OFFLINE="true")
for k in ("RUSTFLAGS", "RUSTUP_TOOLCHAIN", "CARGO_TARGET_DIR"):
    KANI_ENV.pop(k, None)


KILLED = []  # (pid, rss_gb, cmdline tail) of solver processes killed by the memory watchdog


def _watchdog(stop, needle, mem_gb):
    """kill cbmc / goto-instrument processes of this run whose resident set exceeds mem_gb (no swap on this box)"""
    while not stop.wait(2.0):
        for pid in os.listdir("/proc"):
            if not pid.isdigit():
                continue
            try:
                cl = open("/proc/%s/cmdline" % pid, "rb").read().decode("utf-8", "replace")
                if needle not in cl:
                    continue
                exe = cl.split("\0")[0]
                if not (exe.endswith("cbmc") or exe.endswith("goto-instrument") or exe.endswith("kissat")):
                    continue
                rss = 0
                for line in open("/proc/%s/status" % pid):
                    if line.startswith("VmRSS:"):
                        rss = int(line.split()[1]) / (1024.0 * 1024.0)
                if rss > mem_gb:
                    os.kill(int(pid), signal.SIGKILL)
                    KILLED.append((int(pid), round(rss, 1), cl.replace("\0", " ")[-200:]))
            except (OSError, ValueError):
                continue


def sh(cmd, cwd, env=None, timeout=None, mem_gb=None, log=None, needle=None):
    """run a command; solver children matching `needle` are killed when their RSS exceeds mem_gb. returns (rc, output)"""
    import threading
    full = "exec " + " ".join(shlex.quote(c) for c in cmd)
    t0 = time.time()
    stop = threading.Event()
    if mem_gb and needle:
        threading.Thread(target=_watchdog, args=(stop, needle, mem_gb), daemon=True).start()
    p = subprocess.Popen(["bash", "-c", full], cwd=cwd, env=env or KANI_ENV, stdout=subprocess.PIPE,
                         stderr=subprocess.STDOUT, start_new_session=True)
    try:
        o, _ = p.communicate(timeout=timeout)
        out, rc = o.decode("utf-8", "replace"), p.returncode
    except subprocess.TimeoutExpired:
        try:
            os.killpg(p.pid, signal.SIGKILL)
        except ProcessLookupError:
            pass
        o, _ = p.communicate()
        out = o.decode("utf-8", "replace") + "\n[runner] TIMEOUT after %ss\n" % timeout
        rc = 124
    stop.set()
    out = re.sub(r"\x1b\[[0-9;]*[A-Za-z]", "", out).replace("\r\n", "\n")
    if log:
        with open(log, "a") as fh:
            fh.write("$ %s\n%s\n[rc=%s, %.1fs]\n" % (full, out, rc, time.time() - t0))
    return rc, out


def _harness_arg(h):
    return h["module"].replace("crate::", "", 1) + "::" + h["name"]


def _base_cmd(tdir, features):
    # --no-assertion-reach-checks: Kani's per-assertion reachability checks make CBMC emit one full JSON trace per reachable
    # assertion (3 GB / 250 s for a harness with a few hundred asserts and 64-byte arrays); vacuity is guarded by explicit vcover! witnesses instead
    cmd = ["cargo", "kani", "--target-dir", tdir, "-Z", "stubbing", "-Z", "unstable-options", "--no-assertion-reach-checks"]
    if features:
        cmd += ["--features", ",".join(features)]
    return cmd


LOOP_RE = re.compile(r"^Loop (\S+):\n\s+file (\S+) line (\d+)(?: column \d+)? function (.*)$", re.M)


def show_loops(base, harnesses, features, tdir, tag):
    """-> list of (loop_id, function_path) over the union of the given harnesses (also builds everything once)"""
    crate = os.path.join(base, "crate")
    cmd = _base_cmd(tdir, features) + ["--output-format", "old", "--exact"]
    for h in harnesses:
        cmd += ["--harness", _harness_arg(h)]
    cmd += ["--cbmc-args", "--show-loops"]
    rc, out = sh(cmd, crate, timeout=1800, log=os.path.join(base, "kani-%s-loops.log" % tag))
    loops = sorted(set((m.group(1), m.group(4).strip()) for m in LOOP_RE.finditer(out)))
    return loops, out


def resolve_unwindset(h, loops):
    """harness annotation [(regex[#k], n)] -> 'loopid:n,...' ; every pattern must match at least one loop"""
    items, missing = [], []
    for (pat, n) in h.get("unwindset", []):
        idx = None
        if "#" in pat:
            pat, idx = pat.rsplit("#", 1)
        hit = False
        for (lid, fn) in loops:
            if re.search(pat, fn) and (idx is None or lid.endswith("." + idx)):
                items.append("%s:%d" % (lid, n))
                hit = True
        if not hit:
            missing.append(pat)
    return ",".join(sorted(set(items))), missing


def _parse_results(outjson, res):
    d = json.load(open(outjson))
    stats = {c["harness_id"]: (c.get("cbmc_stats") or {}) for c in d.get("cbmc", [])}
    errs = {c["harness_id"]: c for c in d.get("error_details", [])}
    for r in d["verification_results"]["results"]:
        name = r["harness_id"].split("::")[-1]
        checks = r.get("checks", [])
        failed = [c for c in checks if c["status"] in ("Failure", "Undetermined", "SolverError")]
        covers = [c for c in checks if c.get("category") == "cover"]
        res[name] = dict(full=r["harness_id"], status=r["status"], duration_s=r.get("duration_ms", 0) / 1000.0,
                         n_checks=len(checks), failed=failed, covers=covers, stats=stats.get(r["harness_id"]) or {},
                         err=errs.get(r["harness_id"], {}))


def run_group(base, harnesses, features, jobs, harness_timeout, mem_gb, tag, unwind_override=None):
    """Kani over a list of harness infos. Harnesses without a per-loop unwindset go through one `cargo kani -j`; harnesses
    annotated with `verif-unwindset` get their own invocation (CBMC --unwindset resolved from --show-loops). returns dict name -> result"""
    from concurrent.futures import ThreadPoolExecutor
    crate = os.path.join(base, "crate")
    tdir = os.path.join(base, "kt" + ("-" + "-".join(features) if features else ""))
    plain = [h for h in harnesses if not (h.get("unwindset") or h.get("cbmc_args"))]
    special = [h for h in harnesses if h.get("unwindset") or h.get("cbmc_args")]
    res = {}
    log = os.path.join(base, "kani-%s.log" % tag)
    loops = []
    if special:
        loops, out = show_loops(base, special, features, tdir, tag)
        if re.search(r"^error(\[E\d+\])?:", out, re.M) and not loops:
            errs = re.findall(r"^error[^\n]*\n(?:[^\n]*\n){0,6}", out, re.M)
            return None, "overlay/harness does not compile against the current tree:\n" + "".join(errs[:5])

    def run_plain():
        if not plain:
            return None
        outjson = os.path.join(base, "kani-%s.json" % tag)
        if os.path.exists(outjson):
            os.remove(outjson)
        pj = max(1, jobs - len(special))
        cmd = _base_cmd(tdir, features) + ["--output-format", "terse", "-j", str(pj), "--harness-timeout", "%ds" % harness_timeout,
                                           "--export-json", outjson, "--exact"]
        for h in plain:
            cmd.append("--harness")
            cmd.append(_harness_arg(h))
        waves = (len(plain) + pj - 1) // pj
        rc, out = sh(cmd, crate, timeout=harness_timeout * waves + 600, mem_gb=mem_gb, log=log, needle=base)
        if re.search(r"^error(\[E\d+\])?:", out, re.M) and not os.path.exists(outjson):
            errs = re.findall(r"^error[^\n]*\n(?:[^\n]*\n){0,6}", out, re.M)
            return "overlay/harness does not compile against the current tree:\n" + "".join(errs[:5])
        if not os.path.exists(outjson):
            return "cargo kani produced no result file (rc=%s); tail:\n%s" % (rc, out[-3000:])
        _parse_results(outjson, res)
        return None

    def run_special(h):
        uws, missing = resolve_unwindset(h, loops)
        if missing:
            res[h["name"]] = dict(full=h["name"], status="Missing", duration_s=0, n_checks=0, failed=[], covers=[], stats={},
                                  err={"note": "unwindset pattern(s) %s match no loop of the current tree" % missing})
            return
        outjson = os.path.join(base, "kani-%s-%s.json" % (tag, h["name"]))
        if os.path.exists(outjson):
            os.remove(outjson)
        cmd = _base_cmd(tdir, features) + ["--output-format", "terse", "--harness-timeout", "%ds" % harness_timeout,
                                           "--export-json", outjson, "--exact", "--harness", _harness_arg(h), "--cbmc-args"]
        if uws:
            cmd += ["--unwindset", uws]
        cmd += h.get("cbmc_args") or []
        rc, out = sh(cmd, crate, timeout=harness_timeout + 600, mem_gb=mem_gb,
                     log=os.path.join(base, "kani-%s-%s.log" % (tag, h["name"])), needle=base)
        if os.path.exists(outjson):
            _parse_results(outjson, res)
            if h["name"] in res:
                if uws:
                    res[h["name"]]["unwindset"] = uws
                res[h["name"]]["cbmc_args"] = h.get("cbmc_args") or []

    with ThreadPoolExecutor(max_workers=max(1, jobs)) as ex:
        futs = []
        if special:
            # build once (show_loops already did); the per-harness invocations only pick their goto binary
            futs += [ex.submit(run_special, h) for h in special]
        fp = ex.submit(run_plain)
        err = fp.result()
        for f in futs:
            f.result()
    if err:
        return None, err
    for h in harnesses:
        if h["name"] not in res:
            res[h["name"]] = dict(full=h["name"], status="Missing", duration_s=0, n_checks=0, failed=[], covers=[],
                                  stats={}, err={"note": "no result (timeout, OOM or crash); see " + log})
    return res, None


PLAY_RE = re.compile(r"/// Test generated for harness `([^`]*)`[^\n]*\n((?:///[^\n]*\n)*)\s*#\[test\]\s*\nfn (\w+)\(\) \{\s*\n\s*let concrete_vals: Vec<Vec<u8>> = vec!\[(.*?)\n\s*\];", re.S)


def playback(base, h, features, mem_gb, timeout, unwindset=None, cbmc_args=None):
    """re-run one failing harness with concrete playback; returns list of (what, bytes)"""
    crate = os.path.join(base, "crate")
    tdir = os.path.join(base, "kt" + ("-" + "-".join(features) if features else ""))
    cmd = ["cargo", "kani", "--target-dir", tdir, "-Z", "stubbing", "-Z", "concrete-playback", "-Z", "unstable-options",
           "--concrete-playback=print", "--no-assertion-reach-checks", "--exact", "--harness",
           h["module"].replace("crate::", "", 1) + "::" + h["name"]]
    if features:
        cmd += ["--features", ",".join(features)]
    if unwindset or cbmc_args:
        cmd += ["--cbmc-args"] + (["--unwindset", unwindset] if unwindset else []) + list(cbmc_args or [])
    rc, out = sh(cmd, crate, timeout=timeout, mem_gb=mem_gb, log=os.path.join(base, "playback-%s.log" % h["name"]), needle=base)
    tests = []
    for m in PLAY_RE.finditer(out):
        what = " ".join(l.strip("/ ").strip() for l in m.group(2).splitlines() if l.strip("/ ").strip())
        vals = []
        for v in re.finditer(r"vec!\[([^\]]*)\]", m.group(4)):
            s = v.group(1).strip()
            if s:
                vals += [int(x) for x in s.split(",") if x.strip()]
        tests.append((what, bytes(vals)))
    return tests, out


_NATIVE_BIN = {}


def native_build(base, features, profile):
    """build the overlay copy's unit-test binary once per (features, profile); returns (path | None, output)"""
    key = (base, ",".join(features), profile)
    if key in _NATIVE_BIN:
        return _NATIVE_BIN[key]
    crate = os.path.join(base, "crate")
    tdir = os.path.join(base, "nt")
    env = dict(KANI_ENV, RUSTFLAGS="--cfg cryptoxide_verif")
    cmd = ["cargo", "test", "--offline", "--target-dir", tdir, "--lib", "--no-run", "--message-format=json"]
    if profile == "release":
        cmd.append("--release")
    if features:
        cmd += ["--features", ",".join(features)]
    rc, out = sh(cmd, crate, env=env, timeout=1200, log=os.path.join(base, "native-build-%s.log" % profile))
    exe = None
    for line in out.splitlines():
        if line.startswith("{") and '"executable"' in line:
            try:
                d = json.loads(line)
            except ValueError:
                continue
            if d.get("executable") and d.get("profile", {}).get("test"):
                exe = d["executable"]
    _NATIVE_BIN[key] = (exe, out)
    return _NATIVE_BIN[key]


def native_replay(base, name, data, features, profile):
    """execute harness `name` natively on the overlay copy (real kernels, no stubs). returns (verdict, msg)
    verdict in: 'panicked', 'returned', 'assume-violated', 'underrun', 'build-failed'"""
    exe, bout = native_build(base, features, profile)
    if not exe:
        return "build-failed", bout[-2000:]
    env = dict(KANI_ENV, VERIF_REPLAY_HARNESS=name, VERIF_REPLAY_BYTES=data.hex(), RUST_BACKTRACE="0")
    rc, out = sh([exe, "verif_glue::verif_replay_entry", "--exact", "--nocapture", "--test-threads", "1"], os.path.join(base, "crate"),
                 env=env, timeout=600, log=os.path.join(base, "replay-%s.log" % name))
    m = re.search(r"VERIF-REPLAY-RESULT: (\w+) underrun=(\w+)(?: msg=(.*))?", out)
    if not m:
        return "build-failed", out[-2000:]
    kind, under, msg = m.group(1), m.group(2) == "true", (m.group(3) or "")
    if "VERIF-ASSUME-VIOLATED" in msg:
        return "assume-violated", msg
    if under:
        return "underrun", msg
    return kind, msg
