// C10 / C20 — PBKDF2 (src/pbkdf2.rs; child module of crate::pbkdf2) over a RECORDING Mac.
//
// `pbkdf2<M: Mac>` touches the PRF only through the Mac trait.  RecMac<OS> (output size OS) appends input() to the current
// message, raw_result() logs (message, fresh arbitrary OS-byte output) and returns it, reset() starts a new message; like
// Hmac it refuses input or a second result after a result without reset, and an output buffer that is not OS bytes long.
// Every PRF output is arbitrary, so the claim holds for every PRF (HMAC-SHA1/256/512 included) with that output size,
// the password being whatever the Mac was keyed with.
//
// Specification (RFC 8018 5.2, written from the RFC): l = ceil(dkLen / hLen), r = dkLen - (l-1) hLen;
//   T_i = U_1 xor ... xor U_c,  U_1 = PRF(P, S || INT(i)),  U_j = PRF(P, U_{j-1}),  INT(i) = 4-octet big-endian i (from 1);
//   DK = T_1 || ... || T_l<0..r-1>.   c is a positive integer.
#![allow(dead_code, unused_imports, missing_docs, static_mut_refs)]
use super::*;
use crate::mac::MacResult;
use crate::verif_lib::*;

pub(crate) const CAP: usize = 12;
pub(crate) const NLOG: usize = 22;
pub(crate) const MAXOS: usize = 4;
pub(crate) static mut NRES: usize = 0;
pub(crate) static mut MSG: [[u8; CAP]; NLOG] = [[0u8; CAP]; NLOG];
pub(crate) static mut MLEN: [usize; NLOG] = [0; NLOG];
pub(crate) static mut OUT: [[u8; MAXOS]; NLOG] = [[0u8; MAXOS]; NLOG];
pub(crate) static mut OVERFLOW: bool = false;

pub(crate) struct RecMac<const OS: usize> {
    pub cur: [u8; CAP],
    pub len: usize,
    pub finished: bool,
}
impl<const OS: usize> RecMac<OS> {
    pub(crate) fn new() -> Self {
        RecMac { cur: [0u8; CAP], len: 0, finished: false }
    }
}
impl<const OS: usize> Mac for RecMac<OS> {
    fn input(&mut self, d: &[u8]) {
        assert!(!self.finished, "RecMac: input after result without reset");
        if d.len() > CAP - self.len {
            unsafe { OVERFLOW = true };
            return;
        }
        let n = d.len();
        let mut i = 0;
        while i < n {
            self.cur[self.len + i] = d[i];
            i += 1;
        }
        self.len += n;
    }
    fn reset(&mut self) {
        self.len = 0;
        self.finished = false;
    }
    fn result(&mut self) -> MacResult {
        let mut o = [0u8; OS];
        self.raw_result(&mut o);
        MacResult::new(&o)
    }
    fn raw_result(&mut self, out: &mut [u8]) {
        assert!(!self.finished, "RecMac: result after result without reset");
        assert!(out.len() == OS, "RecMac: output buffer length differs from the MAC size");
        let o: [u8; OS] = any();
        unsafe {
            if NRES < NLOG {
                MSG[NRES] = self.cur;
                MLEN[NRES] = self.len;
                let mut i = 0;
                while i < OS {
                    OUT[NRES][i] = o[i];
                    i += 1;
                }
            }
            NRES += 1;
        }
        let mut i = 0;
        while i < OS {
            out[i] = o[i];
            i += 1;
        }
        self.finished = true;
    }
    fn output_bytes(&self) -> usize {
        OS
    }
}

/// (c = 1 and 2 take the two special-cased paths of calculate_block, c >= 3 the general loop; quick: c in 1..=4, thorough: c = 7;
/// dkLen 0..=9 = two whole blocks and a partial third)
/// iteration count C (concrete per harness), salt 0..=SMAX bytes, dkLen 0..=DMAX bytes over arbitrary prior buffer contents
fn case_pbkdf2<const C: usize, const SMAX: usize, const DMAX: usize>() {
    const OS: usize = 4;
    let salt = Bytes::<SMAX>::any();
    let prior: [u8; DMAX] = any();
    let dk: usize = any();
    assume(dk <= DMAX);
    vcover!(dk == 0, "dkLen = 0");
    vcover!(dk == 1, "dkLen = 1");
    vcover!(dk == OS, "exactly one block");
    vcover!(dk == OS + 1, "one block and one byte");
    vcover!(dk == 2 * OS || DMAX < 2 * OS, "two whole blocks");
    vcover!(dk == DMAX, "largest dkLen of this harness (partial last block)");
    vcover!(salt.len == 0 && dk > OS, "empty salt, several blocks");
    vcover!(salt.len == SMAX, "longest salt");
    let mut mac = RecMac::<OS>::new();
    let mut out = prior;
    pbkdf2(&mut mac, salt.get(), C as u32, &mut out[..dk]);

    let l = (dk + OS - 1) / OS;
    unsafe {
        vassert!(!OVERFLOW, "harness bound: message fits the recorder");
        vassert!(NRES == l * C, "PBKDF2: exactly c PRF calls per output block");
        let mut i = 1; // block number
        while i <= (DMAX + OS - 1) / OS {
            if i <= l {
                let base = (i - 1) * C;
                // U_1 = PRF(S || INT(i))
                let (m, ml) = (MSG[base], MLEN[base]);
                let mut ok = ml == salt.len + 4;
                let mut k = 0;
                while k < SMAX {
                    if k < salt.len && m[k] != salt.buf[k] {
                        ok = false;
                    }
                    k += 1;
                }
                let be = [(i >> 24) as u8, (i >> 16) as u8, (i >> 8) as u8, i as u8];
                let mut k = 0;
                while k < 4 {
                    if m[salt.len + k] != be[k] {
                        ok = false;
                    }
                    k += 1;
                }
                vassert!(ok, "PBKDF2: U_1 = PRF(salt || INT_32_BE(i))");
                // U_j = PRF(U_(j-1))
                let mut t = OUT[base];
                let mut j = 1;
                while j < C {
                    let (m, ml) = (MSG[base + j], MLEN[base + j]);
                    let prev = OUT[base + j - 1];
                    vassert!(ml == OS && m[0] == prev[0] && m[1] == prev[1] && m[2] == prev[2] && m[3] == prev[3], "PBKDF2: U_j = PRF(U_(j-1))");
                    let u = OUT[base + j];
                    t = [t[0] ^ u[0], t[1] ^ u[1], t[2] ^ u[2], t[3] ^ u[3]];
                    j += 1;
                }
                // DK bytes of this block
                let mut k = 0;
                while k < OS {
                    let pos = (i - 1) * OS + k;
                    if pos < dk {
                        vassert!(out[pos] == t[k], "PBKDF2: DK block i = U_1 xor ... xor U_c (last block truncated)");
                    }
                    k += 1;
                }
            }
            i += 1;
        }
    }
    let mut k = 0;
    while k < DMAX {
        if k >= dk {
            vassert!(out[k] == prior[k], "PBKDF2: bytes beyond the requested length untouched");
        }
        k += 1;
    }
    vassert!(mac.len == 0 && !mac.finished, "PBKDF2: the Mac is left reset (ready for the next derivation with the same key)");
}
#[cfg_attr(kani, kani::proof)]
#[cfg_attr(kani, kani::unwind(14))]
#[doc = "verif-unwindset: pbkdf2::pbkdf2=4"]
pub(crate) fn c10_pbkdf2_c1() {
    case_pbkdf2::<1, 4, 9>();
    vcover!(true, "witness: end of harness reached");
}
#[cfg_attr(kani, kani::proof)]
#[cfg_attr(kani, kani::unwind(14))]
#[doc = "verif-unwindset: pbkdf2::pbkdf2=4"]
pub(crate) fn c10_pbkdf2_c2() {
    case_pbkdf2::<2, 4, 9>();
    vcover!(true, "witness: end of harness reached");
}
#[cfg_attr(kani, kani::proof)]
#[cfg_attr(kani, kani::unwind(14))]
#[doc = "verif-unwindset: pbkdf2::pbkdf2=4"]
pub(crate) fn c10_pbkdf2_c3() {
    case_pbkdf2::<3, 4, 9>();
    vcover!(true, "witness: end of harness reached");
}
#[cfg_attr(kani, kani::proof)]
#[cfg_attr(kani, kani::unwind(14))]
#[doc = "verif-unwindset: pbkdf2::pbkdf2=4"]
pub(crate) fn c10_pbkdf2_c4() {
    case_pbkdf2::<4, 4, 9>();
    vcover!(true, "witness: end of harness reached");
}
#[cfg_attr(kani, kani::proof)]
#[cfg_attr(kani, kani::unwind(14))]
#[doc = "verif-unwindset: pbkdf2::pbkdf2=4"]
pub(crate) fn c10_t_pbkdf2_c7() {
    case_pbkdf2::<7, 4, 9>();
    vcover!(true, "witness: end of harness reached");
}

/// iteration count 0 is refused for every salt and output length
#[cfg_attr(kani, kani::proof)]
#[cfg_attr(kani, kani::should_panic)]
#[cfg_attr(kani, kani::unwind(14))]
#[doc = "verif-unwindset: pbkdf2::pbkdf2=4"]
pub(crate) fn c10_pbkdf2_c0_refused() {
    let salt = Bytes::<4>::any();
    let dk: usize = any();
    assume(dk <= 9);
    let mut mac = RecMac::<4>::new();
    let mut out = [0u8; 9];
    pbkdf2(&mut mac, salt.get(), 0, &mut out[..dk]);
    vcover!(true, "MUST-NOT: PBKDF2 accepted an iteration count of 0");
}
/// same refusal under the C20 prefix (loud refusal of an illegal parameter), including the empty output
#[cfg_attr(kani, kani::proof)]
#[cfg_attr(kani, kani::should_panic)]
#[cfg_attr(kani, kani::unwind(14))]
#[doc = "verif-unwindset: pbkdf2::pbkdf2=2"]
pub(crate) fn c20_mackdf_pbkdf2_c0_panics() {
    let salt = Bytes::<4>::any();
    let mut mac = RecMac::<4>::new();
    let mut out = [0u8; 0];
    pbkdf2(&mut mac, salt.get(), 0, &mut out);
    vcover!(true, "MUST-NOT: PBKDF2 accepted an iteration count of 0 (empty output)");
}
