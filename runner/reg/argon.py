"""Registration of the C11 (Argon2) harness family and the module-independent part of C20 (c20_misc_*).

Picked up by runner/overlay.py (OVERLAYS) and runner/props.py (PROPS / PREFIXES); no shared file is edited.
"""

OVERLAYS = [
    ("src/kdf/argon2.rs", "verif_argon2", "argon2.rs", None, "crate::kdf::argon2"),
    ("src/chacha20.rs", "verif_c20m_chacha", "c20_misc_chacha.rs", None, "crate::chacha20"),
    ("src/salsa20.rs", "verif_c20m_salsa", "c20_misc_salsa.rs", None, "crate::salsa20"),
    ("src/chacha20poly1305.rs", "verif_c20m_aead", "c20_misc_aead.rs", None, "crate::chacha20poly1305"),
    ("src/cryptoutil.rs", "verif_c20m_cu", "c20_misc_cryptoutil.rs", None, "crate::cryptoutil"),
]

PROPS = {}

PROPS["C11"] = dict(
    prefixes=["c11_"],
    level="model_checking",
    bounds="Argon2 is decided piecewise (an end-to-end symbolic run is out of reach). Pieces and their bounds: "
           "(geometry) Params setters, both orders, 3 variants: 1..=63 lanes x memory 0..=2^18 KiB incl. sizes not divisible by 4p and segment lengths > 128 "
           "[thorough: no-overflow/consistency for every lane count 1..=2^24-1 and every u32 memory size]; "
           "(index_alpha) every reachable (pass: any u32, slice, index), all 2^32 values of J1, same/other lane, segment length 2..=4096 [thorough: ..=65536]; "
           "first/last element of the reference window for every segment length 2..=2^30-1; "
           "(fill_block) three arbitrary 1 KiB blocks, both with_xor values, permutation P uninterpreted; "
           "(H') tag length symbolic 4..=64 and 65..=140 [thorough: 65..=300], input slice arbitrary (length 0..=72), BLAKE2b uninterpreted; "
           "1024-byte block initialisation for arbitrary H0 / column / lane; "
           "(H0) every parameter an arbitrary u32, password/salt/key/associated data of independent symbolic lengths 0..=6 each (incl. empty); "
           "(entry points) argon2::<T> for T in {4, 32, 65} against argon2_at with slice length 4..=70, arbitrary parameters and inputs, H0::new/Memory::new/process uninterpreted; "
           "(process) 1 lane x 8 blocks with 1 and 3 passes, 3 lanes x 8 blocks with 2 passes, tag 4..=8 bytes symbolic, arbitrary last-column contents, "
           "hprime_block_init/fill_segment/hprime uninterpreted; "
           "(fill_segment) 2 lanes x 16 blocks (segment length 4): 15 concrete (pass, slice, lane) positions covering pass 0 / 1 / 3 / 2^32-2, all slices, both lanes; "
           "3 lanes x 8 blocks at (2, 3, lane 2); segment length 130 (mid-segment address-block refresh at index 128), single lane, first segment, reference index capped at 130; "
           "all 3 variants x 2 versions x any iteration count symbolic, all block words the addressing reads arbitrary, fill_block/next_addresses/index_alpha uninterpreted; "
           "(next_addresses) arbitrary input/address blocks, fill_block uninterpreted",
    outside="the composition of the pieces into one tag (argued in the level note, not solver-decided end to end); "
            "the permutation P / GB against RFC 9106 3.6 (multiplier miter beyond SAT, planned for the term-level engine in DESIGN.md); "
            "index_alpha's J1 -> z formula for segment lengths above 65536 (only the window ends are decided at full width); "
            "the floor(m/4p) identity for more than 63 lanes or more than 2^18 KiB; "
            "fill_segment with segment length > 128 in passes > 0 and with more than one lane; lane counts other than 1, 2, 3 in the skeletons; "
            "password/salt/key/aad longer than 6 bytes in H0 (the code passes slices through unchanged); tag lengths above 300; "
            "BLAKE2b itself (C01); parameter ranges the crate documents as unchecked (salt < 8 bytes, tag < 4 bytes, memory < 8p silently raised)",
    assumptions=[
        "stub: argon2::p -> fresh outputs, inputs logged, in c11_fill_block (the contract 'p == P of RFC 9106 3.6' is NOT decided: the miter of 2 x 32 chained "
        "32x32 multipliers did not finish in CaDiCaL (10 min) nor kissat (40 min); p is executed for real only in native replays and the native oracle tests)",
        "stub: blake2b Context::{new, update_mut, finalize_at}, ContextDyn::{new, update_mut, finalize_at} -> recorder returning fresh digest bytes per hash "
        "(holds for every hash function; that the crate's BLAKE2b is RFC 7693 is C01)",
        "stub: H0::new / Memory::new / process (entry-point harnesses); hprime_block_init / fill_segment / hprime (process harnesses); "
        "fill_block / next_addresses / index_alpha (segment harnesses) -> recorders; every one of these functions has its own harness on the real code",
        "recorded index_alpha returns an arbitrary index below the lane length (decided: 'reference index inside the lane')",
        "H0::new, Memory::new, process are functions of their arguments (no hidden state): used to conclude argon2::<T> == argon2_at from equal recorded calls",
        "segment/process harnesses place the blocks in a typed local array instead of Memory::new's Vec (same Memory struct, same code under test)",
    ],
    trusted=["harness/incrate/argon2.rs: spec_ref_index, spec_gb/spec_p/spec_g, H' / H0 / segment / process expectations transcribed from RFC 9106 3.2-3.6"],
    explanation="every building block of src/kdf/argon2.rs is compared with a transcription of RFC 9106 on symbolic inputs; callees are replaced by recording, "
                "value-agnostic models so that the call structure (who is hashed/compressed with whom, in which order, with which flags) is what gets decided",
    level_text="Decided by CBMC over all values of the symbolic inputs within the bounds: memory geometry m' = 4p*floor(m/4p); reference-window size and the "
               "J1 -> z mapping of RFC 9106 3.4.2 (full 32-bit J1); G = P on 8 rows, P on 8 columns, xor R, xor-into-existing for v0x13 after pass 0; "
               "H' call pattern for symbolic tag length on both sides of 64 (single hash / 32-byte strides / final partial) and for the 1024-byte block initialisation; "
               "the 14-field H0 byte stream; both entry points making identical calls; process: first two columns, pass/slice/lane order, final xor of the last column; "
               "fill_segment: data-independent vs data-dependent choice per variant/pass/slice, address-block input (r, l, sl, m', t, y, counter) and refresh every 128 "
               "indices, previous/reference/current block selection, with_xor. A counterexample is replayed natively against full RFC transcriptions before it is reported.",
    level_note="PIECEWISE claim: each piece holds for all inputs in its bounds with its callees uninterpreted, and every callee's contract is itself a harness on the real code; "
               "the end-to-end equality tag == Argon2(RFC 9106) follows by composition (not re-decided by the solver) and only within the intersection of the bounds "
               "(lanes 1..3 and segment lengths 2/4/130 in the skeletons). Stubs as listed in assumptions. Trusted: Kani MIR->goto, CBMC, CaDiCaL, the RFC transcription in argon2.rs.",
)

PROPS["C20"] = dict(
    prefixes=["c20_"],
    level="model_checking",
    bounds="(c20_misc_* family) ChaCha / ChaChaOriginal / Salsa `new`: key length symbolic 0..=40 (every value except 16, 32 refused), const ROUNDS in {7, 10, 21} refused and "
           "{8, 12, 20} accepted for both legal key lengths; XChaCha / XSalsa `new`: ROUNDS as before; ChaChaPoly1305::encrypt/decrypt from an arbitrary object state: "
           "input and output lengths 0..=4, tag slice length 0..=20, `finished` flag symbolic; reuse after encrypt / after decrypt; ContextEncryption::encrypt / "
           "ContextDecryption::decrypt length mismatch 0..=4; ChaChaPoly1305::new key length 0..=40, ROUNDS {7, 10, 21} refused, {8} accepted (thorough: 12, 20), aad 0..=3 bytes; "
           "argon2 Params setters: all u32 values; cryptoutil read_/write_ u32v/u64v le/be: 0/1..=4 words on sub-slices at offset 0..=1, every length mismatch with "
           "0..=4 words / 0..=34 bytes; single-word helpers: every slice length 0..=12; zero: every start/length inside a 24-byte buffer; xor_array64_mut N = 5, 0",
    outside="harnesses of other families (hash/mac/kdf modules) contribute their own c20_* entries; key or data slices longer than the stated bounds; "
            "Argon2 ranges the crate documents as unchecked; BLAKE2 counter overflow (c20_blake2_* of another family)",
    assumptions=[
        "stub: core::arch::x86_64::_mm_add_epi32 -> lane-wise wrapping add (Kani 0.68 inserts a spurious overflow assertion into simd_add) in harnesses that run the real ChaCha rounds",
        "stub: ContextEncryption::{encrypt, finalize} / ContextDecryption::{decrypt, finalize} -> recorders in the ChaChaPoly1305::encrypt/decrypt step harnesses "
        "(Poly1305 multiplications are outside SAT's reach and irrelevant to the refusal logic); ChaCha::process / Context::add_encrypted -> no-ops in the two "
        "incremental length-mismatch harnesses (everything after the refused assertion)",
        "a refusal harness passes only if a panic is reachable AND no path returns normally (cover 'MUST-NOT: ...' after the refused call must be unsatisfiable)",
    ],
    trusted=[],
    explanation="one harness per entry point and illegal argument shape with the shape symbolic; legal shapes are run with all of Kani's automatic checks "
                "(overflow, bounds, pointer validity inside the unsafe helpers, unreachable_unchecked)",
    level_text="Every listed invalid argument shape is refused by a panic on every path (never a truncated key, a short copy or an out-of-bounds access), every listed valid "
               "shape returns normally with no arithmetic overflow, so dev and release builds behave alike; the unsafe pointer loops of cryptoutil stay inside their "
               "slices and implement the endianness contract; Argon2 setters return exactly the documented Err variants.",
    level_note="Bounds as listed; refusal = deterministic panic (assert!/assert_eq!/unwrap) reached before any output byte is written. cryptoutil::read_*v_* on EMPTY slices "
               "(not reachable through the public API) is a separate harness, see known findings / notes.",
)

PREFIXES = {}
