"""Glue between ./check and the mirsym engine (MIR -> polynomial Int domain -> z3)."""
import os, json, subprocess, time, re

VERIF = os.path.dirname(os.path.dirname(os.path.abspath(__file__)))
ENV = dict(os.environ, CARGO_NET_OFFLINE="true")
for k in ("RUSTFLAGS", "RUSTUP_TOOLCHAIN", "CARGO_TARGET_DIR"):
    ENV.pop(k, None)


def dump_mir(base, features):
    """MIR of the scratch copy with overflow checks ON (so every checked operation shows up as an assert terminator)"""
    tag = "-".join(features) if features else "default"
    out = os.path.join(base, "mir-%s.txt" % tag)
    if os.path.exists(out) and os.path.getsize(out) > 1000:
        return out, ""
    crate = os.path.join(base, "crate")
    cmd = ["cargo", "+nightly", "rustc", "--offline", "--lib", "--target-dir", os.path.join(base, "mt-" + tag)]
    if features:
        cmd += ["--features", ",".join(features)]
    cmd += ["--", "-Zunpretty=mir", "-C", "debug-assertions=off", "-C", "overflow-checks=on"]
    with open(out, "w") as fh:
        p = subprocess.run(cmd, cwd=crate, env=ENV, stdout=fh, stderr=subprocess.PIPE, timeout=900)
    err = p.stderr.decode("utf-8", "replace")
    if p.returncode != 0 or os.path.getsize(out) < 1000:
        return None, err[-3000:]
    return out, ""


def make_extra(prop, cfgs=("fe64",)):
    """returns fn(base, tier, seed, known) for PROPS[prop]['extra']"""
    def extra(base, tier, seed, known):
        res = dict(obligations=0, discharged=0, evaluations=0, distinct_nontrivial=0, solver_s=0.0, samples=[], assumptions=[],
                   violations=[], inconclusive=[], known=[])
        for cfg in cfgs:
            feats = ["force-32bits"] if cfg == "fe32" else []
            mir, err = dump_mir(base, feats)
            if mir is None:
                res["inconclusive"].append("mirsym[%s]: MIR dump failed (crate does not compile with features %s?): %s" % (cfg, feats, err[-600:]))
                continue
            outj = os.path.join(base, "mirsym-%s-%s.json" % (prop, cfg))
            tmo = 30000 if tier == "quick" else 300000
            cmd = ["python3-vt", os.path.join(VERIF, "mirsym", "run.py"), "--mir", mir, "--cfg", cfg, "--prop", prop, "--json", outj, "--timeout-ms", str(tmo), "--tier", tier, "--native-base", base]
            if os.environ.get("VERIF_ONLY"):
                cmd += ["--only", os.environ["VERIF_ONLY"]]
            t0 = time.time()
            p = subprocess.run(cmd, cwd=VERIF, stdout=subprocess.PIPE, stderr=subprocess.STDOUT, timeout=7200)
            log = p.stdout.decode("utf-8", "replace")
            open(os.path.join(base, "mirsym-%s-%s.log" % (prop, cfg)), "w").write(log)
            if not os.path.exists(outj):
                res["inconclusive"].append("mirsym[%s] crashed: %s" % (cfg, log[-800:]))
                continue
            d = json.load(open(outj))
            for r in d["results"]:
                name = "mirsym:%s[%s]" % (r["spec"], cfg)
                n, npv = r.get("n_obligations", 0) or 0, r.get("n_proved", 0) or 0
                res["evaluations"] += 1
                res["obligations"] += max(n, 1)
                res["discharged"] += npv
                res["solver_s"] += r.get("solver_s", 0) or 0
                sample = dict(harness=name, engine="mirsym (MIR -> polynomial Int domain -> z3 %s)" % d.get("z3", ""), desc=r.get("desc"), status=r["status"],
                              obligations=n, proved=npv, atoms=r.get("atoms"), quotient_atoms=r.get("quot_atoms"), abstracted_monomials=r.get("monomials"),
                              solver_s=r.get("solver_s"), wall_s=r.get("wall_s"), second_solver=r.get("second_solver"), functions_encoded=r.get("functions"), mir_blocks_executed=r.get("blocks"))
                if r["status"] == "holds":
                    res["distinct_nontrivial"] += 1
                    sample["verdict"] = "holds"
                elif r["status"] == "violated":
                    bad = [o for o in r.get("obligations", []) if o["verdict"] == "counterexample" and o.get("confirmed")]
                    descs = [o["what"] for o in bad] or [r.get("reason", "panic")]
                    unknown = [x for x in descs if not _known(known, prop, name, x)]
                    for x in descs:
                        k = _known(known, prop, name, x)
                        if k:
                            res["known"].append((name, x, k["text"]))
                    sample["failed_checks"] = descs
                    if unknown:
                        out = os.environ.get("VERIF_OUT", VERIF)
                        rp = os.path.join(out, "replays", "%s-%s.json" % (prop, re.sub(r"[^\w]+", "_", name)))
                        os.makedirs(os.path.dirname(rp), exist_ok=True)
                        json.dump(dict(property=prop, engine="mirsym", spec=r["spec"], cfg=cfg, failed_checks=unknown,
                                       counterexamples=[dict(check=o["what"], inputs=o.get("model"), confirmed=o.get("confirmed"), found_by=o.get("found_by", "z3 model")) for o in bad],
                                       reason=r.get("reason"),
                                       how="python3-vt mirsym/run.py --mir <MIR dump of the tree> --only '^%s$' --replay %s" % (r["spec"], rp)), open(rp, "w"), indent=1)
                        res["violations"].append((name, unknown, rp))
                        sample["verdict"] = "VIOLATION"
                    else:
                        sample["verdict"] = "known-finding"
                elif r["status"] == "not-encodable":
                    res["inconclusive"].append("%s: not encodable on the current tree: %s" % (name, r.get("reason", "")[:300]))
                    sample["verdict"] = "not-encodable"
                else:
                    why = [o["what"] + " -> " + o["verdict"] for o in r.get("obligations", []) if o["verdict"] != "proved"]
                    res["inconclusive"].append("%s: %s %s" % (name, r["status"], (why or [r.get("reason", "")])[:3]))
                    sample["verdict"] = "inconclusive"
                res["samples"].append(sample)
        res["assumptions"].append("mirsym: monomial abstraction (products of symbolic atoms are opaque integers bounded by interval products and McCormick envelopes): "
                                  "sound for 'holds'; counterexamples are re-executed concretely on the MIR interpreter before they count")
        return res
    return extra


def _known(known, prop, harness, desc):
    for k in known:
        if k["kind"] == "finding" and k["property"] == prop and k["harness"] == harness and k["check"] == desc:
            return k
    return None


def make_compile_check(prop, features):
    """obligation 0 of C17: the crate builds in the given configuration (cargo check on the scratch copy, lints as in the repository)"""
    def extra(base, tier, seed, known):
        res = dict(obligations=1, discharged=0, evaluations=1, distinct_nontrivial=0, solver_s=0.0, samples=[], assumptions=[], violations=[], inconclusive=[], known=[])
        crate = os.path.join(base, "crate")
        cmd = ["cargo", "check", "--offline", "--lib", "--target-dir", os.path.join(base, "ct-" + "-".join(features)), "--features", ",".join(features)]
        t0 = time.time()
        p = subprocess.run(cmd, cwd=crate, env=ENV, stdout=subprocess.PIPE, stderr=subprocess.STDOUT, timeout=1200)
        out = p.stdout.decode("utf-8", "replace")
        name = "build:--features=" + ",".join(features)
        desc = "crate compiles with --features " + ",".join(features)
        sample = dict(harness=name, engine="cargo check", status="ok" if p.returncode == 0 else "failed", wall_s=round(time.time() - t0, 1))
        if p.returncode == 0:
            res["discharged"] = 1
            res["distinct_nontrivial"] = 1
            sample["verdict"] = "holds"
        else:
            errs = re.findall(r"^error[^\n]*\n\s*-->[^\n]*", out, re.M)
            k = _known(known, prop, name, desc)
            if k:
                res["known"].append((name, desc, k["text"]))
                sample["verdict"] = "known-finding"
            else:
                o = os.environ.get("VERIF_OUT", VERIF)
                rp = os.path.join(o, "replays", "%s-build-%s.json" % (prop, "-".join(features)))
                os.makedirs(os.path.dirname(rp), exist_ok=True)
                json.dump(dict(property=prop, failed_checks=[desc], command="cd /repo && " + " ".join(cmd[:4] + cmd[6:]), errors=errs[:40], n_errors=len(errs)), open(rp, "w"), indent=1)
                res["violations"].append((name, [desc], rp))
                sample["verdict"] = "VIOLATION"
                sample["errors"] = errs[:5]
        res["samples"].append(sample)
        return res
    return extra
