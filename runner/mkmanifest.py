#!/usr/bin/env python3
"""Regenerate /verif/MANIFEST.json from runner/props.py (claimed checks) + NOT_APPLICABLE below."""
import os, sys, json
sys.path.insert(0, os.path.dirname(os.path.abspath(__file__)))
from props import PROPS, NOT_APPLICABLE, ENGINES

VERIF = os.path.dirname(os.path.dirname(os.path.abspath(__file__)))
ids = [json.loads(l)["id"] for l in open(os.path.join(VERIF, "properties.jsonl"))]

checks = []
for pid in ids:
    if pid not in PROPS:
        continue
    c = PROPS[pid]
    checks.append(dict(
        property_id=pid,
        quick_cmd="./check %s --tier quick" % pid,
        thorough_cmd="./check %s --tier thorough" % pid,
        evidence_file="evidence/%s.json" % pid,
        replay_cmd_template="./check %s --replay {path}" % pid,
        engine=c.get("engine", "kani-overlay"),
        level_claimed=dict(category=c.get("level", "model_checking"), text=c["level_text"], design_ref=c.get("design_ref", "DESIGN.md section 4/" + pid)),
        level_note=c["level_note"],
        technique=c.get("technique", "bounded model checking of the real code (Kani 0.68 / CBMC 6.11 + CaDiCaL): symbolic inputs, solver verdict, native replay of counterexamples"
                        + ("; plus symbolic execution of the crate's rustc MIR into SMT (mirsym: polynomial integer / GF(2^255-19) ring / bit-vector domains, decided by z3, "
                           "a sample re-decided by cvc5 in the thorough tier), counterexamples replayed on the native build" if c.get("extra") else "")),
    ))
na = [dict(property_id=p, reason=r) for p, r in NOT_APPLICABLE.items() if p not in PROPS]
missing = [p for p in ids if p not in PROPS and p not in NOT_APPLICABLE]
if missing:
    raise SystemExit("properties neither claimed nor not_applicable: %s" % missing)
m = dict(
    version=1,
    setup_cmd="./setup.sh",
    hooks=dict(
        guard="cfg(kani) / cfg(cryptoxide_verif)",
        enable="no source hooks are committed to /repo: every check copies /repo's working tree to a scratch directory and appends "
               "`#[cfg(any(kani, all(cryptoxide_verif, test)))] #[path=\"/verif/harness/incrate/<m>.rs\"] mod verif_<m>;` lines to the modules whose "
               "private items the harnesses need (runner/overlay.py, runner/reg/*.py); the same mechanism mounts source files the default build does not compile "
               "(chacha/reference.rs as `reference_verif`, sha2/impl256/sse41.rs and avx.rs) so that they can be checked next to the default paths; "
               "Kani sets cfg(kani), native replay builds with RUSTFLAGS=--cfg cryptoxide_verif; mirsym reads the MIR of the unmodified scratch copy",
        baseline_off_cmd="cd /repo && cargo test --workspace --no-fail-fast --offline",
        source_commits=[],
        add_only=True),
    engines=ENGINES,
    checks=checks,
    not_applicable=na,
    notes="Solver-based checking only. Exit codes of ./check: 0 held / known findings only; 1 VIOLATION (replayed natively); 2 inconclusive "
          "(timeout, OOM, harness no longer compiles, counterexample that does not reproduce). fix: commits in /repo are listed in known_findings.txt.",
)
json.dump(m, open(os.path.join(VERIF, "MANIFEST.json"), "w"), indent=1)
print("MANIFEST.json: %d checks, %d not_applicable" % (len(checks), len(na)))
