"""Harness family "mackdf": HMAC (C08), MAC / legacy digest object life cycle (C09), HKDF / PBKDF2 / scrypt (C10),
refusal and no-panic harnesses of these modules for C20 (prefix c20_mackdf_).

Files (all under harness/incrate/): mackdf_hmac.rs, mackdf_hkdf.rs, mackdf_pbkdf2.rs, mackdf_scrypt.rs, mackdf_poly1305.rs,
mackdf_common.rs + generated mackdf_{sha1,sha2,sha3,ripemd160}.rs (tools/mackdf_gen_wrappers.py),
generated mackdf_blake2{b,s}.rs + mackdf_b2{b,s}_ctx.rs (tools/mackdf_gen_blake2.py).  Notes: NOTES-mackdf.md."""
import os

OVERLAYS = [
    ("src/hmac.rs", "verif_mk_hmac", "mackdf_hmac.rs", None, "crate::hmac"),
    ("src/hkdf.rs", "verif_mk_hkdf", "mackdf_hkdf.rs", None, "crate::hkdf"),
    ("src/pbkdf2.rs", "verif_mk_pbkdf2", "mackdf_pbkdf2.rs", None, "crate::pbkdf2"),
    ("src/scrypt.rs", "verif_mk_scrypt", "mackdf_scrypt.rs", None, "crate::scrypt"),
    ("src/poly1305.rs", "verif_mk_poly", "mackdf_poly1305.rs", None, "crate::poly1305"),
    ("src/hashing/blake2b.rs", "verif_mk_b2bctx", "mackdf_b2b_ctx.rs", None, "crate::hashing::blake2b"),
    ("src/hashing/blake2s.rs", "verif_mk_b2sctx", "mackdf_b2s_ctx.rs", None, "crate::hashing::blake2s"),
    ("src/blake2b.rs", "verif_mk_blake2b", "mackdf_blake2b.rs", None, "crate::blake2b"),
    ("src/blake2s.rs", "verif_mk_blake2s", "mackdf_blake2s.rs", None, "crate::blake2s"),
    ("src/digest.rs", "verif_mk_common", "mackdf_common.rs", None, "crate::digest"),
    ("src/sha1.rs", "verif_mk_sha1", "mackdf_sha1.rs", None, "crate::sha1"),
    ("src/sha2.rs", "verif_mk_sha2", "mackdf_sha2.rs", None, "crate::sha2"),
    ("src/sha3.rs", "verif_mk_sha3", "mackdf_sha3.rs", None, "crate::sha3"),
    ("src/ripemd160.rs", "verif_mk_ripemd160", "mackdf_ripemd160.rs", None, "crate::ripemd160"),
]

PROPS = {}

PROPS["C08"] = dict(
    prefixes=["c08_"],
    level="model_checking",
    bounds="Hmac<D> instantiated with a recording digest RecDigest<BS,OS> whose every output is an arbitrary value: (BS,OS) = (8,4) with key length "
           "0..=20 (so 0, 1, BS-1, BS, BS+1, > 2*BS) and message 0..=10 bytes split anywhere into two input calls; (BS,OS) = (5,5) with key 0..=12, "
           "message 0..=6; block_size()/output_bits()/output_bytes() of all 16 fixed-size legacy digest wrappers (concrete) and of BLAKE2b/BLAKE2s "
           "for every output length 1..=64 / 1..=32",
    outside="keys/messages longer than the bounds and other (block, output) sizes: Hmac<D> has no dependence on D other than the five Digest trait calls, "
            "whose use is pinned by the ghost log; that the real wrappers implement those trait calls as their hash function (input = absorb, "
            "result = digest of the bytes since reset) is C09's wrapper glue plus C01/C02 (hash cores)",
    assumptions=["instantiation D = RecDigest (harness/incrate/mackdf_hmac.rs): outputs of result() are fresh arbitrary bytes, i.e. H is uninterpreted; "
                 "RecDigest enforces the legacy digest protocol (input/result after result without reset panic, result buffer must be OS bytes) "
                 "exactly as the real wrappers do"],
    trusted=["harness/incrate/mackdf_hmac.rs: RFC 2104 section 2 transcription (spec_kprime, ipad 0x36, opad 0x5c) and the sizes table "
             "(FIPS 180-4, FIPS 202, RIPEMD-160, RFC 7693)"],
    explanation="the generic HMAC code is run on symbolic keys and messages over an uninterpreted hash; the ghost log of hashed messages must be exactly "
                "[H(key) if key > block], H((K' xor ipad) || msg), H((K' xor opad) || inner) and the result the last output",
    level_text="For every key length around the block size (incl. the hashed long-key branch and the exact-block key) and every message/split within "
               "the bound CBMC decides that Hmac hashes exactly the two RFC 2104 messages and returns the outer hash, for EVERY hash function of that "
               "block/output size; output_bytes == digest size; the block and output sizes of all 18 legacy digest types equal the standards' table.",
    level_note="Instantiations Hmac<RecDigest<8,4>> and <5,5>; key <= 20 / message <= 10 bytes. Real digests enter through the sizes table here and "
               "through C09's wrapper glue; hash cores are C01.",
)

PROPS["C09"] = dict(
    prefixes=["c09_"],
    level="model_checking",
    bounds="one operation (or a short fixed history) from an ARBITRARY object state, per object type: "
           "Hmac<RecDigest<8,4>> (any keys, any absorbed prefix <= 12 bytes, finished or not; chunk <= 6 bytes; history new/input/result/reset/input/result "
           "with key <= 10, messages <= 3); Poly1305 (any clamped r, pad, accumulator limbs < 2^27, any buffer, leftover 0..=15, both flag values; "
           "message-length classes 'partial last block' and 'multiple of 16' decided separately); legacy BLAKE2b/BLAKE2s (any chaining value, counter "
           "below 2^64-128 / 2^32-64, any buffer and fill 0..=block, every output length, every key 0..=64/32 bytes, both flag values); the 16 fixed-size "
           "legacy digest wrappers (open or closed object; history reset/input/input/result/reset/input/result with chunks <= 5 bytes, context methods recorded)",
    outside="what the hashing contexts compute (streaming == one-shot, context reset == new) — C01/C02; Poly1305 arithmetic (C05); the 16-byte Poly1305 "
            "buffer after reset is not compared (dead when leftover == 0); histories are covered by composing the one-step lemmas, each of which re-establishes "
            "the stated representation invariant",
    assumptions=["stub: Poly1305::block -> recorder leaving an arbitrary accumulator with limbs < 2^27 (life cycle is independent of the field arithmetic)",
                 "stub: hashing::blake2::EngineB/EngineS::compress -> recorder (arbitrary chaining value; block, counter and last-flag logged)",
                 "stub (wrapper glue only): update_mut / finalize_reset / reset of the hashing contexts -> recorders (which context, which slice; arbitrary digest)",
                 "representation invariants assumed and re-established: Hmac finished => digest closed; Poly1305 leftover < 16; BLAKE2 buflen <= block, 1 <= outlen <= max"],
    trusted=["harness/incrate/mackdf_b2?_ctx.rs spec_fresh: RFC 7693 initial state (IV, parameter word 0x0101kknn, key block)"],
    explanation="life-cycle lemmas from arbitrary states: reset == fresh object (same key), first result closes the object, a closed object refuses "
                "input and further results (or repeats the same bytes), clone is field-wise",
    level_text="For HMAC, Poly1305, the BLAKE2 Mac/Digest objects and all 16 fixed-size legacy digest wrappers CBMC decides from arbitrary states: reset "
               "leaves exactly the state of a freshly constructed object with the same key and parameters; the first result closes the object; a closed "
               "object panics on input and on a further result (Poly1305: returns the same bytes); the wrappers hand every chunk unchanged to their "
               "hashing context and return its digest. Refusals are proven for ALL states (no returning path), not just witnessed.",
    level_note="Two genuine defects are reported by these harnesses on the unmodified tree (see known_findings / NOTES-mackdf.md): Poly1305 after a "
               "message of 16k bytes is not finalized by result (second result differs, input accepted), and Mac::reset / Digest::reset of a KEYED "
               "BLAKE2 object drops the key. Kernels are recorders; sizes per object as listed in bounds.",
)

PROPS["C10"] = dict(
    prefixes=["c10_"],
    level="model_checking",
    bounds="HKDF over RecDigest (uninterpreted hash): extract with salt 0..=12, IKM 0..=6 bytes (BS 8, OS 4); expand with (BS,OS)=(4,2), PRK 0..=6, info 0..=2, "
           "L = 0..=7 and (BS,OS)=(8,4), PRK 0..=10, info 0..=3, L = 0..=13 (= 3*HashLen+1: 0, 1, HashLen-1, HashLen, HashLen+1, ..., partial 4th block), "
           "PRK <= block and PRK > block (hashed) as separate harnesses; length limit with HashLen = 1: L = 255 served, L = 256 refused, and HashLen = 2: "
           "510 served / 511 refused (concrete L, symbolic PRK). PBKDF2 over a recording Mac (OS 4): c in {1,2,3,4} (thorough 7), salt 0..=4, "
           "dkLen 0..=9 (two whole blocks + partial third), arbitrary prior output buffer; c = 0 refused for all salts/lengths. "
           "scrypt: ScryptParams::new for ALL 2^72 (log_n, r, p); Salsa20/8 core == Salsa20 transcription for all 2^512 inputs; xor helper lengths 0..=12 "
           "symbolic and 64/128 fixed; BlockMix r in {1,2,3} with Salsa20/8 recorded, all inputs; ROMix r = 1, N = 2 (thorough N = 4) with BlockMix recorded, "
           "all inputs, symbolic V index; top level r = 1, N = 2, p in {1,2}, password/salt 0..=5 bytes, dkLen 1..=70 with Hmac::new / PBKDF2 / ROMix recorded",
    outside="HKDF/PBKDF2 with the real HMAC-SHA* (composition: C08 + C09 glue + C01); PBKDF2 c > 7 and more than 3 blocks (the loops are uniform in c and "
            "in the block index; the 2^32-block limit needs 2^32 iterations); scrypt N > 4, r > 3 in the structural harnesses, r > 1 in ROMix (uniform loops; "
            "stated, not proven); Integerify for N > 2^32 (the code reads only 32 bits: differs from RFC 7914 for log2 N >= 33, which needs >= 2^40 bytes of "
            "memory — reported as an observation, not decidable by execution); HKDF limit for HashLen > 2",
    assumptions=["HKDF instantiation D = RecDigest / GateDigest (uninterpreted hash, protocol-checking); PBKDF2 instantiation M = RecMac (uninterpreted PRF, protocol-checking)",
                 "stub: scrypt::xor -> plain-loop model, contract decided on the real xor by c10_scrypt_xor_contract (and c10_t_scrypt_xor_64_128)",
                 "stub: scrypt::salsa20_8 -> recorder (BlockMix harnesses); scrypt::scrypt_block_mix -> recorder (ROMix harnesses); "
                 "hmac::Hmac::new, pbkdf2::pbkdf2, scrypt::scrypt_ro_mix -> recorders (top-level harnesses)",
                 "ScryptParams specification = RFC 7914 section 2 plus the stated implementation limit log2 N < 64 and 128*r*N < 2^64 (addressable memory)"],
    trusted=["RFC 5869 / RFC 8018 5.2 / RFC 7914 2-6 transcriptions in harness/incrate/mackdf_{hkdf,pbkdf2,scrypt}.rs", "harness/incrate/salsa.rs Salsa20 transcription (spec_block)"],
    explanation="each KDF layer is run on symbolic inputs with the layer below replaced by an uninterpreted recorder; the ghost log must be exactly the call "
                "sequence the RFC prescribes and the output the prescribed combination of the recorded results",
    level_text="HKDF-Extract == HMAC(salt, IKM); HKDF-Expand == T(i) chaining with one-byte counter, info, truncation of the last block, for every L up to "
               "3 blocks + 1; 255*HashLen served and 255*HashLen+1 refused; PBKDF2 == U_1 = PRF(S || INT_BE(i)), U_j = PRF(U_{j-1}), XOR of exactly c terms, "
               "partial last block, for c in 1..=4, c = 0 refused; ScryptParams::new accepts exactly RFC 7914's parameter set for all 2^72 triples; "
               "BlockMix chaining and even/odd interleave for r <= 3; ROMix V fill, Integerify (LE word 16*(2r-1)), XOR, N iterations for N = 2 — all "
               "decided by CBMC for all inputs within the bounds and for every lower-layer function.",
    level_note="Layered: uninterpreted hash/PRF/Salsa/BlockMix at each level, the real Salsa20/8 core against the transcription at the bottom; "
               "thorough tier adds PBKDF2 c = 7 and ROMix N = 4. Sizes small (HashLen 1..4, dkLen <= 9, N <= 4, r <= 3).",
)

PREFIXES = {"C20": ["c20_mackdf_"]}

# C20 itself is defined by another family; stand-alone runs of this family's refusal harnesses:  MACKDF_LOCAL_C20=1 ./check C20
if os.environ.get("MACKDF_LOCAL_C20"):
    PROPS["C20"] = dict(prefixes=["c20_mackdf_"], level="model_checking",
                        bounds="(stand-alone run of the mackdf refusal / no-panic harnesses only)", outside="everything else of C20",
                        assumptions=[], trusted=[], explanation="refusal and legal-use harnesses of hmac, hkdf, pbkdf2, scrypt, poly1305, blake2, legacy digests",
                        level_text="stand-alone run", level_note="stand-alone run")
