"""BV domain of mirsym: machine words as z3 bit-vector terms kept in a canonical form that this module builds itself.

A value is a B(node, w) with node one of
  ("t", term)                  an opaque z3 term (input variable, extract, concat, product, arithmetic shift, ...)
  ("a", {mono: mask})          algebraic normal form of a word-wise Boolean function: XOR over monomials, a monomial being
                               mask & AND of rotated leaves; mono = frozenset of (leaf id, left-rotation), mask != 0 a constant word.
                               A leaf is an opaque term.  AND / OR / XOR / NOT / rotations / shifts by constants stay inside this
                               form (rotations distribute to the leaves and rotate the masks; x << n = rotl(x, n) & const), so
                               `g ^ (e & (f ^ g))` and `(e & f) ^ (~e & g)`, or `rotl(a ^ b)` and `rotl(a) ^ rotl(b)`, are the
                               SAME node.  An AND operand with more than LEAFIFY monomials is first turned into a leaf of its own
                               (a semantically determined cut point), and so is any result with more than XMAX monomials.
  ("s", {leaf id: coeff}, c)   linear combination mod 2^w of opaque terms plus a constant: additions/subtractions in any
                               order and association are the SAME node.

Materialisation (t()) writes an "a" node as the XOR of its monomials sorted by key and an "s" node as the sum of its terms
sorted by leaf id, so two values with the same canonical form materialise to the same hash-consed z3 ast.  No z3 simplifier
pass is involved (its rewriting order depends on ast ids and made verdicts depend on what had been built before).

Equality of an implementation term and a specification term is stated to z3 in every case; when the canonical forms coincide
the query is trivial, otherwise the solver has to decide it within the timeout.
"""
import z3

LEAFIFY = 12
XMAX = 256

_VARS = []        # input variables created through B.var, in creation order
_LEAF = {}        # leaf id -> z3 term (the reference also keeps the ast id from being recycled)
_MATCACHE = {}


def reset():
    """fresh z3 context and tables: every specification is decided from the same initial state"""
    _LEAF.clear()
    _MATCACHE.clear()
    del _VARS[:]
    z3.z3._main_ctx = None


def _leaf(term):
    i = term.get_id()
    _LEAF[i] = term
    return i


def _rot(v, n, w):
    n %= w
    return ((v << n) | (v >> (w - n))) & ((1 << w) - 1) if n else v


class B:
    __slots__ = ("node", "w", "src", "parts")

    def __init__(self, node, w, src=None, parts=None):
        self.node, self.w, self.src, self.parts = node, w, src, parts

    # ---- constructors
    @staticmethod
    def const(v, w):
        return B(("t", z3.BitVecVal(v % (1 << w), w)), w)

    @staticmethod
    def var(name, w):
        v = z3.BitVec(name, w)
        _VARS.append(v)
        return B(("t", v), w)

    @staticmethod
    def term(t):
        return B(("t", t), t.size())

    def ones(self):
        return (1 << self.w) - 1

    def is_const(self):
        if self.node[0] == "t":
            return z3.is_bv_value(self.node[1])
        if self.node[0] == "a":
            d = self.node[1]
            return not d or (len(d) == 1 and frozenset() in d)
        return not self.node[1]

    def cval(self):
        if self.node[0] == "t":
            return self.node[1].as_long()
        if self.node[0] == "a":
            return self.node[1].get(frozenset(), 0)
        return self.node[2]

    # ---- materialisation
    def t(self):
        k = self.node[0]
        if k == "t":
            return self.node[1]
        w = self.w
        if k == "a":
            d = self.node[1]
            key = ("a", w, tuple(sorted((tuple(sorted(m)), c) for m, c in d.items())))
            r = _MATCACHE.get(key)
            if r is None:
                terms = []
                for m, c in key[2]:
                    t = None
                    for (i, rot) in m:
                        x = _LEAF[i]
                        if rot:
                            x = z3.RotateLeft(x, rot)
                        t = x if t is None else (t & x)
                    if t is None:
                        t = z3.BitVecVal(c, w)
                    elif c != (1 << w) - 1:
                        t = z3.BitVecVal(c, w) & t
                    terms.append(t)
                if not terms:
                    r = z3.BitVecVal(0, w)
                else:
                    r = terms[0]
                    for x in terms[1:]:
                        r = r ^ x
                _MATCACHE[key] = r
            return r
        _, d, c = self.node
        key = ("s", w, tuple(sorted(d.items())), c)
        r = _MATCACHE.get(key)
        if r is None:
            r = None
            for i, co in key[2]:
                x = _LEAF[i]
                if co != 1:
                    x = z3.BitVecVal(co, w) * x
                r = x if r is None else (r + x)
            if r is None:
                r = z3.BitVecVal(c, w)
            elif c:
                r = r + z3.BitVecVal(c, w)
            _MATCACHE[key] = r
        return r

    # ---- views
    def _anf(self):
        if self.node[0] == "a":
            return self.node[1]
        if self.is_const():
            v = self.cval()
            return {frozenset(): v} if v else {}
        return {frozenset(((_leaf(self.t()), 0),)): self.ones()}

    def _sum(self):
        if self.node[0] == "s":
            return self.node[1], self.node[2]
        if self.is_const():
            return {}, self.cval()
        return {_leaf(self.t()): 1}, 0

    def _mk_a(self, d):
        r = B(("a", d), self.w)
        if len(d) > XMAX:
            # a very large function becomes one opaque leaf (bounds the growth over many rounds; the cut point depends on the
            # order in which a long XOR chain is associated, so implementation and specification must associate alike there)
            return B(("t", r.t()), self.w)
        return r

    def _small(self):
        """operand of an AND: a function with many monomials becomes one leaf"""
        d = self._anf()
        if len(d) > LEAFIFY:
            return {frozenset(((_leaf(self.t()), 0),)): self.ones()}
        return d

    # ---- bitwise algebra
    def __xor__(self, o):
        d = dict(self._anf())
        for m, c in o._anf().items():
            v = d.get(m, 0) ^ c
            if v:
                d[m] = v
            else:
                d.pop(m, None)
        return self._mk_a(d)

    def __and__(self, o):
        a, b = self._small(), o._small()
        d = {}
        for m1, c1 in a.items():
            for m2, c2 in b.items():
                c = c1 & c2
                if not c:
                    continue
                m = m1 | m2
                v = d.get(m, 0) ^ c
                if v:
                    d[m] = v
                else:
                    d.pop(m, None)
        return self._mk_a(d)

    def __invert__(self):
        return self ^ B.const(self.ones(), self.w)

    def __or__(self, o):
        return (self ^ o) ^ (self & o)

    def rotl(self, n):
        n %= self.w
        if n == 0:
            return self
        d = {}
        for m, c in self._anf().items():
            d[frozenset((i, (r + n) % self.w) for (i, r) in m)] = _rot(c, n, self.w)
        return self._mk_a(d)

    def rotr(self, n):
        return self.rotl(self.w - (n % self.w))

    def shl(self, n):
        if n == 0:
            return self
        return self.rotl(n) & B.const(self.ones() & ~((1 << n) - 1), self.w)

    def shr(self, n):
        if n == 0:
            return self
        return self.rotr(n) & B.const(self.ones() >> n, self.w)

    def ashr(self, n):
        return B(("t", self.t() >> n), self.w)

    # ---- arithmetic
    def _lin(self, o, sign):
        d, c = self._sum()
        d = dict(d)
        od, oc = o._sum()
        M = 1 << self.w
        for i, co in od.items():
            v = (d.get(i, 0) + sign * co) % M
            if v:
                d[i] = v
            else:
                d.pop(i, None)
        return B(("s", d, (c + sign * oc) % M), self.w)

    def __add__(self, o):
        return self._lin(o, 1)

    def __sub__(self, o):
        return self._lin(o, -1)

    def __mul__(self, o):
        M = 1 << self.w
        for x, y in ((self, o), (o, self)):
            if x.is_const():
                k = x.cval()
                d, c = y._sum()
                return B(("s", {i: (co * k) % M for i, co in d.items() if (co * k) % M}, (c * k) % M), self.w)
        ta, tb = self.t(), o.t()
        if ta.get_id() > tb.get_id():
            ta, tb = tb, ta
        return B(("t", ta * tb), self.w)

    # ---- width changes
    def resize(self, w, signed=False):
        if w == self.w:
            return self
        if self.is_const():
            v = self.cval()
            if signed and w > self.w and v >> (self.w - 1):
                v -= 1 << self.w
            return B.const(v, w)
        if w < self.w:
            return B(("t", z3.Extract(w - 1, 0, self.t())), w)
        return B(("t", (z3.SignExt if signed else z3.ZeroExt)(w - self.w, self.t())), w)

    @staticmethod
    def concat_le(parts):
        """little-endian concatenation: parts[0] is the least significant"""
        s0 = parts[0].src
        if s0 is not None and all(p.src is not None and p.src[0] is s0[0] and p.src[1] == i for i, p in enumerate(parts)) and 8 * len(parts) == s0[0].w:
            return s0[0]                  # the bytes of one word, in order: that word
        if all(p.is_const() for p in parts):
            v, sh = 0, 0
            for p in parts:
                v |= p.cval() << sh
                sh += p.w
            return B.const(v, sh)
        t = parts[0].t()
        for p in parts[1:]:
            t = z3.Concat(p.t(), t)
        return B(("t", t), t.size(), parts=list(parts) if all(p.w == 8 for p in parts) else None)

    def byte(self, i):
        if self.parts is not None:
            return self.parts[i]
        if self.is_const():
            return B.const((self.cval() >> (8 * i)) & 0xff, 8)
        return B(("t", z3.Extract(8 * i + 7, 8 * i, self.t())), 8, src=(self, i))


def prove_equal(a, b, timeout_ms=60000):
    """-> ('unsat', None, how) when a == b for all inputs, ('sat', model, how) / ('unknown', None, how) otherwise"""
    ta, tb = a.t(), b.t()
    s = z3.Solver()
    if ta.eq(tb):
        # canonical forms coincide (one hash-consed ast).  The solver is given the generalisation in which that common term is
        # replaced by a fresh constant: v != v.  (Asserting the 24-round Keccak term itself makes Z3_solver_assert walk the
        # dag as a tree and not return.)
        v = z3.BitVec("common!%d" % ta.get_id(), ta.size())
        s.add(v != v)
        return str(s.check()), None, "canonical"
    # canonical forms differ.  Ground instances first (all inputs fixed to constants: z3 evaluates both terms), since a wrong
    # kernel differs from the standard on almost every input while the fully symbolic disequality of two 64-round hash
    # kernels takes z3 minutes to bit-blast; then the symbolic query, within the timeout.
    import random, os
    rnd = random.Random(int(os.environ.get("VERIF_SEED", "1")))
    for k in range(6):
        asg = [(v, z3.BitVecVal({0: 0, 1: (1 << v.size()) - 1}.get(k, rnd.getrandbits(v.size())), v.size())) for v in _VARS]
        va, vb = z3.simplify(z3.substitute(ta, *asg)), z3.simplify(z3.substitute(tb, *asg))
        if z3.is_bv_value(va) and z3.is_bv_value(vb) and va.as_long() != vb.as_long():
            return "sat", {str(v): c.as_long() for v, c in asg}, "ground instance"
    s.set("timeout", timeout_ms)
    s.add(ta != tb)
    r = s.check()
    model = None
    if r == z3.sat:
        m = s.model()
        model = {str(d): m[d].as_long() for d in m.decls()}
    return str(r), model, "solver"
