"""Curve25519 families: field / scalar / group arithmetic (C15), X25519 (C12), Ed25519 (C13, C14), 32-bit backend (C17)."""
import os, sys
sys.path.insert(0, os.path.dirname(os.path.dirname(os.path.abspath(__file__))))
import mirsym_extra

OVERLAYS = [
    ("src/curve25519/fe/mod.rs", "verif_fe", "fe.rs", None, "crate::curve25519::fe"),
    ("src/curve25519/scalar/mod.rs", "verif_scalar", "scalar.rs", None, "crate::curve25519::scalar"),
    ("src/ed25519.rs", "verif_ed", "ed25519.rs", None, "crate::ed25519"),
    ("src/curve25519/ge.rs", "verif_ge", "ge.rs", None, "crate::curve25519::ge"),
    ("src/curve25519/mod.rs", "verif_x25519", "x25519.rs", None, "crate::curve25519"),
]
# harness modules below a private module are re-exported from the nearest crate-visible ancestor for the native replay dispatcher
EXPORTS = {
    "crate::curve25519::fe::verif_fe": ("src/curve25519/mod.rs", "self::fe::verif_fe", "verif_fe_x", None, "crate::curve25519"),
    "crate::curve25519::ge::verif_ge": ("src/curve25519/mod.rs", "self::ge::verif_ge", "verif_ge_x", None, "crate::curve25519"),
}
_MS = ["mirsym: input limbs range over the stated classes (fe64: every limb <= 2^53-76 'LOOSE'; outputs proven <= 2^51-1+2^16 'TIGHT', which is inside LOOSE, so the "
       "classes are closed under composition)"]
PROPS = {
    "C15": dict(
        prefixes=["c15_", "c14_scalar_canonical"],
        level="model_checking",
        bounds="fe64 limb arithmetic (add, sub, neg, negate_mut, mul, square, square_and_double, mul_small<121666>, to_packed, from_bytes): ALL limb vectors in class LOOSE "
               "(each limb <= 2^53-76), decided by z3 on the polynomial encoding of the MIR; bit-level obligations (decode/encode canonical, ==, sign, zero test, canonical "
               "scalar decoder, scalar bytes/bits/nibbles): all 2^256 (pairs of) byte strings by CBMC",
        outside="GePrecomp::select (CBMC runs out of memory on the 30 KB constant table), scalar64 Barrett "
                "reduction / multiplication mod L (z3 does not finish), point decode-encode round trip as a whole; scalar multiplication is covered by its digit/walk skeletons (C13/C14) "
                "plus the group formulas here, under the table contract",
        assumptions=_MS,
        trusted=["specification formulas in mirsym/specs.py (value = sum limb_i 2^(51 i), congruences mod 2^255-19) and harness/incrate/fe.rs, scalar.rs (multi-word comparisons)"],
        explanation="limb arithmetic by MIR -> polynomial -> z3; bit-level encoders/decoders by CBMC at full width",
        level_text="Every checked arithmetic operation of the fe64 limb functions is proven overflow-free, every output limb proven inside class TIGHT, and the value "
                   "congruence mod 2^255-19 proven, for ALL inputs in class LOOSE (z3 on the MIR-derived encoding). to_packed is proven to return the canonical "
                   "representative (< p) for all LOOSE limbs. Decode/encode, ==, is_negative, is_nonzero and the canonical scalar decoder are decided by CBMC for all byte strings.",
        level_note="Products of two symbolic limbs are abstracted to bounded integers (sound for 'holds'). Group formulas (add/sub with cached and precomputed operands, doubling, "
                   "to_cached), Fe::invert = z^(p-2) and pow25523 = z^((p-5)/8) are decided as polynomial identities over GF(p) on the real MIR with the field calls hooked "
                   "(curve membership used through d x^2 y^2 -> y^2 - x^2 - 1). scalar64::add decided for all reduced operands.",
        extra=[mirsym_extra.make_extra("C15")],
    ),
}

PROPS["C17"] = dict(
    prefixes=["c15_fe_", "c14_scalar_canonical", "c15_scalar_"],
    feature_sets=[["force-32bits"]],
    level="model_checking",
    bounds="obligation 0: the crate builds with --features force-32bits. Then equivalence THROUGH THE COMMON SPECIFICATION: the backend-independent bit-level harnesses of C15/C14 "
           "(decode/encode canonical, ==, sign, zero test, canonical scalar decoder, scalar bytes/bits/nibbles: all byte strings) are decided by CBMC on the 32-bit backend, and the fe32 limb "
           "functions are decided by mirsym against the SAME mathematical specifications as fe64 (all limbs within the ref10 bounds)",
    outside="scalar32 reduce/muladd (ref10 sc_reduce/sc_muladd) unless listed in this run's evidence; group level code is backend-independent source",
    assumptions=["mirsym fe32: input limbs within the ref10 preconditions (|even limb| <= 1.1*2^26, |odd limb| <= 1.1*2^25 for mul/square operands)"],
    trusted=[],
    explanation="both backends are compared with one specification, so their canonical outputs and accept/reject decisions coincide",
    level_text="force-32bits builds; every bit-level obligation of the field and scalar API holds on the 32-bit backend for all inputs (CBMC); fe32 limb arithmetic meets the same "
               "value specifications as fe64 (mirsym/z3). Equal canonical outputs on both backends follow because both equal the specification.",
    level_note="No workload is run through both backends and compared (that would be sampling); equivalence is via the shared specification.",
    extra=[mirsym_extra.make_compile_check("C17", ["force-32bits"]), mirsym_extra.make_extra("C17", cfgs=("fe32",))],
)

_ED_ASSUME = ["stubs (recorders): SHA-512 Context512::update/finalize, Ge::scalarmult_base, Ge::to_bytes, Ge::from_bytes, GePartial::double_scalarmult_vartime, GePartial::to_bytes, "
              "Scalar::reduce_from_wide_bytes, scalar::muladd, curve25519, edwards_to_montgomery_x -> loop-free event loggers returning arbitrary values; "
              "their own semantics are separate obligations (C01/C02, C15, this property's scalar/group harnesses)"]
PROPS["C13"] = dict(
    prefixes=["c13_", "c15_scalar_bytes_bits_nibbles"],
    level="model_checking",
    bounds="all seeds / keypairs / extended secrets (full width); message length symbolic 0..=3 bytes (the message enters only through hash updates identified by address, so its "
           "length does not influence the data flow; SHA-512 block boundaries are C01/C02's step)",
    outside="the primitives are recorded, not executed: SHA-512 (C01/C02), fixed-base scalar multiplication and its tables, reduction and multiply-add mod L (mirsym scalar obligations "
            "when listed in the evidence of this run)",
    assumptions=_ED_ASSUME,
    trusted=[],
    explanation="RFC 8032 5.1.5/5.1.6 as event-sequence assertions over the real keypair/signature/signature_extended/exchange code",
    level_text="clamp_scalar for all inputs; keypair = seed || enc([clamp(H(seed)[0..32])]B); signature and signature_extended: r = H(prefix||M) mod L, R = enc([r]B), "
               "h = H(R||A||M) mod L, S = (h*a + r) mod L, output R||S, with every operand checked byte for byte; exchange = X25519(clamp(H(seed)[0..32]), u(y)). Decided by CBMC for all keys.",
    level_note="Primitives recorded (arbitrary results), so the wiring holds for every behaviour of the primitives. Message length bound 3 bytes (address-identified). "
               "scalar64::add is decided by mirsym for all reduced operands; Barrett reduction / multiplication mod L (scalar64 mul, reduce_from_wide_bytes) did not finish in z3 and are outside the claim.",
    extra=[mirsym_extra.make_extra("C13")],
)
PROPS["C14"] = dict(
    prefixes=["c14_", "c15_scalar_bytes_bits_nibbles"],
    level="model_checking",
    bounds="all public keys, all 64-byte signatures, message length symbolic 0..=3; decode outcome arbitrary; canonical-S decoder for all 2^256 strings",
    outside="the group equation itself ([S]B - [h]A computed correctly by the sliding-window routine, point decompression arithmetic) is recorded here; 'honest signatures verify' "
            "additionally needs C13 + C15",
    assumptions=_ED_ASSUME,
    trusted=[],
    explanation="verify's gate structure and final comparison as event-sequence assertions; the canonical scalar decoder at full width",
    level_text="verify returns true exactly when the key decodes, is not the all-zero string, S < L (decoder decided for every 32-byte string, so S+L, S+2L.. are refused) and ALL 32 bytes "
               "of the re-encoded [h]A'+[S]B equal R, with h = H(R||A||M) mod L; decided by CBMC for all (key, signature) pairs with the group primitives recorded.",
    level_note="Group arithmetic recorded (arbitrary result) in the verdict harness; the group formulas used by the double-scalar walk (add/sub of cached and precomputed "
               "points, doubling) and the (p-5)/8 power chain of decompression are decided separately as ring identities (mirsym ring-level specs in the evidence).",
    extra=[mirsym_extra.make_extra("C14")],
)

PROPS["C12"] = dict(
    prefixes=["c12_", "c15_fe_decode_encode_canonical"],
    level="model_checking",
    bounds="scalar side: all 2^256 scalars and all u strings (field operations recorded); field side: fe64 from_bytes / to_packed / add / sub / mul / square / mul_small<121666> for ALL limbs in "
           "class LOOSE (mirsym), decode-encode canonical for all 2^256 strings (CBMC)",
    outside="'both parties derive the same secret' is a theorem about the RFC function, not about this code; composition of the three factors (schedule x step algebra x field "
            "arithmetic) is the paper argument of DESIGN.md 4/C12",
    assumptions=["stubs (schedule harnesses): Fe::from_bytes/to_bytes/add/sub/mul/square/mul_small/invert/maybe_swap_with -> loop-free recorders; their semantics are C15/C18 obligations"] + _MS,
    trusted=[],
    explanation="X25519 = (clamp + bit schedule + swap logic) x (ladder step algebra) x (field arithmetic): the first and third factors are decided here",
    level_text="For every scalar: clamping, bit order 254..0, swap ^= k_t conditional-swap schedule on both coordinate pairs, exactly 255 steps, final swap and encode(invert(z2)*x2), "
               "for the general and the fixed-base function (u = 9); non-canonical u (bit 255 set, values >= p) handled by from_bytes/to_packed proven for all inputs.",
    level_note="The ladder step of both functions is decided as four polynomial identities against RFC 7748 (a24 = 121665) on the loop-body fragment of the real MIR, and "
               "Fe::invert is decided to compute z^(p-2) by exponent tracking.",
    extra=[mirsym_extra.make_extra("C12")],
)
