"""Ring-level specifications: group formulas, X25519 ladder step, inversion chains (see field.py)."""
import re
from interp import IntV, AggV, RefV, Cell, EnumV, UnitV, BoolV, Unsupported
from field import FPoly, FieldV, ExpV, install_hooks, P, D_CONST

GE = r"^fn ge::<impl at src/curve25519/ge\.rs:[^>]*>::"


def V(n):
    return FPoly.var(n)


def fv(p):
    return FieldV(p)


def ref(v):
    return RefV(Cell(v), ())


def curve_rules(pts):
    """rewrite rules for points (x,y) on -x^2 + y^2 = 1 + d x^2 y^2 and i^2 = -1"""
    rules = [(("i", "i"), FPoly.const(-1))]
    for (x, y) in pts:
        rules.append((("d", x, x, y, y), V(y) * V(y) - V(x) * V(x) - FPoly.const(1)))
    return rules


def ext_point(x, y, z):
    """extended coordinates of the affine point (x, y) with projective factor z: (xz, yz, z, xyz)"""
    X, Y, Z = V(x) * V(z), V(y) * V(z), V(z)
    return AggV([fv(X), fv(Y), fv(Z), fv(V(x) * V(y) * V(z))])


def affine_add(x1, y1, x2, y2):
    """twisted Edwards addition law (a = -1): numerators and denominators"""
    m = V("d") * V(x1) * V(x2) * V(y1) * V(y2)
    xn, xd = V(x1) * V(y2) + V(y1) * V(x2), FPoly.const(1) + m
    yn, yd = V(y1) * V(y2) + V(x1) * V(x2), FPoly.const(1) - m
    return xn, xd, yn, yd


def check_point(R, got, xn, xd, yn, yd, rules, what, full=True):
    X, Y, Z = got.f[0].p, got.f[1].p, got.f[2].p
    R.fzero((X * xd - Z * xn).rewrite(rules), "%s: X/Z equals the x-coordinate of the group law" % what)
    R.fzero((Y * yd - Z * yn).rewrite(rules), "%s: Y/Z equals the y-coordinate of the group law" % what)
    if full:
        T = got.f[3].p
        R.fzero((T * Z - X * Y).rewrite(rules), "%s: extended coordinate invariant T*Z == X*Y" % what)


def ge_addsub(kind, sign):
    """&Ge +/- &GeCached and &Ge +/- &GePrecomp followed by to_full: equals the Edwards addition law applied to P and +/-Q"""
    def spec(I, R):
        install_hooks(I, R.cfg)
        P1 = ext_point("x1", "y1", "z1")
        if kind == "cached":
            # cached form of Q = (x2 z2, y2 z2, z2, x2 y2 z2): (Y+X, Y-X, Z, 2d T)
            Q = AggV([fv((V("y2") + V("x2")) * V("z2")), fv((V("y2") - V("x2")) * V("z2")), fv(V("z2")), fv((V("d") * V("x2") * V("y2") * V("z2")).scale(2))])
            sig = r"\(_1: &Ge, _2: &GeCached\)"
        else:
            # precomputed affine form: (y+x, y-x, 2d x y)
            Q = AggV([fv(V("y2") + V("x2")), fv(V("y2") - V("x2")), fv((V("d") * V("x2") * V("y2")).scale(2))])
            sig = r"\(_1: &Ge, _2: &GePrecomp\)"
        f = I.find_fn_re(GE + ("add" if sign > 0 else "sub") + sig)
        p1p1 = I.run(f, [ref(P1), ref(Q)])
        full = I.run(I.find_fn_re(GE + r"to_full\(_1: &GeP1P1\)"), [ref(p1p1)])
        part = I.run(I.find_fn_re(GE + r"to_partial\(_1: &GeP1P1\)"), [ref(p1p1)])
        # -Q = (-x2, y2)
        xn, xd, yn, yd = affine_add("x1", "y1", "x2", "y2")
        if sign < 0:
            m = V("d") * V("x1") * V("x2") * V("y1") * V("y2")
            xn, xd = V("y1") * V("x2").scale(-1) * FPoly.const(1) + V("x1") * V("y2"), FPoly.const(1) - m
            xn = V("x1") * V("y2") - V("y1") * V("x2")
            yn, yd = V("y1") * V("y2") - V("x1") * V("x2"), FPoly.const(1) + m
        rules = curve_rules([("x1", "y1"), ("x2", "y2")])
        check_point(R, full, xn, xd, yn, yd, rules, "%s %s, to_full" % ("add" if sign > 0 else "sub", kind))
        check_point(R, part, xn, xd, yn, yd, rules, "%s %s, to_partial" % ("add" if sign > 0 else "sub", kind), full=False)
    return spec


def ge_double(which):
    def spec(I, R):
        install_hooks(I, R.cfg)
        P1 = ext_point("x1", "y1", "z1")
        if which == "partial":
            P1 = AggV(P1.f[:3])
            f = I.find_fn_re(GE + r"double_p1p1\(_1: &GePartial\)")
        else:
            f = I.find_fn_re(GE + r"double_p1p1\(_1: &Ge\)")
        p1p1 = I.run(f, [ref(P1)])
        full = I.run(I.find_fn_re(GE + r"to_full\(_1: &GeP1P1\)"), [ref(p1p1)])
        xn, xd, yn, yd = affine_add("x1", "y1", "x1", "y1")
        check_point(R, full, xn, xd, yn, yd, curve_rules([("x1", "y1")]), "double (%s), to_full" % which)
    return spec


def ge_to_cached(I, R):
    install_hooks(I, R.cfg)
    P1 = ext_point("x1", "y1", "z1")
    c = I.run(I.find_fn_re(GE + r"to_cached\(_1: &Ge\)"), [ref(P1)])
    X, Y, Z, T = [v.p for v in P1.f]
    R.fzero(c.f[0].p - (Y + X), "to_cached: y_plus_x = Y + X")
    R.fzero(c.f[1].p - (Y - X), "to_cached: y_minus_x = Y - X")
    R.fzero(c.f[2].p - Z, "to_cached: z = Z")
    R.fzero(c.f[3].p - (V("d") * T).scale(2), "to_cached: t2d = 2 d T")


def ladder_step(base):
    """one iteration of the X25519 ladder body (after the conditional swap) equals RFC 7748's step"""
    def spec(I, R):
        I.generic = {"S0": (121666, "u32")}
        install_hooks(I, R.cfg, symbolic_consts=False)
        name = "curve25519_base" if base else "curve25519"
        f = I.find_fn_re(r"^fn %s\(" % name)
        # loop header = block whose terminator calls Iterator::next ; body entry = its `Some` successor
        header = some_bb = None
        for bb in sorted(f.blocks):
            stmts, term = f.block(bb)
            if term[0] == "call" and term[2].endswith("as Iterator>::next"):
                header, after = bb, term[4]
                st2, t2 = f.block(after)
                assert t2[0] == "switch"
                some_bb = dict(t2[2])[1]
        if header is None:
            raise Unsupported("ladder loop header not found")
        loc = lambda nm, k=0: f.debug[nm][k]
        x1 = fv(FPoly.const(9)) if base else fv(V("x1"))
        frame = {loc("x1"): x1, loc("x2"): fv(V("x2")), loc("z2"): fv(V("z2")), loc("x3"): fv(V("x3")), loc("z3"): fv(V("z3")),
                 loc("swap"): AggV([IntV(0, "u64")]), loc("e"): AggV([IntV(0, "u8") for _ in range(32)])}
        # the Option<usize> returned by next(): Some(7) (any position; the scalar is all-zero so no swap happens)
        st_h, t_h = f.block(header)
        optlocal = t_h[1][1]
        frame[optlocal] = EnumV("Some", [IntV(7, "usize")])
        # constant-time helpers on the (concrete) bit are evaluated by their own MIR; maybe_swap_with with choice 0 is the identity
        I.hooks.append((re.compile(r"Fe::maybe_swap_with$"), lambda a, w, n=None: swap_hook(I, a)))
        choice = lambda b: AggV([IntV(1 if b else 0, "u64")])
        I.hooks.append((re.compile(r"as CtZero>::ct_nonzero$"), lambda a, w, n=None: choice(a[0].p.cval() != 0)))
        I.hooks.append((re.compile(r"as CtZero>::ct_zero$"), lambda a, w, n=None: choice(a[0].p.cval() == 0)))
        I.hooks.append((re.compile(r"^<Choice as (core::ops::)?BitXor>::bitxor$"), lambda a, w, n=None: choice(a[0].f[0].p.cval() ^ a[1].f[0].p.cval())))
        fr = I.run(f, [], start=some_bb, stop=header, frame=frame)
        X2, Z2, X3, Z3 = V("x2"), V("z2"), V("x3"), V("z3")
        X1 = x1.p
        A, B, C, D = X2 + Z2, X2 - Z2, X3 + Z3, X3 - Z3
        AA, BB = A * A, B * B
        E = AA - BB
        DA, CB = D * A, C * B
        want = {"x3": (DA + CB) * (DA + CB), "z3": X1 * ((DA - CB) * (DA - CB)), "x2": AA * BB, "z2": E * (AA + E.scale(121665))}
        for nm in ("x2", "z2", "x3", "z3"):
            got = fr[loc(nm)].v
            R.fzero(got.p - want[nm], "ladder step%s: %s' equals RFC 7748 (a24 = 121665)" % (" (base point)" if base else "", nm))
    return spec


def swap_hook(I, a):
    c = a[2]
    bit = c.f[0].p.cval()
    if bit != 0:
        x, y = a[0], a[1]
        vx, vy = I.read((x.cell, x.path, x.sl)), I.read((y.cell, y.path, y.sl))
        I.write((x.cell, x.path, x.sl), vy)
        I.write((y.cell, y.path, y.sl), vx)
    return UnitV()


def chain(fn_re, exponent, what):
    def spec(I, R):
        install_hooks(I, R.cfg)
        f = I.find_fn_re(fn_re)
        out = I.run(f, [ref(ExpV(1))])
        R.fzero(FPoly.const(out.e - exponent), "%s: the addition chain computes z^(%s)" % (what, what_exp(exponent)))
    return spec


def what_exp(e):
    if e == P - 2:
        return "p-2"
    if e == (P - 5) // 8:
        return "(p-5)/8"
    return str(e)


def decompress_formula(accept_first):
    """GeAffine::from_bytes wiring (RFC 8032 5.1.3): with u = y^2 - 1, v = d y^2 + 1 the candidate root is x = u v^3 w, where w is the
    (p-5)/8 power of u v^7 (the power itself: fe_pow25523_chain); the two tests are v x^2 - u and v x^2 + u, the second candidate is x*sqrt(-1)."""
    def spec(I, R):
        install_hooks(I, R.cfg)
        log = {"pow_arg": None, "nz": []}
        def pow_hook(a, w, n=None):
            x = a[0]
            v = I.read((x.cell, x.path, x.sl))
            log["pow_arg"] = v.p
            return FieldV(V("w"))
        answers = [False] if accept_first else [True, False]
        def nz_hook(a, w, n=None):
            x = a[0]
            log["nz"].append(I.read((x.cell, x.path, x.sl)).p)
            return BoolV(answers[len(log["nz"]) - 1])
        I.hooks.append((re.compile(r"(Fe::|Fe>::)pow25523$"), pow_hook))
        I.hooks.append((re.compile(r"Fe::is_nonzero$"), nz_hook))
        I.hooks.append((re.compile(r"Fe::is_negative$"), lambda a, w, n=None: BoolV(False)))
        I.hooks.append((re.compile(r"Fe::from_bytes$"), lambda a, w, n=None: FieldV(V("y"))))
        f = I.find_fn_re(GE + r"from_bytes\(_1: &\[u8; 32\]\) -> Option<GeAffine>")
        s_bytes = AggV([IntV(0x80, "u8") if j == 31 else IntV(0, "u8") for j in range(32)])    # sign bit set, parity false: no negation
        out = I.run(f, [ref(s_bytes)])
        y = V("y")
        u = y * y - FPoly.const(1)
        v = V("d") * y * y + FPoly.const(1)
        v3 = v * v * v
        v7 = v3 * v3 * v
        rules = [(("i", "i"), FPoly.const(-1))]
        R.fzero(log["pow_arg"] - u * v7, "decompress: the (p-5)/8 power is taken of u*v^7")
        x0 = u * v3 * V("w")
        R.fzero(log["nz"][0] - (v * x0 * x0 - u), "decompress: first test is v*x^2 - u")
        if not accept_first:
            R.fzero(log["nz"][1] - (v * x0 * x0 + u), "decompress: second test is v*x^2 + u")
        assert out.variant == "Some"
        aff = out.f[0]
        want = x0 if accept_first else x0 * V("i")
        R.fzero((aff.f[0].p - want).rewrite(rules), "decompress: x = u v^3 w%s" % ("" if accept_first else " * sqrt(-1)"))
        R.fzero(aff.f[1].p - y, "decompress: y is the decoded y")
    return spec


RINGSPECS = {
    "ge_add_cached": dict(prop=["C15", "C14"], fn=ge_addsub("cached", +1), desc="&Ge + &GeCached == Edwards addition law (extended coordinates)"),
    "ge_sub_cached": dict(prop=["C15", "C14"], fn=ge_addsub("cached", -1), desc="&Ge - &GeCached == P + (-Q)"),
    "ge_add_precomp": dict(prop=["C15", "C13"], fn=ge_addsub("precomp", +1), desc="&Ge + &GePrecomp == Edwards addition law (mixed)"),
    "ge_sub_precomp": dict(prop=["C15", "C14"], fn=ge_addsub("precomp", -1), desc="&Ge - &GePrecomp == P + (-Q)"),
    "ge_double_full": dict(prop=["C15", "C13"], fn=ge_double("full"), desc="Ge::double_p1p1 + to_full == P + P"),
    "ge_double_partial": dict(prop=["C15", "C14"], fn=ge_double("partial"), desc="GePartial::double_p1p1 + to_full == P + P"),
    "ge_to_cached": dict(prop=["C15"], fn=ge_to_cached, desc="Ge::to_cached"),
    "x25519_ladder_step": dict(prop=["C12"], fn=ladder_step(False), desc="one ladder iteration of curve25519() == RFC 7748 step"),
    "x25519_base_ladder_step": dict(prop=["C12"], fn=ladder_step(True), desc="one ladder iteration of curve25519_base() == RFC 7748 step with x1 = 9"),
    "fe_invert_chain": dict(prop=["C12", "C15"], fn=chain(r"^fn fe::<impl at src/curve25519/fe/mod\.rs:[^>]*>::invert\(", P - 2, "invert"), desc="Fe::invert == z^(p-2)"),
    "fe_pow25523_chain": dict(prop=["C14", "C15"], fn=chain(r"^fn fe::<impl at src/curve25519/fe/mod\.rs:[^>]*>::pow25523\(", (P - 5) // 8, "pow25523"), desc="Fe::pow25523 == z^((p-5)/8)"),
}


# ------------------------------------------------------------------------------------------------ precomputed tables (ground obligations)
def _ed_add(P1, P2):
    (x1, y1), (x2, y2) = P1, P2
    m = D_CONST * x1 * x2 * y1 * y2 % P
    x3 = (x1 * y2 + y1 * x2) * pow(1 + m, P - 2, P) % P
    y3 = (y1 * y2 + x1 * x2) * pow(1 - m, P - 2, P) % P
    return (x3, y3)


def _ed_mul(k, Pt):
    R0 = (0, 1)
    while k:
        if k & 1:
            R0 = _ed_add(R0, Pt)
        Pt = _ed_add(Pt, Pt)
        k >>= 1
    return R0


def _basepoint():
    y = 4 * pow(5, P - 2, P) % P
    u, v = (y * y - 1) % P, (D_CONST * y * y + 1) % P
    x = pow(u * pow(v, P - 2, P) % P, (P + 3) // 8, P)
    if (x * x - u * pow(v, P - 2, P)) % P != 0:
        x = x * pow(2, (P - 1) // 4, P) % P
    if x & 1:
        x = P - x
    return (x, y)


def precomp_tables(I, R):
    """every entry of GE_BASE / BI is the multiple of the base point it stands for (RFC 8032 base point, independent big-integer Edwards arithmetic):
         GE_BASE[j][k] = (k+1) * 256^j * B     BI[k] = (2k+1) * B     stored as (y+x, y-x, 2dxy).  Ground (closed) equalities."""
    from field import limbs_value
    from interp import IntV
    from poly import DP
    cfg = R.cfg
    B = _basepoint()
    def chk(entry, pt, what):
        x, y = pt
        want = [(y + x) % P, (y - x) % P, 2 * D_CONST * x * y % P]
        for i, nm in enumerate(("y_plus_x", "y_minus_x", "xy2d")):
            got = limbs_value(AggV([entry.f[i].f[0]]), cfg) % P
            R.equal(DP.const(got), DP.const(want[i]), "%s.%s" % (what, nm))
    ge_base = I.named_const("curve25519::fe::%s::precomp::GE_BASE" % cfg)
    row = B
    for j in range(32):
        pt = row
        for k in range(8):
            chk(ge_base.f[j].f[k], pt, "GE_BASE[%d][%d] == %d*256^%d*B" % (j, k, k + 1, j))
            pt = _ed_add(pt, row)
        for _ in range(8):
            row = _ed_add(row, row)
    bi = I.named_const("curve25519::fe::%s::precomp::BI" % cfg)
    b2 = _ed_add(B, B)
    pt = B
    for k in range(8):
        chk(bi.f[k], pt, "BI[%d] == %d*B" % (k, 2 * k + 1))
        pt = _ed_add(pt, b2)


RINGSPECS["decompress_formula_direct"] = dict(prop=["C14", "C15"], fn=decompress_formula(True), desc="GeAffine::from_bytes candidate root and first test (vxx == u branch)")
RINGSPECS["decompress_formula_sqrtm1"] = dict(prop=["C14", "C15"], fn=decompress_formula(False), desc="GeAffine::from_bytes second test and sqrt(-1) branch")
RINGSPECS["precomp_tables"] = dict(prop=["C15", "C13", "C17"], fn=precomp_tables, desc="all 32x8 + 8 precomputed table entries are the stated multiples of B (ground equalities, independent Edwards arithmetic)")
