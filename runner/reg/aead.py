"""Poly1305 (C05) and ChaCha20-Poly1305 (C06, C07) harness families."""
OVERLAYS = [
    ("src/poly1305.rs", "verif_poly", "poly1305.rs", None, "crate::poly1305"),
]
PROPS = {
    "C05": dict(
        prefixes=["c05_"],
        level="model_checking",
        bounds="new: all 2^256 keys; input: one call from an ARBITRARY context (leftover 0..=15, any buffer/accumulator) with data of symbolic length 0..=48; "
               "finish: all accumulators in the limb invariant I_h (h0,h2,h3,h4 < 2^26, h1 < 2^26+2^7) x all pads, all staged lengths 0..=15",
        outside="block(): the limb multiplication h*r mod 2^130-5 is not decidable by SAT (symbolic x symbolic multipliers); it is the mirsym Int-engine obligation "
                "(listed in the evidence when that engine has run); input() lengths > 48 in ONE call (more blocks of the same loop)",
        assumptions=["stub (input/finish framing harnesses): Poly1305::block -> recorder logging its 16 message bytes and the finalized flag, returning an arbitrary accumulator",
                     "limb invariant I_h assumed for finish (new/reset give 0; block() re-establishes it: mirsym obligation)"],
        trusted=["spec_tag(): 128-bit reference of ((sum h_i 2^26i) mod 2^130-5) + s in harness/incrate/poly1305.rs"],
        explanation="Poly1305 decomposed into clamp/limb split, staging-buffer step, final-block framing and final reduction; each decided by CBMC on the real code",
        level_text="Clamping and limb split for every key; the 16-byte staging buffer as one inductive step from an arbitrary context (so every chunking feeds "
                   "block() the same 16-byte sequence); final partial-block framing (0x01 marker, zero fill, hibit off); final carry / conditional subtraction "
                   "of 2^130-5 / + s mod 2^128 for EVERY accumulator in the limb invariant (all values in [p, 2^130) included) against a 128-bit reference.",
        level_note="block()'s limb multiplication is outside CBMC's reach (mirsym Int obligation). input() step bound: 48 bytes per call.",
    ),
}
