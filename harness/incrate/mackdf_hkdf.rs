// C10 / C20 — HKDF (src/hkdf.rs; child module of crate::hkdf), over the recording digest of crate::hmac::verif_mk_hmac.
//
// Specification (RFC 5869, written from the RFC):
//   2.2  PRK = HMAC-Hash(salt, IKM)                     (salt absent = HashLen zero bytes; same K' as the empty key)
//   2.3  N = ceil(L / HashLen);  T(0) = empty;  T(i) = HMAC-Hash(PRK, T(i-1) | info | i)  (i = one octet, 1..=N);
//        OKM = first L octets of T(1) | ... | T(N);      L <= 255 * HashLen, otherwise the request must be refused.
//   HMAC per RFC 2104 (see mackdf_hmac.rs): the ghost log must contain exactly the hash computations
//        [H(key) if key longer than a block], then per MAC  H((K' ^ ipad) | message), H((K' ^ opad) | inner).
// Every digest output is a fresh arbitrary value, so the claims hold for every hash function with that block/output size.
#![allow(dead_code, unused_imports, missing_docs, static_mut_refs)]
use super::*;
use crate::hmac::verif_mk_hmac::*;
use crate::verif_lib::*;

// ------------------------------------------------------------------------------------------------ extract
fn case_extract<const BS: usize, const OS: usize, const SMAX: usize, const IMAX: usize>() {
    let salt = Bytes::<SMAX>::any();
    let ikm = Bytes::<IMAX>::any();
    vcover!(salt.len == 0, "no salt");
    vcover!(salt.len == BS, "salt exactly one block");
    vcover!(salt.len > BS, "salt longer than a block (hashed first)");
    vcover!(ikm.len == 0, "empty input keying material");
    vcover!(ikm.len == IMAX, "longest input keying material");
    log_reset();
    // the digest handed in may be in ANY state (hkdf_extract resets it first)
    let d = RecDigest::<BS, OS>::arbitrary(CAP);
    let mut prk = [0u8; OS];
    hkdf_extract(d, salt.get(), ikm.get(), &mut prk);
    let b = if salt.len > BS { 1 } else { 0 };
    unsafe {
        vassert!(!OVERFLOW, "harness bound: message fits the recorder");
        vassert!(NRES == b + 2, "HKDF-Extract: one HMAC (plus H(salt) iff the salt is longer than a block)");
        if salt.len > BS {
            let mut ok = MLEN[0] == salt.len;
            let mut i = 0;
            while i < SMAX {
                if i < salt.len && MSG[0][i] != salt.buf[i] {
                    ok = false;
                }
                i += 1;
            }
            vassert!(ok, "HKDF-Extract: HMAC key is the salt (hashed when longer than a block)");
        }
        let kp = spec_kprime::<BS, OS>(salt.get(), &OUT[0]);
        vassert!(logged_is::<BS>(b, &kp, 0x36, &ikm.buf, ikm.len), "HKDF-Extract: inner hash over (salt-key xor ipad) || IKM");
        let inner = OUT[b];
        vassert!(logged_is::<BS>(b + 1, &kp, 0x5c, &inner, OS), "HKDF-Extract: outer hash over (salt-key xor opad) || inner");
        let mut i = 0;
        while i < OS {
            vassert!(prk[i] == OUT[b + 1][i], "HKDF-Extract: PRK = HMAC(salt, IKM)");
            i += 1;
        }
    }
}
#[cfg_attr(kani, kani::proof)]
#[cfg_attr(kani, kani::unwind(26))]
pub(crate) fn c10_hkdf_extract_bs8_os4() {
    case_extract::<8, 4, 12, 6>();
    vcover!(true, "witness: end of harness reached");
}

// ------------------------------------------------------------------------------------------------ expand
/// L = 0..=LMAX (LMAX = 3*OS+1: 0, 1, OS-1, OS, OS+1, ..., a partial 4th block), PRK 0..=PMAX bytes, info 0..=IMAX bytes
fn case_expand<const BS: usize, const OS: usize, const PMAX: usize, const IMAX: usize, const LMAX: usize, const LONG: bool>() {
    let prk = Bytes::<PMAX>::any();
    let info = Bytes::<IMAX>::any();
    let prior: [u8; LMAX] = any();
    let l: usize = any();
    assume(l <= LMAX);
    assume((prk.len > BS) == LONG); // PRK longer than a block (hashed first) / at most a block: decided by two harnesses
    vcover!(l == 0, "L = 0");
    vcover!(l == 1, "L = 1");
    vcover!(l == OS - 1, "L = HashLen - 1");
    vcover!(l == OS, "L = HashLen");
    vcover!(l == OS + 1, "L = HashLen + 1");
    vcover!(l == LMAX, "largest L of this harness (partial last block)");
    vcover!(l == 2 * OS && info.len == IMAX, "two whole blocks, longest info");
    vcover!(prk.len == PMAX || prk.len == BS, "longest PRK of this class");
    vcover!(info.len == 0 && l > OS, "no info, more than one block");
    log_reset();
    let d = RecDigest::<BS, OS>::arbitrary(CAP);
    let mut okm = prior;
    hkdf_expand(d, prk.get(), info.get(), &mut okm[..l]);

    let b = if LONG { 1 } else { 0 };
    let n = (l + OS - 1) / OS;
    unsafe {
        vassert!(!OVERFLOW, "harness bound: message fits the recorder");
        vassert!(NRES == b + 2 * n, "HKDF-Expand: exactly N = ceil(L/HashLen) HMAC computations");
        let kp = spec_kprime::<BS, OS>(prk.get(), &OUT[0]);
        let mut i = 1;
        while i <= (LMAX + OS - 1) / OS {
            if i <= n {
                // message of T(i): T(i-1) | info | i
                let mut tail = [0u8; CAP];
                let mut tl = 0;
                if i > 1 {
                    let prev = OUT[b + 2 * (i - 2) + 1];
                    let mut j = 0;
                    while j < OS {
                        tail[j] = prev[j];
                        j += 1;
                    }
                    tl = OS;
                }
                let mut j = 0;
                while j < IMAX {
                    if j < info.len {
                        tail[tl + j] = info.buf[j];
                    }
                    j += 1;
                }
                tl += info.len;
                tail[tl] = i as u8;
                tl += 1;
                vassert!(logged_is::<BS>(b + 2 * (i - 1), &kp, 0x36, &tail, tl), "HKDF-Expand: T(i) inner hash over (PRK-key xor ipad) || T(i-1) || info || i");
                let inner = OUT[b + 2 * (i - 1)];
                vassert!(logged_is::<BS>(b + 2 * (i - 1) + 1, &kp, 0x5c, &inner, OS), "HKDF-Expand: T(i) outer hash over (PRK-key xor opad) || inner");
            }
            i += 1;
        }
        let mut k = 0;
        while k < LMAX {
            if k < l {
                let blk = k / OS; // 0-based block
                vassert!(okm[k] == OUT[b + 2 * blk + 1][k % OS], "HKDF-Expand: OKM = first L bytes of T(1) || T(2) || ...");
            } else {
                vassert!(okm[k] == prior[k], "HKDF-Expand: bytes beyond the requested length untouched");
            }
            k += 1;
        }
    }
}
#[cfg_attr(kani, kani::proof)]
#[cfg_attr(kani, kani::unwind(26))]
#[doc = "verif-unwindset: hkdf::hkdf_expand=6"]
pub(crate) fn c10_hkdf_expand_bs4_os2_prk_le_block() {
    case_expand::<4, 2, 6, 2, 7, false>();
    vcover!(true, "witness: end of harness reached");
}
#[cfg_attr(kani, kani::proof)]
#[cfg_attr(kani, kani::unwind(26))]
#[doc = "verif-unwindset: hkdf::hkdf_expand=6"]
pub(crate) fn c10_hkdf_expand_bs4_os2_prk_gt_block() {
    case_expand::<4, 2, 6, 2, 7, true>();
    vcover!(true, "witness: end of harness reached");
}
#[cfg_attr(kani, kani::proof)]
#[cfg_attr(kani, kani::unwind(26))]
#[doc = "verif-unwindset: hkdf::hkdf_expand=6"]
pub(crate) fn c10_hkdf_expand_bs8_os4_prk_le_block() {
    case_expand::<8, 4, 10, 3, 13, false>();
    vcover!(true, "witness: end of harness reached");
}
#[cfg_attr(kani, kani::proof)]
#[cfg_attr(kani, kani::unwind(26))]
#[doc = "verif-unwindset: hkdf::hkdf_expand=6"]
pub(crate) fn c10_hkdf_expand_bs8_os4_prk_gt_block() {
    case_expand::<8, 4, 10, 3, 13, true>();
    vcover!(true, "witness: end of harness reached");
}

// ------------------------------------------------------------------------------------------------ length limit
/// protocol-checking digest without a log (the limit harnesses run 255 HMACs): block BS, output OS, outputs arbitrary
#[derive(Clone)]
pub(crate) struct GateDigest<const BS: usize, const OS: usize> {
    computed: bool,
}
impl<const BS: usize, const OS: usize> Digest for GateDigest<BS, OS> {
    fn input(&mut self, _d: &[u8]) {
        assert!(!self.computed, "GateDigest: input after result without reset");
    }
    fn result(&mut self, out: &mut [u8]) {
        assert!(!self.computed, "GateDigest: result after result without reset");
        assert!(out.len() == OS, "GateDigest: output buffer length differs from the digest size");
        let o: [u8; OS] = any();
        let mut i = 0;
        while i < OS {
            out[i] = o[i];
            i += 1;
        }
        self.computed = true;
    }
    fn reset(&mut self) {
        self.computed = false;
    }
    fn output_bits(&self) -> usize {
        OS * 8
    }
    fn block_size(&self) -> usize {
        BS
    }
}
fn case_expand_exact<const OS: usize, const L: usize>() {
    let prk: [u8; 2] = any();
    let mut okm = [0u8; L];
    hkdf_expand(GateDigest::<2, OS> { computed: false }, &prk, &[], &mut okm);
}

/// L = 255 * HashLen is served, L = 255 * HashLen + 1 is refused.  The lengths are CONCRETE here (a symbolic-length
/// slice through 255 loop iterations exhausts CBMC's memory); prk is symbolic.  With HashLen = 1 every L < 255 runs a
/// prefix of the same iterations, every L > 256 starts with the same 256 iterations, so the two harnesses decide the
/// limit for HashLen = 1; the second pair repeats it for HashLen = 2 (510 / 511: the 256th chunk is a partial block).
#[cfg_attr(kani, kani::proof)]
#[cfg_attr(kani, kani::unwind(10))]
#[doc = "verif-unwindset: hkdf::hkdf_expand=258"]
pub(crate) fn c10_hkdf_expand_limit_os1_l255_served() {
    case_expand_exact::<1, 255>();
    vcover!(true, "witness: end of harness reached");
}
#[cfg_attr(kani, kani::proof)]
#[cfg_attr(kani, kani::should_panic)]
#[cfg_attr(kani, kani::unwind(10))]
#[doc = "verif-unwindset: hkdf::hkdf_expand=258"]
pub(crate) fn c10_hkdf_expand_limit_os1_l256_refused() {
    case_expand_exact::<1, 256>();
    vcover!(true, "MUST-NOT: HKDF-Expand served more than 255 * HashLen bytes");
}
#[cfg_attr(kani, kani::proof)]
#[cfg_attr(kani, kani::unwind(10))]
#[doc = "verif-unwindset: hkdf::hkdf_expand=258"]
pub(crate) fn c10_hkdf_expand_limit_os2_l510_served() {
    case_expand_exact::<2, 510>();
    vcover!(true, "witness: end of harness reached");
}
#[cfg_attr(kani, kani::proof)]
#[cfg_attr(kani, kani::should_panic)]
#[cfg_attr(kani, kani::unwind(10))]
#[doc = "verif-unwindset: hkdf::hkdf_expand=258"]
pub(crate) fn c10_hkdf_expand_limit_os2_l511_refused() {
    case_expand_exact::<2, 511>();
    vcover!(true, "MUST-NOT: HKDF-Expand served more than 255 * HashLen bytes");
}

// ------------------------------------------------------------------------------------------------ C20 refusals
/// hkdf_extract refuses a PRK buffer whose length is not the digest size
#[cfg_attr(kani, kani::proof)]
#[cfg_attr(kani, kani::should_panic)]
#[cfg_attr(kani, kani::unwind(26))]
pub(crate) fn c20_mackdf_hkdf_extract_wrong_prk_len_panics() {
    let n: usize = any();
    assume(n <= 8 && n != 4);
    let salt = Bytes::<3>::any();
    let ikm = Bytes::<3>::any();
    let mut prk = [0u8; 8];
    log_reset();
    hkdf_extract(RecDigest::<8, 4>::new(), salt.get(), ikm.get(), &mut prk[..n]);
    vcover!(true, "MUST-NOT: hkdf_extract accepted a PRK buffer of the wrong length");
}
