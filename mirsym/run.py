#!/usr/bin/env python3
"""mirsym driver: python3-vt mirsym/run.py --mir all.mir [--only regex] [--json out.json]"""
import sys, os, re, json, time, argparse, traceback
sys.path.insert(0, os.path.dirname(os.path.abspath(__file__)))
import mirparse
from poly import Poly, AtomTable
from interp import Interp, Unsupported, Panic
from solve import Problem
import specs
import ringspecs
import bvspecs
specs.SPECS.update({k: dict(v, ring=True) for k, v in ringspecs.RINGSPECS.items()})
specs.SPECS.update({k: dict(v, ring=True) for k, v in bvspecs.BVSPECS.items()})


class Recorder:
    def __init__(self, interp=None):
        self.items = []
        self.I = interp
        self.assume_violated = False
        self.nat_in = None
        self.nat_out = None

    def assume(self, p, lo, hi, what=""):
        """precondition of the specification (e.g. 'the operand is a reduced scalar'): a constraint for the solver, a filter for concrete replays"""
        from poly import DP
        p = DP.lift(p)
        if p.is_const():
            if not (lo <= p.cval() <= hi):
                self.assume_violated = True
            return
        self.I.tab.constraints.append((p.e, lo, hi))
        if p.c is not p.e:
            self.I.tab.constraints.append((p.c, lo, hi))

    def range(self, p, lo, hi, what):
        self.items.append(dict(kind="range", poly=p, lo=lo, hi=hi, what=what))

    def congruent(self, a, b, modulus, what):
        self.items.append(dict(kind="congruent", poly=a - b, modulus=modulus, what=what))

    def equal(self, a, b, what):
        self.items.append(dict(kind="equal", poly=a - b, what=what))

    def native_in(self, op, fields):
        """operation code + operand fields [(poly, nbytes)] for the native execution entry (harness/incrate/limbs_native.rs)"""
        self.nat_in = (op, fields)

    def native_out(self, polys):
        self.nat_out = list(polys)

    def bveq(self, a, b, what):
        """BV-domain obligation: two bit-vector terms equal for all inputs"""
        self.items.append(dict(kind="bveq", a=a, b=b, what=what))

    def fzero(self, fpoly, what):
        """ring-level obligation: a polynomial over GF(p) that must be identically zero after normalisation"""
        self.items.append(dict(kind="fzero", fpoly=fpoly, what=what))


def check_spec(name, sp, fns, consts, timeout_ms, cfg="fe64"):
    t0 = time.time()
    res = dict(spec=name, desc=sp.get("desc", ""), obligations=[], status="holds")
    if sp.get("bv"):
        import bvdomain
        bvdomain.reset()        # fresh z3 context: the verdict must not depend on which specifications ran before
        if "bad" not in SELFTEST:
            SELFTEST["bad"] = bvspecs.selftest()
            bvdomain.reset()
        if SELFTEST["bad"]:
            res.update(status="inconclusive", reason="specification self-test against hashlib failed for %s: nothing is claimed" % SELFTEST["bad"])
            return res
    I = Interp(fns, consts, AtomTable())
    I.generic = sp.get("generic", {})
    R = Recorder(I)
    R.cfg = cfg
    CURRENT["cfg"] = cfg
    try:
        sp["fn"](I, R)
    except Unsupported as e:
        res.update(status="not-encodable", reason=str(e))
        return res
    except Panic as e:
        res.update(status="violated", reason="unconditional panic while interpreting: %s" % e)
        return res
    P = Problem(I.tab, timeout_ms)
    if CROSS["n"] > 0 and not sp.get("ring"):
        P.cross = dict(left=CROSS["n"], results=[])
    obl = [dict(kind="overflow", what="no overflow: %s [%s]" % (o["what"], o["where"]), poly=o["poly"], lo=o["lo"], hi=o["hi"]) for o in I.obligations] + R.items
    budget = float(sp.get("budget_s", 600)) * (1.0 if timeout_ms <= 60000 else 4.0)
    for o in obl:
        if time.time() - t0 > budget:
            res["obligations"].append(dict(what=o["what"], kind=o["kind"], verdict="unknown", note="per-spec time budget exhausted"))
            continue
        if o["kind"] == "bveq":
            import bvdomain
            t1 = time.time()
            r, model, how = bvdomain.prove_equal(o["a"], o["b"], timeout_ms)
            P.time += time.time() - t1
            P.queries += 1
        elif o["kind"] == "fzero":
            r, model = P.prove_fzero(o["fpoly"])
        elif o["kind"] in ("range", "overflow"):
            r, model = P.prove_range(o["poly"], o["lo"], o["hi"])
        elif o["kind"] == "congruent":
            r, model = P.prove_congruent(o["poly"], o["modulus"])
        else:
            r, model = P.prove_equal(o["poly"])
        entry = dict(what=o["what"], kind=o["kind"], verdict={"unsat": "proved", "sat": "counterexample", "unknown": "unknown"}.get(r, r))
        if r == "sat" and o["kind"] == "bveq":
            entry["model"] = model
            entry["found_by"] = how
            entry["confirmed"] = bv_native_confirm(R, model)
        elif r == "sat" and o["kind"] == "fzero":
            entry["model"] = model
            entry["confirmed"] = "ring identity fails: non-zero residual polynomial " + str(model.get("residual"))
        elif r == "sat":
            entry["model"] = model
            # confirm on the concrete interpreter (the abstraction may make the model spurious)
            entry["confirmed"] = confirm(sp, fns, consts, model, o)
        if o["kind"] == "bveq" and r != "unsat":
            pass        # bit-vector obligations: a model is replayed on the terms themselves; unknown stays inconclusive
        elif r == "unknown" or (r == "sat" and not entry.get("confirmed")):
            # the solver could not settle it (or its model is an artefact of the monomial abstraction): look for a CONCRETE
            # counterexample at corner / random points of the input box. Only ever used to confirm a violation, never to claim "holds".
            cm, why = corner_search(sp, fns, consts, I.tab, o)
            if cm is not None:
                entry.update(verdict="counterexample", model=cm, confirmed=why, found_by="corner search after solver %s" % r)
        res["obligations"].append(entry)
    bad = [e for e in res["obligations"] if e["verdict"] != "proved"]
    if any(e["verdict"] == "counterexample" and e.get("confirmed") for e in bad):
        res["status"] = "violated"
    elif bad:
        res["status"] = "inconclusive"
    if P.cross is not None:
        res["second_solver"] = dict(solver="cvc5", sampled_unsat_queries=len(P.cross["results"]), verdicts=P.cross["results"])
        if any(v == "sat" for v in P.cross["results"]):
            res["status"] = "inconclusive"
            res["reason"] = "solver disagreement: z3 unsat, cvc5 sat on the same SMT-LIB query"
    res.update(n_obligations=len(obl), n_proved=len(obl) - len(bad), atoms=len(I.tab.atoms), quot_atoms=I.stats["quot_atoms"],
               monomials=len(P.mvars), solver_s=round(P.time, 3), queries=P.queries, wall_s=round(time.time() - t0, 3),
               functions=sorted(I.stats["functions"]), blocks=I.stats["blocks"])
    return res


def confirm(sp, fns, consts, model, o, only=None):
    """re-run the spec with concrete inputs; True iff the same obligation fails concretely (or the code panics)"""
    I = Interp(fns, consts, AtomTable(), env=dict(model))
    I.generic = sp.get("generic", {})
    R = Recorder(I)
    R.cfg = CURRENT.get("cfg", "fe64")
    try:
        sp["fn"](I, R)
    except Panic as e:
        return False if R.assume_violated else "panic: %s" % e
    except Unsupported as e:
        return False
    if R.assume_violated:
        return False
    native_note = native_crosscheck(R)
    if native_note and native_note.startswith("MISMATCH"):
        return False
    items = [dict(kind="overflow", what="no overflow: %s [%s]" % (x["what"], x["where"]), poly=x["poly"], lo=x["lo"], hi=x["hi"]) for x in I.obligations] + R.items
    for it in items:
        p = it["poly"]
        if not p.is_const():
            continue
        if only is not None and it["what"] != only:
            continue
        v = p.cval()
        tail = (" | " + native_note) if native_note else ""
        if it["kind"] in ("range", "overflow") and not (it["lo"] <= v <= it["hi"]):
            return "concrete: %s: value %d outside [%d, %d]%s" % (it["what"], v, it["lo"], it["hi"], tail)
        if it["kind"] == "congruent" and v % it["modulus"] != 0:
            return "concrete: %s%s" % (it["what"], tail)
        if it["kind"] == "equal" and v != 0:
            return "concrete: %s%s" % (it["what"], tail)
    return False


NATIVE = dict(base=None, features=[])
CROSS = dict(n=0)
SELFTEST = {}
CURRENT = {}


def bv_native_confirm(R, model):
    """replay a bit-vector counterexample on the REAL build: the kernel as the crate dispatches it is run on the model's input and
    compared with the standard's function evaluated on the same input. Confirmed only when the native output deviates."""
    nat = getattr(R, "bvnative", None)
    if nat is None or not NATIVE["base"]:
        return "bit-vector terms of implementation and specification differ on the model's input (no native build given for replay)"
    sys.path.insert(0, os.path.join(os.path.dirname(os.path.dirname(os.path.abspath(__file__))), "runner"))
    import kanirun, subprocess
    data = bytes([nat["op"]])
    for (name, nbytes) in nat["layout"]:
        v = name if isinstance(name, int) else model.get(name, 0)
        data += (v % (1 << (8 * nbytes))).to_bytes(nbytes, "little")
    want = nat["spec"](model)
    exe, out = kanirun.native_build(NATIVE["base"], NATIVE["features"], "dev")
    if not exe:
        return None
    env = dict(os.environ, VERIF_REPLAY_HARNESS=nat["harness"], VERIF_REPLAY_BYTES=data.hex(), RUST_BACKTRACE="0")
    pr = subprocess.run([exe, "verif_glue::verif_replay_entry", "--exact", "--nocapture", "--test-threads", "1"], env=env, stdout=subprocess.PIPE, stderr=subprocess.STDOUT, timeout=300)
    txt = pr.stdout.decode("utf-8", "replace")
    m = re.search(r"VERIF-NATIVE-OUT:((?: -?\d+)*)", txt)
    if not m:
        pm = re.search(r"VERIF-REPLAY-RESULT: panicked .*msg=(.*)", txt)
        return ("native dev build panics on the model's input: %s" % pm.group(1)[:120]) if pm else None
    got = [int(x) for x in m.group(1).split()]
    if got != want:
        k = next(i for i in range(min(len(got), len(want))) if got[i] != want[i]) if len(got) == len(want) else -1
        return "native build deviates from the standard's function on the model's input: output element %d is %s, the standard gives %s" % (
            k, hex(got[k]) if k >= 0 else got[:4], hex(want[k]) if k >= 0 else want[:4])
    return None     # the native kernel agrees with the standard here: the difference is an artefact of the encoding -> not reported


def native_crosscheck(R):
    """execute the same operation on the same operands in the REAL build (dev profile: overflow checks on) and compare with the MIR
    interpreter's concrete outputs. returns a note, 'MISMATCH ...' when the interpreter and the native code disagree (=> not reported)."""
    if not NATIVE["base"] or R.nat_in is None or R.nat_out is None:
        return None
    sys.path.insert(0, os.path.join(os.path.dirname(os.path.dirname(os.path.abspath(__file__))), "runner"))
    import kanirun
    op, fields = R.nat_in
    data = bytes([op])
    for (p, nbytes) in fields:
        v = p.cval() if hasattr(p, "cval") else int(p)
        data += (v % (1 << (8 * nbytes))).to_bytes(nbytes, "little")
    exe, out = kanirun.native_build(NATIVE["base"], NATIVE["features"], "dev")
    if not exe:
        return "native build unavailable"
    env = dict(os.environ, VERIF_REPLAY_HARNESS="zz_native_limbs", VERIF_REPLAY_BYTES=data.hex(), RUST_BACKTRACE="0")
    import subprocess
    pr = subprocess.run([exe, "verif_glue::verif_replay_entry", "--exact", "--nocapture", "--test-threads", "1"], env=env, stdout=subprocess.PIPE, stderr=subprocess.STDOUT, timeout=300)
    txt = pr.stdout.decode("utf-8", "replace")
    m = re.search(r"VERIF-NATIVE-OUT:((?: -?\d+)*)", txt)
    if not m:
        pm = re.search(r"VERIF-REPLAY-RESULT: panicked .*msg=(.*)", txt)
        if pm:
            return "native dev build panics: %s" % pm.group(1)[:120]
        return "native run gave no output"
    got = [int(x) for x in m.group(1).split()]
    want = [p.cval() for p in R.nat_out]
    if got != want:
        return "MISMATCH between MIR interpreter %s and native build %s" % (want[:6], got[:6])
    return "native build computes the same output limbs"


def corner_search(sp, fns, consts, tab, o, tries=96):
    import random
    rnd = random.Random(12345)
    inputs = [a for a in tab.atoms if a["kind"] == "input"]
    for t in range(tries):
        env = {}
        for a in inputs:
            if t == 0:
                v = a["hi"]
            elif t == 1:
                v = a["lo"]
            else:
                c = rnd.random()
                v = a["hi"] if c < 0.45 else (a["lo"] if c < 0.7 else rnd.randint(a["lo"], a["hi"]))
            env[a["name"]] = v
        why = confirm(sp, fns, consts, env, o, only=o["what"])
        if why:
            return env, why
    return None, None


def main():
    ap = argparse.ArgumentParser()
    ap.add_argument("--mir", required=True)
    ap.add_argument("--only", default=None)
    ap.add_argument("--cfg", default="fe64")
    ap.add_argument("--json", default=None)
    ap.add_argument("--prop", default=None)
    ap.add_argument("--tier", default="quick")
    ap.add_argument("--native-base", default=None)
    ap.add_argument("--timeout-ms", type=int, default=120000)
    a = ap.parse_args()
    t0 = time.time()
    fns, consts = mirparse.parse_file(a.mir)
    NATIVE["base"] = a.native_base
    CROSS["n"] = 3 if a.tier == "thorough" else int(os.environ.get("MIRSYM_CROSS", "0") or 0)
    NATIVE["features"] = ["force-32bits"] if a.cfg == "fe32" else []
    import z3
    out = dict(mir=a.mir, parse_s=round(time.time() - t0, 2), z3=z3.get_version_string(), results=[])
    for name, sp in specs.SPECS.items():
        if a.only and not re.search(a.only, name):
            continue
        if sp.get("cfg") and sp["cfg"] != a.cfg:
            continue
        if sp.get("experimental") and not (os.environ.get("VERIF_EXPERIMENTAL") or a.only):
            continue
        if sp.get("tier") == "thorough" and a.tier != "thorough" and not a.only:
            continue
        if a.prop and a.prop not in sp.get("prop", []):
            continue
        import signal

        def _alarm(signum, frame):
            raise TimeoutError("mirsym wall-clock guard")
        signal.signal(signal.SIGALRM, _alarm)
        signal.alarm(int(sp.get("wall_s", 900 if a.tier == "quick" else 3600)))
        try:
            r = check_spec(name, sp, fns, consts, a.timeout_ms, a.cfg)
        except TimeoutError:
            r = dict(spec=name, status="inconclusive", reason="wall-clock guard: interpretation/solving did not finish")
        except Exception as e:
            r = dict(spec=name, status="error", reason="%s\n%s" % (e, traceback.format_exc()[-1500:]))
        signal.alarm(0)
        out["results"].append(r)
        print("%-28s %-14s obligations=%s proved=%s atoms=%s quot=%s solver=%ss wall=%ss %s" % (
            name, r["status"], r.get("n_obligations"), r.get("n_proved"), r.get("atoms"), r.get("quot_atoms"), r.get("solver_s"), r.get("wall_s"),
            r.get("reason", "")[:300]))
        for e in r.get("obligations", []):
            if e["verdict"] != "proved":
                print("    %s: %s confirmed=%s" % (e["verdict"], e["what"], e.get("confirmed")))
    if a.json:
        def clean(o):
            if isinstance(o, dict):
                return {k: clean(v) for k, v in o.items() if k not in ("poly", "fpoly", "a", "b")}
            if isinstance(o, list):
                return [clean(x) for x in o]
            return o
        json.dump(clean(out), open(a.json, "w"), indent=1)


if __name__ == "__main__":
    main()
