// C20 (misc) — argument validation and one-shot discipline of src/chacha20poly1305.rs (child module of
// crate::chacha20poly1305).  The AEAD construction itself (framing, tag) belongs to C06/C07; here only:
//   * ChaChaPoly1305::encrypt / decrypt from an ARBITRARY object state (any cipher state, any `finished` flag, any
//     aad/data counters): the call returns normally iff  input.len() == output.len()  &&  tag length == 16  &&
//     !finished ; every other shape (all three lengths symbolic) is refused by a panic on EVERY path, before any output
//     byte is written; a successful call leaves finished == true, so a second encrypt/decrypt is refused (reuse).
//   * ContextEncryption::encrypt / ContextDecryption::decrypt refuse input.len() != output.len().
//   * ChaChaPoly1305::new / Context::new refuse key lengths other than 16 / 32 (symbolic 0..=40) and the round
//     counts 7, 10, 21; legal shapes return normally.
// The incremental contexts' encrypt/decrypt/finalize are replaced by loop-free recorders in the encrypt/decrypt step
// harnesses (they contain the Poly1305 multiplications, which SAT cannot digest and which do not matter for the
// refusal logic); natively the real code runs.
#![allow(dead_code, unused_imports, missing_docs)]
use super::*;
use crate::chacha20::verif_c20m_chacha::{illegal_key, legal_key};
use crate::chacha20::verif_ctx::mk_chacha;
use crate::verif_lib::*;

pub(crate) static mut ENC_N: usize = 0; // calls of ContextEncryption::encrypt
pub(crate) static mut ENC_IL: usize = 0;
pub(crate) static mut ENC_OL: usize = 0;
pub(crate) static mut ENC_OUT: usize = 0; // address of the output slice
pub(crate) static mut FIN_N: usize = 0; // calls of finalize
pub(crate) static mut FIN_TAG: [u8; 16] = [0; 16];
pub(crate) static mut FIN_EXPECT: [u8; 16] = [0; 16];
pub(crate) static mut FIN_MATCH: bool = false;

#[cfg(kani)]
fn enc_encrypt_rec<const ROUNDS: usize>(_c: &mut ContextEncryption<ROUNDS>, input: &[u8], output: &mut [u8]) {
    unsafe {
        ENC_N += 1;
        ENC_IL = input.len();
        ENC_OL = output.len();
        ENC_OUT = output.as_ptr() as usize;
    }
}
#[cfg(kani)]
fn enc_finalize_rec<const ROUNDS: usize>(_c: ContextEncryption<ROUNDS>) -> Tag {
    let t: [u8; 16] = kani::any();
    unsafe {
        FIN_N += 1;
        FIN_TAG = t;
    }
    Tag(t)
}
#[cfg(kani)]
fn dec_decrypt_rec<const ROUNDS: usize>(_c: &mut ContextDecryption<ROUNDS>, input: &[u8], output: &mut [u8]) {
    unsafe {
        ENC_N += 1;
        ENC_IL = input.len();
        ENC_OL = output.len();
        ENC_OUT = output.as_ptr() as usize;
    }
}
#[cfg(kani)]
fn dec_finalize_rec<const ROUNDS: usize>(_c: ContextDecryption<ROUNDS>, expected_tag: &Tag) -> DecryptionResult {
    let m: bool = kani::any();
    unsafe {
        FIN_N += 1;
        FIN_EXPECT = expected_tag.0;
        FIN_MATCH = m;
    }
    if m {
        DecryptionResult::Match
    } else {
        DecryptionResult::MisMatch
    }
}
#[cfg(kani)]
fn chacha_process_rec<const ROUNDS: usize>(_c: &mut ChaCha<ROUNDS>, _input: &[u8], _output: &mut [u8]) {}
#[cfg(kani)]
fn add_encrypted_rec<const ROUNDS: usize>(_c: &mut Context<ROUNDS>, _encrypted: &[u8]) {}

/// arbitrary AEAD object: any cipher position, any counters; MAC freshly keyed (its state is irrelevant to the refusals)
fn arb_ctx<const R: usize>() -> Context<R> {
    let w: [u32; 16] = any();
    let cached: [u8; 64] = any();
    let offset: usize = any();
    let pk: [u8; 32] = any();
    let aad_len: u64 = any();
    let data_len: u64 = any();
    assume(offset <= 64);
    Context { cipher: mk_chacha::<R>(w, cached, offset), mac: Poly1305::new(&pk), aad_len, data_len }
}

const DMAX: usize = 4; // data bytes per call in these harnesses (the asserts precede all data handling)
const TMAX: usize = 20; // tag slice length 0..=20

struct Shape {
    il: usize,
    ol: usize,
    tl: usize,
    finished: bool,
}
fn shape(legal: bool) -> Shape {
    let il: usize = any();
    let ol: usize = any();
    let tl: usize = any();
    let finished: bool = any();
    assume(il <= DMAX && ol <= DMAX && tl <= TMAX);
    let ok = il == ol && tl == 16 && !finished;
    assume(ok == legal);
    // (each cover is written so that it is satisfiable in the legal AND in the refusal harness: a cover in a branch that a
    // harness never takes would count as vacuous)
    vcover!(legal || (il + 1 == ol && tl == 16 && !finished), "output one byte longer than input");
    vcover!(legal || (il == ol + 1 && tl == 16 && !finished), "output one byte shorter than input");
    vcover!(legal || (il == ol && tl == 15 && !finished), "tag slice one byte short");
    vcover!(legal || (il == ol && tl == 17 && !finished), "tag slice one byte long");
    vcover!(legal || (il == ol && tl == 0 && !finished), "empty tag slice");
    vcover!(legal || (il == ol && tl == 16 && finished), "object already used");
    vcover!(!legal || il == 0, "empty message");
    vcover!(!legal || il == DMAX, "longest message of the bound");
    Shape { il, ol, tl, finished }
}

fn case_encrypt(legal: bool) {
    let s = shape(legal);
    let input: [u8; DMAX] = any();
    let prior_out: [u8; DMAX] = any();
    let prior_tag: [u8; TMAX] = any();
    let mut a = ChaChaPoly1305::<2> { finished: s.finished, context: arb_ctx::<2>() };
    let mut out = prior_out;
    let mut tag = prior_tag;
    a.encrypt(&input[..s.il], &mut out[..s.ol], &mut tag[..s.tl]);
    if !legal {
        vcover!(true, "MUST-NOT: ChaChaPoly1305::encrypt returned for mismatched lengths, a tag slice that is not 16 bytes, or a used object");
    }
    vassert!(a.finished, "encrypt: the object is marked used after a successful call");
    #[cfg(kani)]
    unsafe {
        vassert!(ENC_N == 1 && ENC_IL == s.il && ENC_OL == s.ol && ENC_OUT == out.as_ptr() as usize, "encrypt: the whole input is encrypted into the whole output, once");
        vassert!(FIN_N == 1, "encrypt: the tag is produced once");
        let mut i = 0;
        while i < TMAX {
            if i < 16 {
                vassert!(tag[i] == FIN_TAG[i], "encrypt: out_tag receives the 16 tag bytes");
            } else {
                vassert!(tag[i] == prior_tag[i], "encrypt: bytes beyond the tag slice untouched");
            }
            i += 1;
        }
    }
    let mut i = 0;
    while i < DMAX {
        if i >= s.ol {
            vassert!(out[i] == prior_out[i], "encrypt: bytes beyond the output slice untouched");
        }
        i += 1;
    }
}
fn case_decrypt(legal: bool) {
    let s = shape(legal);
    let input: [u8; DMAX] = any();
    let prior_out: [u8; DMAX] = any();
    let tag: [u8; TMAX] = any();
    let mut a = ChaChaPoly1305::<2> { finished: s.finished, context: arb_ctx::<2>() };
    let mut out = prior_out;
    let r = a.decrypt(&input[..s.il], &mut out[..s.ol], &tag[..s.tl]);
    if !legal {
        vcover!(true, "MUST-NOT: ChaChaPoly1305::decrypt returned for mismatched lengths, a tag that is not 16 bytes, or a used object");
    }
    vassert!(a.finished, "decrypt: the object is marked used after a successful call");
    #[cfg(kani)]
    unsafe {
        vassert!(ENC_N == 1 && ENC_IL == s.il && ENC_OL == s.ol && ENC_OUT == out.as_ptr() as usize, "decrypt: the whole input is decrypted into the whole output, once");
        vassert!(FIN_N == 1 && r == FIN_MATCH, "decrypt: returns true exactly when the tag comparison reports a match");
        let mut i = 0;
        while i < 16 {
            vassert!(FIN_EXPECT[i] == tag[i], "decrypt: the caller's 16 tag bytes are the expected tag");
            i += 1;
        }
    }
    let _ = r;
    let mut i = 0;
    while i < DMAX {
        if i >= s.ol {
            vassert!(out[i] == prior_out[i], "decrypt: bytes beyond the output slice untouched");
        }
        i += 1;
    }
}

#[cfg_attr(kani, kani::proof)]
#[cfg_attr(kani, kani::unwind(22))]
#[cfg_attr(kani, kani::stub(ContextEncryption::encrypt, enc_encrypt_rec))]
#[cfg_attr(kani, kani::stub(ContextEncryption::finalize, enc_finalize_rec))]
pub(crate) fn c20_misc_aead_encrypt_legal() {
    case_encrypt(true);
}
#[cfg_attr(kani, kani::proof)]
#[cfg_attr(kani, kani::should_panic)]
#[cfg_attr(kani, kani::unwind(22))]
#[cfg_attr(kani, kani::stub(ContextEncryption::encrypt, enc_encrypt_rec))]
#[cfg_attr(kani, kani::stub(ContextEncryption::finalize, enc_finalize_rec))]
pub(crate) fn c20_misc_aead_encrypt_refusals_panic() {
    case_encrypt(false);
}
#[cfg_attr(kani, kani::proof)]
#[cfg_attr(kani, kani::unwind(22))]
#[cfg_attr(kani, kani::stub(ContextDecryption::decrypt, dec_decrypt_rec))]
#[cfg_attr(kani, kani::stub(ContextDecryption::finalize, dec_finalize_rec))]
pub(crate) fn c20_misc_aead_decrypt_legal() {
    case_decrypt(true);
}
#[cfg_attr(kani, kani::proof)]
#[cfg_attr(kani, kani::should_panic)]
#[cfg_attr(kani, kani::unwind(22))]
#[cfg_attr(kani, kani::stub(ContextDecryption::decrypt, dec_decrypt_rec))]
#[cfg_attr(kani, kani::stub(ContextDecryption::finalize, dec_finalize_rec))]
pub(crate) fn c20_misc_aead_decrypt_refusals_panic() {
    case_decrypt(false);
}

/// reuse: a legal encrypt (returns: witnessed by the cover) followed by any second legal-shaped encrypt or decrypt
#[cfg_attr(kani, kani::proof)]
#[cfg_attr(kani, kani::should_panic)]
#[cfg_attr(kani, kani::unwind(22))]
#[cfg_attr(kani, kani::stub(ContextEncryption::encrypt, enc_encrypt_rec))]
#[cfg_attr(kani, kani::stub(ContextEncryption::finalize, enc_finalize_rec))]
#[cfg_attr(kani, kani::stub(ContextDecryption::decrypt, dec_decrypt_rec))]
#[cfg_attr(kani, kani::stub(ContextDecryption::finalize, dec_finalize_rec))]
pub(crate) fn c20_misc_aead_reuse_after_encrypt_panics() {
    let input: [u8; DMAX] = any();
    let n: usize = any();
    let second_is_decrypt: bool = any();
    assume(n <= DMAX);
    let mut a = ChaChaPoly1305::<2> { finished: false, context: arb_ctx::<2>() };
    let mut out = [0u8; DMAX];
    let mut tag = [0u8; 16];
    a.encrypt(&input[..n], &mut out[..n], &mut tag);
    vcover!(second_is_decrypt, "first encrypt returned; second call is decrypt");
    vcover!(!second_is_decrypt, "first encrypt returned; second call is encrypt");
    let mut out2 = [0u8; DMAX];
    if second_is_decrypt {
        let _ = a.decrypt(&out[..n], &mut out2[..n], &tag);
    } else {
        a.encrypt(&input[..n], &mut out2[..n], &mut tag);
    }
    vcover!(true, "MUST-NOT: a ChaChaPoly1305 object was usable a second time after encrypt");
}
#[cfg_attr(kani, kani::proof)]
#[cfg_attr(kani, kani::should_panic)]
#[cfg_attr(kani, kani::unwind(22))]
#[cfg_attr(kani, kani::stub(ContextEncryption::encrypt, enc_encrypt_rec))]
#[cfg_attr(kani, kani::stub(ContextEncryption::finalize, enc_finalize_rec))]
#[cfg_attr(kani, kani::stub(ContextDecryption::decrypt, dec_decrypt_rec))]
#[cfg_attr(kani, kani::stub(ContextDecryption::finalize, dec_finalize_rec))]
pub(crate) fn c20_misc_aead_reuse_after_decrypt_panics() {
    let input: [u8; DMAX] = any();
    let tag_in: [u8; 16] = any();
    let n: usize = any();
    let second_is_decrypt: bool = any();
    assume(n <= DMAX);
    let mut a = ChaChaPoly1305::<2> { finished: false, context: arb_ctx::<2>() };
    let mut out = [0u8; DMAX];
    let _ = a.decrypt(&input[..n], &mut out[..n], &tag_in);
    vcover!(second_is_decrypt, "first decrypt returned; second call is decrypt");
    vcover!(!second_is_decrypt, "first decrypt returned; second call is encrypt");
    let mut out2 = [0u8; DMAX];
    let mut tag = [0u8; 16];
    if second_is_decrypt {
        let _ = a.decrypt(&input[..n], &mut out2[..n], &tag_in);
    } else {
        a.encrypt(&input[..n], &mut out2[..n], &mut tag);
    }
    vcover!(true, "MUST-NOT: a ChaChaPoly1305 object was usable a second time after decrypt");
}

// ---- incremental contexts: length mismatch ---------------------------------------------------------------------------
fn two_lengths() -> (usize, usize) {
    let il: usize = any();
    let ol: usize = any();
    assume(il <= DMAX && ol <= DMAX && il != ol);
    vcover!(il + 1 == ol, "output one byte longer");
    vcover!(il == ol + 1, "output one byte shorter");
    vcover!(ol == 0, "empty output");
    (il, ol)
}
#[cfg_attr(kani, kani::proof)]
#[cfg_attr(kani, kani::should_panic)]
#[cfg_attr(kani, kani::unwind(22))]
#[cfg_attr(kani, kani::stub(crate::chacha20::ChaCha::process, chacha_process_rec))]
#[cfg_attr(kani, kani::stub(Context::add_encrypted, add_encrypted_rec))]
pub(crate) fn c20_misc_aead_ctx_encrypt_len_mismatch_panics() {
    let (il, ol) = two_lengths();
    let input: [u8; DMAX] = any();
    let mut out = [0u8; DMAX];
    let mut c = ContextEncryption(arb_ctx::<2>());
    c.encrypt(&input[..il], &mut out[..ol]);
    vcover!(true, "MUST-NOT: ContextEncryption::encrypt returned although input and output lengths differ");
}
#[cfg_attr(kani, kani::proof)]
#[cfg_attr(kani, kani::should_panic)]
#[cfg_attr(kani, kani::unwind(22))]
#[cfg_attr(kani, kani::stub(crate::chacha20::ChaCha::process, chacha_process_rec))]
#[cfg_attr(kani, kani::stub(Context::add_encrypted, add_encrypted_rec))]
pub(crate) fn c20_misc_aead_ctx_decrypt_len_mismatch_panics() {
    let (il, ol) = two_lengths();
    let input: [u8; DMAX] = any();
    let mut out = [0u8; DMAX];
    let mut c = ContextDecryption(arb_ctx::<2>());
    c.decrypt(&input[..il], &mut out[..ol]);
    vcover!(true, "MUST-NOT: ContextDecryption::decrypt returned although input and output lengths differ");
}

// ---- constructors ----------------------------------------------------------------------------------------------------
fn aead_new<const R: usize>() {
    let (kb, kl) = legal_key();
    aead_new_with::<R>(kb, kl);
}
fn aead_new_illegal_key<const R: usize>() {
    let (kb, kl) = illegal_key();
    aead_new_with::<R>(kb, kl);
}
fn aead_new_with<const R: usize>(kb: [u8; crate::chacha20::verif_c20m_chacha::KMAX], kl: usize) {
    let nonce: [u8; 12] = any();
    let aad = Bytes::<3>::any();
    let a = ChaChaPoly1305::<R>::new(&kb[..kl], &nonce, aad.get());
    vassert!(!a.finished, "ChaChaPoly1305::new: fresh object is usable");
    vassert!(a.context.aad_len == aad.len as u64 && a.context.data_len == 0, "ChaChaPoly1305::new: counters = (aad length, 0)");
}
#[cfg_attr(kani, kani::proof)]
#[cfg_attr(kani, kani::should_panic)]
#[cfg_attr(kani, kani::unwind(66))]
pub(crate) fn c20_misc_aead_new_keylen_panics() {
    aead_new_illegal_key::<20>();
    vcover!(true, "MUST-NOT: ChaChaPoly1305::new returned for a key length other than 16 or 32");
}
#[cfg_attr(kani, kani::proof)]
#[cfg_attr(kani, kani::should_panic)]
#[cfg_attr(kani, kani::unwind(66))]
pub(crate) fn c20_misc_aead_new_rounds7_panics() {
    aead_new::<7>();
    vcover!(true, "MUST-NOT: ChaChaPoly1305::new returned for ROUNDS = 7");
}
#[cfg_attr(kani, kani::proof)]
#[cfg_attr(kani, kani::should_panic)]
#[cfg_attr(kani, kani::unwind(66))]
pub(crate) fn c20_misc_aead_new_rounds10_panics() {
    aead_new::<10>();
    vcover!(true, "MUST-NOT: ChaChaPoly1305::new returned for ROUNDS = 10");
}
#[cfg_attr(kani, kani::proof)]
#[cfg_attr(kani, kani::should_panic)]
#[cfg_attr(kani, kani::unwind(66))]
pub(crate) fn c20_misc_aead_new_rounds21_panics() {
    aead_new::<21>();
    vcover!(true, "MUST-NOT: ChaChaPoly1305::new returned for ROUNDS = 21");
}
/// legal constructor shapes run the real cipher (one 64-byte block for the MAC key) and return normally
#[cfg_attr(kani, kani::proof)]
#[cfg_attr(kani, kani::unwind(66))]
#[cfg_attr(kani, kani::stub(core::arch::x86_64::_mm_add_epi32, crate::verif_lib::mm_add_epi32_model))]
pub(crate) fn c20_misc_aead_new_legal_r8() {
    aead_new::<8>();
}
#[cfg_attr(kani, kani::proof)]
#[cfg_attr(kani, kani::unwind(66))]
#[cfg_attr(kani, kani::stub(core::arch::x86_64::_mm_add_epi32, crate::verif_lib::mm_add_epi32_model))]
pub(crate) fn c20_t_misc_aead_new_legal_r12_r20() {
    aead_new::<12>();
    aead_new::<20>();
}
