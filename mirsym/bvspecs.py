"""BV-domain specifications: compression functions / permutations against transcriptions of the standards (all inputs, fixed sizes)."""
import re
from interp import IntV, AggV, RefV, Cell, BvV, Unsupported
from bvdomain import B

K256 = [0x428a2f98, 0x71374491, 0xb5c0fbcf, 0xe9b5dba5, 0x3956c25b, 0x59f111f1, 0x923f82a4, 0xab1c5ed5, 0xd807aa98, 0x12835b01, 0x243185be, 0x550c7dc3, 0x72be5d74, 0x80deb1fe, 0x9bdc06a7, 0xc19bf174,
        0xe49b69c1, 0xefbe4786, 0x0fc19dc6, 0x240ca1cc, 0x2de92c6f, 0x4a7484aa, 0x5cb0a9dc, 0x76f988da, 0x983e5152, 0xa831c66d, 0xb00327c8, 0xbf597fc7, 0xc6e00bf3, 0xd5a79147, 0x06ca6351, 0x14292967,
        0x27b70a85, 0x2e1b2138, 0x4d2c6dfc, 0x53380d13, 0x650a7354, 0x766a0abb, 0x81c2c92e, 0x92722c85, 0xa2bfe8a1, 0xa81a664b, 0xc24b8b70, 0xc76c51a3, 0xd192e819, 0xd6990624, 0xf40e3585, 0x106aa070,
        0x19a4c116, 0x1e376c08, 0x2748774c, 0x34b0bcb5, 0x391c0cb3, 0x4ed8aa4a, 0x5b9cca4f, 0x682e6ff3, 0x748f82ee, 0x78a5636f, 0x84c87814, 0x8cc70208, 0x90befffa, 0xa4506ceb, 0xbef9a3f7, 0xc67178f2]


def ref(v):
    return RefV(Cell(v), ())


def sha256_compress_spec(H, M):
    """FIPS 180-4 section 6.2.2 on one block: H = 8 words, M = 64 bytes (B values)"""
    W = [B.concat_le([M[4 * t + 3], M[4 * t + 2], M[4 * t + 1], M[4 * t]]) for t in range(16)]
    rotr = lambda x, n: x.rotr(n)
    s0 = lambda x: rotr(x, 7) ^ rotr(x, 18) ^ x.shr(3)
    s1 = lambda x: rotr(x, 17) ^ rotr(x, 19) ^ x.shr(10)
    S0 = lambda x: rotr(x, 2) ^ rotr(x, 13) ^ rotr(x, 22)
    S1 = lambda x: rotr(x, 6) ^ rotr(x, 11) ^ rotr(x, 25)
    for t in range(16, 64):
        W.append(s1(W[t - 2]) + W[t - 7] + s0(W[t - 15]) + W[t - 16])
    a, b, c, d, e, f, g, h = H
    for t in range(64):
        ch = (e & f) ^ (~e & g)
        maj = (a & b) ^ (a & c) ^ (b & c)
        T1 = h + S1(e) + ch + B.const(K256[t], 32) + W[t]
        T2 = S0(a) + maj
        h, g, f, e, d, c, b, a = g, f, e, d + T1, c, b, a, T1 + T2
    return [x + y for x, y in zip(H, [a, b, c, d, e, f, g, h])]


def sha256_kernel(I, R):
    H = [B.var("h%d" % i, 32) for i in range(8)]
    M = [B.var("m%d" % i, 8) for i in range(64)]
    st = Cell(AggV([BvV(x, "u32") for x in H]))
    msg = Cell(AggV([BvV(x, "u8") for x in M]))
    f = I.find_fn_re(r"^fn impl256::reference::digest_block_u32\(|^fn .*reference::digest_block_u32\(_1: &mut \[u32; 8\], _2: &\[u8\]\)")
    I.run(f, [RefV(st, ()), RefV(msg, (), (0, 64))])
    want = sha256_compress_spec(H, M)
    for i in range(8):
        R.bveq(st.v.f[i].b, want[i], "SHA-256 compression (FIPS 180-4 6.2.2): state word %d for every chaining value and block" % i)
    hn, mn = ["h%d" % i for i in range(8)], ["m%d" % i for i in range(64)]
    R.bvnative = dict(harness="zz_native_kernel_sha2", op=40, layout=[(n, 4) for n in hn] + [(n, 1) for n in mn],
                      spec=lambda md: _ints(sha256_compress_spec(_cv(md, hn, 32), _cv(md, mn, 8))))


K512 = [
    0x428a2f98d728ae22, 0x7137449123ef65cd, 0xb5c0fbcfec4d3b2f, 0xe9b5dba58189dbbc, 0x3956c25bf348b538, 0x59f111f1b605d019, 0x923f82a4af194f9b, 0xab1c5ed5da6d8118,
    0xd807aa98a3030242, 0x12835b0145706fbe, 0x243185be4ee4b28c, 0x550c7dc3d5ffb4e2, 0x72be5d74f27b896f, 0x80deb1fe3b1696b1, 0x9bdc06a725c71235, 0xc19bf174cf692694,
    0xe49b69c19ef14ad2, 0xefbe4786384f25e3, 0x0fc19dc68b8cd5b5, 0x240ca1cc77ac9c65, 0x2de92c6f592b0275, 0x4a7484aa6ea6e483, 0x5cb0a9dcbd41fbd4, 0x76f988da831153b5,
    0x983e5152ee66dfab, 0xa831c66d2db43210, 0xb00327c898fb213f, 0xbf597fc7beef0ee4, 0xc6e00bf33da88fc2, 0xd5a79147930aa725, 0x06ca6351e003826f, 0x142929670a0e6e70,
    0x27b70a8546d22ffc, 0x2e1b21385c26c926, 0x4d2c6dfc5ac42aed, 0x53380d139d95b3df, 0x650a73548baf63de, 0x766a0abb3c77b2a8, 0x81c2c92e47edaee6, 0x92722c851482353b,
    0xa2bfe8a14cf10364, 0xa81a664bbc423001, 0xc24b8b70d0f89791, 0xc76c51a30654be30, 0xd192e819d6ef5218, 0xd69906245565a910, 0xf40e35855771202a, 0x106aa07032bbd1b8,
    0x19a4c116b8d2d0c8, 0x1e376c085141ab53, 0x2748774cdf8eeb99, 0x34b0bcb5e19b48a8, 0x391c0cb3c5c95a63, 0x4ed8aa4ae3418acb, 0x5b9cca4f7763e373, 0x682e6ff3d6b2b8a3,
    0x748f82ee5defb2fc, 0x78a5636f43172f60, 0x84c87814a1f0ab72, 0x8cc702081a6439ec, 0x90befffa23631e28, 0xa4506cebde82bde9, 0xbef9a3f7b2c67915, 0xc67178f2e372532b,
    0xca273eceea26619c, 0xd186b8c721c0c207, 0xeada7dd6cde0eb1e, 0xf57d4f7fee6ed178, 0x06f067aa72176fba, 0x0a637dc5a2c898a6, 0x113f9804bef90dae, 0x1b710b35131c471b,
    0x28db77f523047d84, 0x32caab7b40c72493, 0x3c9ebe0a15c9bebc, 0x431d67c49c100d4c, 0x4cc5d4becb3e42b6, 0x597f299cfc657e2a, 0x5fcb6fab3ad6faec, 0x6c44198c4a475817]


def sha512_compress_spec(H, W16):
    W = list(W16)
    rotr = lambda x, n: x.rotr(n)
    s0 = lambda x: rotr(x, 1) ^ rotr(x, 8) ^ x.shr(7)
    s1 = lambda x: rotr(x, 19) ^ rotr(x, 61) ^ x.shr(6)
    S0 = lambda x: rotr(x, 28) ^ rotr(x, 34) ^ rotr(x, 39)
    S1 = lambda x: rotr(x, 14) ^ rotr(x, 18) ^ rotr(x, 41)
    for t in range(16, 80):
        W.append(s1(W[t - 2]) + W[t - 7] + s0(W[t - 15]) + W[t - 16])
    a, b, c, d, e, f, g, h = H
    for t in range(80):
        ch = (e & f) ^ (~e & g)
        maj = (a & b) ^ (a & c) ^ (b & c)
        T1 = h + S1(e) + ch + B.const(K512[t], 64) + W[t]
        T2 = S0(a) + maj
        h, g, f, e, d, c, b, a = g, f, e, d + T1, c, b, a, T1 + T2
    return [x + y for x, y in zip(H, [a, b, c, d, e, f, g, h])]


def sha512_kernel(I, R):
    H = [B.var("h%d" % i, 64) for i in range(8)]
    W = [B.var("w%d" % i, 64) for i in range(16)]
    st = Cell(AggV([BvV(x, "u64") for x in H]))
    blk = Cell(AggV([BvV(x, "u64") for x in W]))
    f = I.find_fn_re(r"^fn (\S*::)?digest_block_u64\(_1: &mut \[u64; 8\], _2: &\[u64; 16\]\)")
    I.run(f, [RefV(st, ()), RefV(blk, ())])
    want = sha512_compress_spec(H, W)
    for i in range(8):
        R.bveq(st.v.f[i].b, want[i], "SHA-512 compression (FIPS 180-4 6.4.2): state word %d" % i)
    hn, wn = ["h%d" % i for i in range(8)], ["w%d" % i for i in range(16)]
    R.bvnative = dict(harness="zz_native_kernel_sha2", op=41, layout=[(n, 8) for n in hn + wn],
                      spec=lambda md: _ints(sha512_compress_spec(_cv(md, hn, 64), _cv(md, wn, 64))))


def sha1_compress_spec(H, W16):
    W = list(W16)
    for t in range(16, 80):
        W.append((W[t - 3] ^ W[t - 8] ^ W[t - 14] ^ W[t - 16]).rotl(1))
    a, b, c, d, e = H
    for t in range(80):
        if t < 20:
            f, k = (b & c) ^ (~b & d), 0x5a827999
        elif t < 40:
            f, k = b ^ c ^ d, 0x6ed9eba1
        elif t < 60:
            f, k = (b & c) ^ (b & d) ^ (c & d), 0x8f1bbcdc
        else:
            f, k = b ^ c ^ d, 0xca62c1d6
        T = a.rotl(5) + f + e + B.const(k, 32) + W[t]
        e, d, c, b, a = d, c, b.rotl(30), a, T
    return [x + y for x, y in zip(H, [a, b, c, d, e])]


def sha1_kernel(I, R):
    H = [B.var("h%d" % i, 32) for i in range(5)]
    W = [B.var("w%d" % i, 32) for i in range(16)]
    st = Cell(AggV([BvV(x, "u32") for x in H]))
    blk = Cell(AggV([BvV(x, "u32") for x in W]))
    f = I.find_fn_re(r"^fn hashing::sha1::digest_block_u32\(")
    I.run(f, [RefV(st, ()), RefV(blk, ())])
    want = sha1_compress_spec(H, W)
    for i in range(5):
        R.bveq(st.v.f[i].b, want[i], "SHA-1 compression (FIPS 180-4 6.1.2): state word %d" % i)
    hn, wn = ["h%d" % i for i in range(5)], ["w%d" % i for i in range(16)]
    R.bvnative = dict(harness="zz_native_kernel_sha1", op=42, layout=[(n, 4) for n in hn + wn],
                      spec=lambda md: _ints(sha1_compress_spec(_cv(md, hn, 32), _cv(md, wn, 32))))


RC_KECCAK = [0x0000000000000001, 0x0000000000008082, 0x800000000000808A, 0x8000000080008000, 0x000000000000808B, 0x0000000080000001, 0x8000000080008081, 0x8000000000008009,
             0x000000000000008A, 0x0000000000000088, 0x0000000080008009, 0x000000008000000A, 0x000000008000808B, 0x800000000000008B, 0x8000000000008089, 0x8000000000008003,
             0x8000000000008002, 0x8000000000000080, 0x000000000000800A, 0x800000008000000A, 0x8000000080008081, 0x8000000000008080, 0x0000000080000001, 0x8000000080008008]
# FIPS 202 table 2: rotation offsets r[x][y]
RHO = [[0, 36, 3, 41, 18], [1, 44, 10, 45, 2], [62, 6, 43, 15, 61], [28, 55, 25, 21, 56], [27, 20, 39, 8, 14]]


def keccak_f_spec(A):
    """FIPS 202 3.2-3.3 on lanes A[x][y]"""
    for rnd in range(24):
        C = [A[x][0] ^ A[x][1] ^ A[x][2] ^ A[x][3] ^ A[x][4] for x in range(5)]
        D = [C[(x - 1) % 5] ^ C[(x + 1) % 5].rotl(1) for x in range(5)]
        A = [[A[x][y] ^ D[x] for y in range(5)] for x in range(5)]
        Bm = [[None] * 5 for _ in range(5)]
        for x in range(5):
            for y in range(5):
                Bm[y][(2 * x + 3 * y) % 5] = A[x][y].rotl(RHO[x][y])
        A = [[Bm[x][y] ^ (~Bm[(x + 1) % 5][y] & Bm[(x + 2) % 5][y]) for y in range(5)] for x in range(5)]
        A[0][0] = A[0][0] ^ B.const(RC_KECCAK[rnd], 64)
    return A


def keccak_kernel(I, R):
    S = [B.var("s%d" % i, 8) for i in range(200)]
    st = Cell(AggV([BvV(x, "u8") for x in S]))
    f = I.find_fn_re(r"^fn (\S*::)?keccak_f\(_1: &mut \[u8; 200\]\)")
    I.run(f, [RefV(st, ())])
    lanes = [[B.concat_le(S[8 * (x + 5 * y):8 * (x + 5 * y) + 8]) for y in range(5)] for x in range(5)]
    out = keccak_f_spec(lanes)
    for y in range(5):
        for x in range(5):
            got = B.concat_le([st.v.f[8 * (x + 5 * y) + k].b for k in range(8)])
            R.bveq(got, out[x][y], "Keccak-f[1600] (FIPS 202 3.3): lane (%d,%d)" % (x, y))
    sn = ["s%d" % i for i in range(200)]

    def kspec(md):
        S8 = _cv(md, sn, 8)
        lanes = [[B.concat_le(S8[8 * (x + 5 * y):8 * (x + 5 * y) + 8]) for y in range(5)] for x in range(5)]
        o = keccak_f_spec(lanes)
        res = []
        for y in range(5):
            for x in range(5):
                v = o[x][y].cval()
                res += [(v >> (8 * k)) & 0xff for k in range(8)]
        return res
    R.bvnative = dict(harness="zz_native_kernel_sha3", op=43, layout=[(n, 1) for n in sn], spec=kspec)


SIGMA = [[0, 1, 2, 3, 4, 5, 6, 7, 8, 9, 10, 11, 12, 13, 14, 15], [14, 10, 4, 8, 9, 15, 13, 6, 1, 12, 0, 2, 11, 7, 5, 3], [11, 8, 12, 0, 5, 2, 15, 13, 10, 14, 3, 6, 7, 1, 9, 4],
         [7, 9, 3, 1, 13, 12, 11, 14, 2, 6, 5, 10, 4, 0, 15, 8], [9, 0, 5, 7, 2, 4, 10, 15, 14, 1, 11, 12, 6, 8, 3, 13], [2, 12, 6, 10, 0, 11, 8, 3, 4, 13, 7, 5, 15, 14, 1, 9],
         [12, 5, 1, 15, 14, 13, 4, 10, 0, 7, 6, 3, 9, 2, 8, 11], [13, 11, 7, 14, 12, 1, 3, 9, 5, 0, 15, 4, 8, 6, 2, 10], [6, 15, 14, 9, 11, 3, 0, 8, 12, 2, 13, 7, 1, 4, 10, 5],
         [10, 2, 8, 4, 7, 6, 1, 5, 15, 11, 9, 14, 3, 12, 13, 0]]
IVB = [0x6a09e667f3bcc908, 0xbb67ae8584caa73b, 0x3c6ef372fe94f82b, 0xa54ff53a5f1d36f1, 0x510e527fade682d1, 0x9b05688c2b3e6c1f, 0x1f83d9abfb41bd6b, 0x5be0cd19137e2179]
IVS = [0x6A09E667, 0xBB67AE85, 0x3C6EF372, 0xA54FF53A, 0x510E527F, 0x9B05688C, 0x1F83D9AB, 0x5BE0CD19]


def blake2_compress_spec(h, t, m, last, w):
    """RFC 7693 3.2 compression function F"""
    iv, rounds, rot = (IVB, 12, (32, 24, 16, 63)) if w == 64 else (IVS, 10, (16, 12, 8, 7))
    v = list(h) + [B.const(x, w) for x in iv]
    v[12] = v[12] ^ t[0]
    v[13] = v[13] ^ t[1]
    if last:
        v[14] = ~v[14]
    def G(a, b, c, d, x, y):
        v[a] = v[a] + v[b] + x
        v[d] = (v[d] ^ v[a]).rotr(rot[0])
        v[c] = v[c] + v[d]
        v[b] = (v[b] ^ v[c]).rotr(rot[1])
        v[a] = v[a] + v[b] + y
        v[d] = (v[d] ^ v[a]).rotr(rot[2])
        v[c] = v[c] + v[d]
        v[b] = (v[b] ^ v[c]).rotr(rot[3])
    for r in range(rounds):
        s = SIGMA[r % 10]
        G(0, 4, 8, 12, m[s[0]], m[s[1]])
        G(1, 5, 9, 13, m[s[2]], m[s[3]])
        G(2, 6, 10, 14, m[s[4]], m[s[5]])
        G(3, 7, 11, 15, m[s[6]], m[s[7]])
        G(0, 5, 10, 15, m[s[8]], m[s[9]])
        G(1, 6, 11, 12, m[s[10]], m[s[11]])
        G(2, 7, 8, 13, m[s[12]], m[s[13]])
        G(3, 4, 9, 14, m[s[14]], m[s[15]])
    return [h[i] ^ v[i] ^ v[i + 8] for i in range(8)]


def blake2_kernel(w, last):
    def spec(I, R):
        from interp import EnumV
        ty = "u%d" % w
        nb = w // 8
        h = [B.var("h%d" % i, w) for i in range(8)]
        t = [B.var("t%d" % i, w) for i in range(2)]
        mb = [B.var("m%d" % i, 8) for i in range(16 * nb)]
        hc = Cell(AggV([BvV(x, ty) for x in h]))
        tc = Cell(AggV([BvV(x, ty) for x in t]))
        bc = Cell(AggV([BvV(x, "u8") for x in mb]))
        f = I.find_fn_re(r"^fn (\S*::)?compress_%s\(" % ("b" if w == 64 else "s"))
        I.run(f, [RefV(hc, ()), RefV(tc, ()), RefV(bc, (), (0, 16 * nb)), EnumV("Yes" if last else "No", [])])
        m = [B.concat_le(mb[nb * i:nb * i + nb]) for i in range(16)]
        want = blake2_compress_spec(h, t, m, last, w)
        for i in range(8):
            R.bveq(hc.v.f[i].b, want[i], "BLAKE2%s compression F (RFC 7693 3.2), %s block: h[%d]" % ("b" if w == 64 else "s", "last" if last else "non-last", i))
        for i in range(2):
            R.bveq(tc.v.f[i].b, t[i], "BLAKE2 compression leaves the counter alone: t[%d]" % i)
        hn, tn, mn = ["h%d" % i for i in range(8)], ["t%d" % i for i in range(2)], ["m%d" % i for i in range(16 * nb)]

        def bspec(md):
            mb8 = _cv(md, mn, 8)
            mm = [B.concat_le(mb8[nb * i:nb * i + nb]) for i in range(16)]
            return _ints(blake2_compress_spec(_cv(md, hn, w), _cv(md, tn, w), mm, last, w)) + _ints(_cv(md, tn, w))
        R.bvnative = dict(harness="zz_native_kernel_blake2", op=44 if w == 64 else 45, layout=[(1 if last else 0, 1)] + [(n, nb) for n in hn + tn] + [(n, 1) for n in mn], spec=bspec)
    return spec


RMD_R = [list(range(16)),
         [7, 4, 13, 1, 10, 6, 15, 3, 12, 0, 9, 5, 2, 14, 11, 8], [3, 10, 14, 4, 9, 15, 8, 1, 2, 7, 0, 6, 13, 11, 5, 12],
         [1, 9, 11, 10, 0, 8, 12, 4, 13, 3, 7, 15, 14, 5, 6, 2], [4, 0, 5, 9, 7, 12, 2, 10, 14, 1, 3, 8, 11, 6, 15, 13]]
RMD_RP = [[5, 14, 7, 0, 9, 2, 11, 4, 13, 6, 15, 8, 1, 10, 3, 12], [6, 11, 3, 7, 0, 13, 5, 10, 14, 15, 8, 12, 4, 9, 1, 2],
          [15, 5, 1, 3, 7, 14, 6, 9, 11, 8, 12, 2, 10, 0, 4, 13], [8, 6, 4, 1, 3, 11, 15, 0, 5, 12, 2, 13, 9, 7, 10, 14],
          [12, 15, 10, 4, 1, 5, 8, 7, 6, 2, 13, 14, 0, 3, 9, 11]]
RMD_S = [[11, 14, 15, 12, 5, 8, 7, 9, 11, 13, 14, 15, 6, 7, 9, 8], [7, 6, 8, 13, 11, 9, 7, 15, 7, 12, 15, 9, 11, 7, 13, 12],
         [11, 13, 6, 7, 14, 9, 13, 15, 14, 8, 13, 6, 5, 12, 7, 5], [11, 12, 14, 15, 14, 15, 9, 8, 9, 14, 5, 6, 8, 6, 5, 12],
         [9, 15, 5, 11, 6, 8, 13, 12, 5, 12, 13, 14, 11, 8, 5, 6]]
RMD_SP = [[8, 9, 9, 11, 13, 15, 15, 5, 7, 7, 8, 11, 14, 14, 12, 6], [9, 13, 15, 7, 12, 8, 9, 11, 7, 7, 12, 7, 6, 15, 13, 11],
          [9, 7, 15, 11, 8, 6, 6, 14, 12, 13, 5, 14, 13, 13, 7, 5], [15, 5, 8, 11, 14, 14, 6, 14, 6, 9, 12, 9, 12, 5, 15, 8],
          [8, 5, 12, 9, 12, 5, 14, 6, 8, 13, 6, 5, 15, 13, 11, 11]]
RMD_K = [0, 0x5A827999, 0x6ED9EBA1, 0x8F1BBCDC, 0xA953FD4E]
RMD_KP = [0x50A28BE6, 0x5C4DD124, 0x6D703EF3, 0x7A6D76E9, 0]


def ripemd160_compress_spec(h, X):
    """Dobbertin, Bosselaers, Preneel: RIPEMD-160 (1996), appendix A pseudo-code"""
    def f(j, x, y, z):
        return [x ^ y ^ z, (x & y) | (~x & z), (x | ~y) ^ z, (x & z) | (y & ~z), x ^ (y | ~z)][j]
    A, Bv, C, D, E = h
    Ap, Bp, Cp, Dp, Ep = h
    for j in range(80):
        g = j // 16
        T = (A + f(g, Bv, C, D) + X[RMD_R[g][j % 16]] + B.const(RMD_K[g], 32)).rotl(RMD_S[g][j % 16]) + E
        A, E, D, C, Bv = E, D, C.rotl(10), Bv, T
        T = (Ap + f(4 - g, Bp, Cp, Dp) + X[RMD_RP[g][j % 16]] + B.const(RMD_KP[g], 32)).rotl(RMD_SP[g][j % 16]) + Ep
        Ap, Ep, Dp, Cp, Bp = Ep, Dp, Cp.rotl(10), Bp, T
    return [h[1] + C + Dp, h[2] + D + Ep, h[3] + E + Ap, h[4] + A + Bp, h[0] + Bv + Cp]


def ripemd160_kernel(I, R):
    H = [B.var("h%d" % i, 32) for i in range(5)]
    M = [B.var("m%d" % i, 8) for i in range(64)]
    st = Cell(AggV([BvV(x, "u32") for x in H]))
    msg = Cell(AggV([BvV(x, "u8") for x in M]))
    f = I.find_fn_re(r"^fn (\S*::)?process_msg_block\(_1: &\[u8\], _2: &mut \[u32; 5\]\)")
    I.run(f, [RefV(msg, (), (0, 64)), RefV(st, ())])
    want = ripemd160_compress_spec(H, [B.concat_le(M[4 * i:4 * i + 4]) for i in range(16)])
    for i in range(5):
        R.bveq(st.v.f[i].b, want[i], "RIPEMD-160 compression (Dobbertin/Bosselaers/Preneel 1996, app. A): state word %d" % i)
    hn, mn = ["h%d" % i for i in range(5)], ["m%d" % i for i in range(64)]

    def rspec(md):
        m8 = _cv(md, mn, 8)
        return _ints(ripemd160_compress_spec(_cv(md, hn, 32), [B.concat_le(m8[4 * i:4 * i + 4]) for i in range(16)]))
    R.bvnative = dict(harness="zz_native_kernel_rmd", op=46, layout=[(n, 4) for n in hn] + [(n, 1) for n in mn], spec=rspec)


def _cv(model, names, w):
    return [B.const(model.get(n, 0), w) for n in names]


def _ints(bs):
    return [b.cval() for b in bs]


BVSPECS = {
    "sha256_compress": dict(prop=["C01"], bv=True, fn=sha256_kernel, desc="impl256::reference::digest_block_u32 == FIPS 180-4 SHA-256 compression function"),
    "sha512_compress": dict(prop=["C01"], bv=True, fn=sha512_kernel, desc="impl512 digest_block_u64 == FIPS 180-4 SHA-512 compression function"),
    "sha1_compress": dict(prop=["C01"], bv=True, fn=sha1_kernel, desc="sha1::digest_block_u32 == FIPS 180-4 SHA-1 compression function"),
    "keccak_f": dict(prop=["C01"], bv=True, fn=keccak_kernel, desc="sha3::keccak_f == Keccak-f[1600] (FIPS 202)"),
    "ripemd160_compress": dict(prop=["C01"], bv=True, fn=ripemd160_kernel, desc="ripemd160::process_msg_block == RIPEMD-160 compression function"),
    "blake2b_compress": dict(prop=["C01"], bv=True, fn=blake2_kernel(64, False), desc="blake2::reference::compress_b == RFC 7693 F, non-last block"),
    "blake2b_compress_last": dict(prop=["C01"], bv=True, fn=blake2_kernel(64, True), desc="blake2::reference::compress_b == RFC 7693 F, last block"),
    "blake2s_compress": dict(prop=["C01"], bv=True, fn=blake2_kernel(32, False), desc="blake2::reference::compress_s == RFC 7693 F, non-last block"),
    "blake2s_compress_last": dict(prop=["C01"], bv=True, fn=blake2_kernel(32, True), desc="blake2::reference::compress_s == RFC 7693 F, last block"),
}


def selftest():
    """the specification side, evaluated on constants, must reproduce known digests (python hashlib) -- guards the transcriptions
    of the standards above independently of the crate. Returns a list of failures."""
    import hashlib
    bad = []
    def words(bs, n, be=True):
        return [int.from_bytes(bs[i * n:(i + 1) * n], "big" if be else "little") for i in range(len(bs) // n)]
    def c(xs, w):
        return [B.const(x, w) for x in xs]
    iv = [0x6a09e667, 0xbb67ae85, 0x3c6ef372, 0xa54ff53a, 0x510e527f, 0x9b05688c, 0x1f83d9ab, 0x5be0cd19]
    out = sha256_compress_spec(c(iv, 32), c(bytes([0x80] + [0] * 63), 8))
    if b"".join(o.cval().to_bytes(4, "big") for o in out) != hashlib.sha256(b"").digest():
        bad.append("sha256")
    blk = bytes([0x61, 0x80] + [0] * 125 + [8])
    out = sha512_compress_spec(c(IVB, 64), c(words(blk, 8), 64))
    if b"".join(o.cval().to_bytes(8, "big") for o in out) != hashlib.sha512(b"a").digest():
        bad.append("sha512")
    iv1 = [0x67452301, 0xEFCDAB89, 0x98BADCFE, 0x10325476, 0xC3D2E1F0]
    blk = bytes([0x61, 0x80] + [0] * 61 + [8])
    out = sha1_compress_spec(c(iv1, 32), c(words(blk, 4), 32))
    if b"".join(o.cval().to_bytes(4, "big") for o in out) != hashlib.sha1(b"a").digest():
        bad.append("sha1")
    st = bytearray(200)
    st[0] = 0x06
    st[135] ^= 0x80
    S8 = c(st, 8)
    o = keccak_f_spec([[B.concat_le(S8[8 * (x + 5 * y):8 * (x + 5 * y) + 8]) for y in range(5)] for x in range(5)])
    if b"".join(o[x][y].cval().to_bytes(8, "little") for y in range(5) for x in range(5))[:32] != hashlib.sha3_256(b"").digest():
        bad.append("keccak_f")
    h = list(IVB)
    h[0] ^= 0x01010040
    out = blake2_compress_spec(c(h, 64), c([0, 0], 64), c([0] * 16, 64), True, 64)
    if b"".join(o.cval().to_bytes(8, "little") for o in out) != hashlib.blake2b(b"").digest():
        bad.append("blake2b")
    h = list(IVS)
    h[0] ^= 0x01010020
    out = blake2_compress_spec(c(h, 32), c([3, 0], 32), c(words(b"abc" + bytes(61), 4, False), 32), True, 32)
    if b"".join(o.cval().to_bytes(4, "little") for o in out) != hashlib.blake2s(b"abc").digest():
        bad.append("blake2s")
    try:
        want = hashlib.new("ripemd160", b"abc").digest()
        blk = b"abc" + bytes([0x80]) + bytes(52) + (24).to_bytes(8, "little")
        out = ripemd160_compress_spec(c(iv1, 32), c(words(blk, 4, False), 32))
        if b"".join(o.cval().to_bytes(4, "little") for o in out) != want:
            bad.append("ripemd160")
    except ValueError:
        pass        # this python's OpenSSL has no ripemd160: transcription then rests on the crate's own test vectors only
    return bad
