"""Specifications (Int domain) of the limb-arithmetic functions, written against the mathematics, not the code.

Each spec is a function spec(I, R) where I is an Interp (symbolic or concrete mode) and R a Recorder with
  R.range(poly, lo, hi, what) / R.congruent(poly_a, poly_b, modulus, what) / R.equal(poly_a, poly_b, what)
It declares the input atoms with their assumed ranges (the operand discipline), runs the real MIR body and states
the post-conditions. The same spec is re-run in concrete mode on a solver model to confirm a counterexample.
"""
from poly import Poly
from interp import IntV, AggV, RefV, Cell, BoolV, UnitV

P25519 = (1 << 255) - 19
P1305 = (1 << 130) - 5
L25519 = (1 << 252) + 27742317777372353535851937790883648493


def val(limbs, bits):
    p = Poly()
    for i, l in enumerate(limbs):
        p = p + l.p.scale(1 << (bits * i))
    return p


def ref(v):
    return RefV(Cell(v), ())


# ------------------------------------------------------------------------------------------------ Poly1305::block
def poly1305_block(final):
    def spec(I, R):
        # clamped r limbs (what new() produces: C05 harness c05_new_clamp_and_limbs), accumulator in the limb invariant I_h
        rmax = [0x3ffffff, 0x3ffff03, 0x3ffc0ff, 0x3f03fff, 0x00fffff]
        r = AggV([I.input("r%d" % i, "u32", 0, rmax[i]) for i in range(5)])
        hmax = [0x3ffffff, 0x3ffffff + 128, 0x3ffffff, 0x3ffffff, 0x3ffffff]
        h = AggV([I.input("h%d" % i, "u32", 0, hmax[i]) for i in range(5)])
        # 16 message bytes; bytes straddling a 26-bit limb boundary are split into (low, high) bit fields so that limb extraction is exact
        split = {3: 2, 6: 4, 9: 6}
        mb, mval = [], Poly()
        for j in range(16):
            if j in split:
                lo = I.input("m%dl" % j, "u8", 0, (1 << split[j]) - 1)
                hi = I.input("m%dh" % j, "u8", 0, (1 << (8 - split[j])) - 1)
                b = IntV(lo.p + hi.p.scale(1 << split[j]), "u8")
            else:
                b = I.input("m%d" % j, "u8", 0, 255)
            mb.append(b)
            mval = mval + b.p.scale(1 << (8 * j))
        pad = AggV([I.const(0, "u32") for _ in range(4)])
        st = AggV([r, h, pad, I.const(0, "usize"), AggV([I.const(0, "u8") for _ in range(16)]), BoolV(final)])
        cell = Cell(st)
        msg = Cell(AggV(mb))
        vh, vr, r0 = val(h.f, 26), val(r.f, 26), [x.p for x in r.f]   # snapshots: the call mutates the context in place
        f = I.find_fn_re(r"^fn poly1305::<impl at src/poly1305\.rs:[^>]*>::block\(_1: &mut Poly1305, _2: &\[u8\]\)")
        I.run(f, [RefV(cell, ()), RefV(msg, (), (0, 16))])
        h2 = cell.v.f[1].f
        for i in range(5):
            R.range(h2[i].p, 0, hmax[i], "block: h'[%d] within the limb invariant I_h" % i)
        hib = 0 if final else (1 << 128)
        want = (vh + mval + Poly.const(hib)) * vr
        R.congruent(val(h2, 26), want, P1305, "block: h' == (h + m + hibit*2^128) * r (mod 2^130-5)")
        for i in range(5):
            R.equal(cell.v.f[0].f[i].p, r0[i], "block: r untouched")
    return spec


# ------------------------------------------------------------------------------------------------ fe64
FE64 = r"^fn fe64::<impl at src/curve25519/fe/fe64/mod\.rs:[^>]*>::"
T51 = (1 << 51) - 1
# limb classes (closed under the operations as proved below):
#   TIGHT : every limb <= 2^51 - 1 + 2^16   (output of add/sub/neg/mul/square/mul_small)
#   LOOSE : every limb <= 2^53 - 76         (contains TIGHT, sums of two TIGHT, doubled squares; accepted by every operation)
TIGHT = T51 + (1 << 16)
LOOSE = (1 << 53) - 76      # = FOUR_P0, the smallest limb of the 4p bias: anything below can be a subtrahend


def fe_in(I, name, hi):
    return AggV([I.input_array(name, 5, "u64", 0, hi)])


def fe_limbs(v):
    return v.f[0].f


def fe64_binop(fname, sig, op, in_hi=(LOOSE, LOOSE), out_hi=TIGHT):
    def spec(I, R):
        a, b = fe_in(I, "a", in_hi[0]), fe_in(I, "b", in_hi[1])
        f = I.find_fn_re(FE64 + fname + sig)
        out = I.run(f, [ref(a), ref(b)])
        o = fe_limbs(out)
        for i in range(5):
            R.range(o[i].p, 0, out_hi, "%s: output limb %d in class TIGHT" % (fname, i))
        va, vb = val(fe_limbs(a), 51), val(fe_limbs(b), 51)
        want = {"add": va + vb, "sub": va - vb, "mul": va * vb}[op]
        R.congruent(val(o, 51), want, P25519, "%s: value == a %s b (mod 2^255-19)" % (fname, {"add": "+", "sub": "-", "mul": "*"}[op]))
    return spec


def fe64_unop(fname, sig, op, in_hi=LOOSE, out_hi=TIGHT, mutref=False):
    def spec(I, R):
        a = fe_in(I, "a", in_hi)
        f = I.find_fn_re(FE64 + fname + sig)
        if mutref:
            c = Cell(a)
            orig = [x.p for x in fe_limbs(a)]
            I.run(f, [RefV(c, ())])
            o = fe_limbs(c.v)
            va = Poly()
            for i, x in enumerate(orig):
                va = va + x.scale(1 << (51 * i))
        else:
            out = I.run(f, [ref(a)])
            o = fe_limbs(out)
            va = val(fe_limbs(a), 51)
        for i in range(5):
            R.range(o[i].p, 0, out_hi, "%s: output limb %d within its class" % (fname, i))
        want = {"neg": -va, "square": va * va, "square2": (va * va).scale(2), "mul121666": va.scale(121666), "mul9": va.scale(9)}[op]
        R.congruent(val(o, 51), want, P25519, "%s: value (mod 2^255-19)" % fname)
    return spec


def fe64_to_packed(in_hi):
    """to_packed: four 64-bit words whose little-endian value is the CANONICAL representative: == value (mod p) and < p"""
    def spec(I, R):
        a = fe_in(I, "a", in_hi)
        va = val(fe_limbs(a), 51)
        f = I.find_fn_re(FE64 + r"to_packed\(_1: &fe64::Fe\)")
        out = I.run(f, [ref(a)])
        w = out.f
        for i in range(4):
            R.range(w[i].p, 0, (1 << 64) - 1, "to_packed: word %d is a u64" % i)
        v = val(w, 64)
        R.congruent(v, va, P25519, "to_packed: value == input (mod 2^255-19)")
        R.range(v, 0, P25519 - 1, "to_packed: canonical (0 <= value < 2^255-19; bit 255 clear)")
    return spec


def fe64_from_bytes(I, R):
    """from_bytes: limbs < 2^51, value == little-endian value of the 32 bytes with bit 255 ignored"""
    # bytes straddling a 51-bit limb boundary are split into bit fields: bit 51 = byte 6 bit 3, 102 = byte 12 bit 6, 153 = byte 19 bit 1, 204 = byte 25 bit 4, 255 = byte 31 bit 7
    split = {6: 3, 12: 6, 19: 1, 25: 4, 31: 7}
    bs, v = [], Poly()
    for j in range(32):
        if j in split:
            lo = I.input("s%dl" % j, "u8", 0, (1 << split[j]) - 1)
            hi = I.input("s%dh" % j, "u8", 0, (1 << (8 - split[j])) - 1)
            b = IntV(lo.p + hi.p.scale(1 << split[j]), "u8")
            if j == 31:
                v = v + lo.p.scale(1 << 248)          # bit 255 (the high field of byte 31) is ignored
            else:
                v = v + b.p.scale(1 << (8 * j))
        else:
            b = I.input("s%d" % j, "u8", 0, 255)
            v = v + b.p.scale(1 << (8 * j))
        bs.append(b)
    f = I.find_fn_re(FE64 + r"from_bytes\(_1: &\[u8; 32\]\)")
    out = I.run(f, [ref(AggV(bs))])
    o = fe_limbs(out)
    for i in range(5):
        R.range(o[i].p, 0, T51, "from_bytes: limb %d < 2^51" % i)
    R.equal(val(o, 51), v, "from_bytes: value == le256(bytes) mod 2^255 (bit 255 ignored)")


SPECS = {
    "poly1305_block": dict(prop=["C05", "C20"], fn=poly1305_block(False), desc="Poly1305::block, full block (hibit set)"),
    "poly1305_block_final": dict(prop=["C05", "C20"], fn=poly1305_block(True), desc="Poly1305::block, final partial block (hibit clear)"),
    "fe64_add": dict(prop=["C15", "C12", "C20"], cfg="fe64", fn=fe64_binop("add", r"\(_1: &fe64::Fe, _2: &fe64::Fe\)", "add"), desc="&Fe + &Fe"),
    "fe64_sub": dict(prop=["C15", "C12", "C20"], cfg="fe64", fn=fe64_binop("sub", r"\(_1: &fe64::Fe, _2: &fe64::Fe\)", "sub"), desc="&Fe - &Fe"),
    "fe64_mul": dict(prop=["C15", "C12", "C20"], cfg="fe64", fn=fe64_binop("mul", r"\(_1: &fe64::Fe, _2: &fe64::Fe\)", "mul"), desc="&Fe * &Fe"),
    "fe64_neg": dict(prop=["C15", "C20"], cfg="fe64", fn=fe64_unop("neg", r"\(_1: &fe64::Fe\)", "neg"), desc="-&Fe"),
    "fe64_negate_mut": dict(prop=["C15", "C20"], cfg="fe64", fn=fe64_unop("negate_mut", r"\(_1: &mut fe64::Fe\)", "neg", mutref=True), desc="Fe::negate_mut"),
    "fe64_square": dict(prop=["C15", "C12", "C20"], cfg="fe64", fn=fe64_unop("square", r"\(_1: &fe64::Fe\)", "square"), desc="Fe::square"),
    "fe64_square_and_double": dict(prop=["C15", "C20"], cfg="fe64", fn=fe64_unop("square_and_double", r"\(_1: &fe64::Fe\)", "square2", out_hi=2 * TIGHT), desc="Fe::square_and_double"),
    "fe64_to_packed": dict(prop=["C15", "C12", "C20"], cfg="fe64", fn=fe64_to_packed(LOOSE), desc="Fe::to_packed (canonical encoding) for every limb vector in class LOOSE"),
    "fe64_from_bytes": dict(prop=["C15", "C12", "C20"], cfg="fe64", fn=fe64_from_bytes, desc="Fe::from_bytes"),
    "fe64_mul_small_121666": dict(prop=["C15", "C12", "C20"], cfg="fe64", fn=fe64_unop("mul_small", r"\(_1: &fe64::Fe\)", "mul121666"), desc="Fe::mul_small::<121666>", generic={"S0": (121666, "u32")}),
}
