// src/cryptoutil.rs — byte/word conversion helpers, keystream XOR, FixedBuffer (child module of crate::cryptoutil).
// Serves C01/C02 (buffering, padding), C04 (xor_keystream_mut contract) and C20 (the unsafe pointer loops stay inside
// their slices for every length; Kani's pointer checks are on in all of these).
#![allow(dead_code, unused_imports, missing_docs)]
use super::*;
use crate::verif_lib::*;

/// xor_keystream_mut(buf, ks): buf[i] ^= ks[i] for i < buf.len(); nothing else written; ks may be longer than buf.
/// Shapes as used by the cipher contexts: ks is a tail &block[s..] of a B-byte block (s symbolic), buf a length-n slice (n symbolic).
/// CBMC cost grows steeply with B (24: 26 s, 32: 47 s, 64: 513 s), so quick decides B = 32 and thorough the real B = 64.
fn case_xor<const B: usize>() {
    let block: [u8; B] = any();
    let s: usize = any();
    let orig: [u8; B] = any();
    let n: usize = any();
    assume(s <= B && n <= B - s);
    vcover!(n == B && s == 0, "whole block");
    vcover!(n == 0, "empty");
    vcover!(s == B - 3 && n == 3, "last three keystream bytes");
    let mut buf = orig;
    xor_keystream_mut(&mut buf[..n], &block[s..]);
    let mut i = 0;
    while i < B {
        if i < n {
            vassert!(buf[i] == orig[i] ^ block[s + i], "xor_keystream_mut: buf[i] ^= keystream[i]");
        } else {
            vassert!(buf[i] == orig[i], "xor_keystream_mut: bytes outside the slice untouched");
        }
        i += 1;
    }
}
#[cfg_attr(kani, kani::proof)]
#[cfg_attr(kani, kani::unwind(34))]
pub(crate) fn c04_xor_keystream_mut_b32() {
    case_xor::<32>();
}
#[cfg_attr(kani, kani::proof)]
#[cfg_attr(kani, kani::unwind(66))]
pub(crate) fn c04_t_xor_keystream_mut_b64() {
    case_xor::<64>();
}

/// destination is a strict sub-slice of a larger buffer (as in process_mut: &mut data[i..i + count]); small sizes
#[cfg_attr(kani, kani::proof)]
#[cfg_attr(kani, kani::unwind(10))]
pub(crate) fn c04_xor_keystream_mut_subslice() {
    let ks: [u8; 8] = any();
    let orig: [u8; 8] = any();
    let (s, at, n): (usize, usize, usize) = (any(), any(), any());
    assume(s <= 8 && at <= 8 && n <= 8 - at && n <= 8 - s);
    vcover!(at > 0 && at + n < 8 && n > 1, "strict sub-slice");
    let mut buf = orig;
    xor_keystream_mut(&mut buf[at..at + n], &ks[s..]);
    let mut i = 0;
    while i < 8 {
        if i >= at && i < at + n {
            vassert!(buf[i] == orig[i] ^ ks[s + (i - at)], "xor_keystream_mut: buf[i] ^= keystream[i]");
        } else {
            vassert!(buf[i] == orig[i], "xor_keystream_mut: bytes outside the slice untouched");
        }
        i += 1;
    }
}

/// more input than keystream is refused (never a short or out-of-bounds XOR)
#[cfg_attr(kani, kani::proof)]
#[cfg_attr(kani, kani::should_panic)]
#[cfg_attr(kani, kani::unwind(10))]
pub(crate) fn c20_xor_keystream_mut_short_keystream_panics() {
    let ks: [u8; 8] = any();
    let mut buf: [u8; 8] = any();
    let kl: usize = any();
    let bl: usize = any();
    assume(kl <= 8 && bl <= 8 && bl > kl);
    xor_keystream_mut(&mut buf[..bl], &ks[..kl]);
    vcover!(true, "MUST-NOT: returned normally instead of refusing");
}
