// C03 / C04 — the three ChaCha cipher contexts of src/chacha20.rs (child module of crate::chacha20).
//
// Inductive step: from an ARBITRARY context (16 arbitrary state words — so every counter value incl. 2^32-1 and
// 2^64-1 —, arbitrary cached block, every offset 0..=64) one process_mut call on a symbolic-length buffer gives
//     data'[i] = data[i] ^ KS[i],   KS = cached[offset..] ++ block(state) ++ block(state+1) ++ ...
// leaves offset / counter / cached block exactly where the specification's position arithmetic puts them.
// The block function is instantiated with ROUNDS = 2 (one real double round; only possible in-crate) so that the
// whole real code path (update -> rounds -> add_back -> output_bytes -> increment -> xor_keystream_mut) stays in the
// formula and is compared with the RFC transcription of crate::chacha::verif_chacha.  Any partition of a message,
// the involution, seek-then-read and clone-continuation are consequences of this one lemma (DESIGN.md 4/C04).
#![allow(dead_code, unused_imports, missing_docs)]
use super::*;
use crate::chacha::verif_chacha::*;
use crate::verif_lib::*;

#[derive(Clone, Copy, PartialEq)]
pub(crate) enum Ctr {
    C32,
    C64,
}

pub(crate) trait Ctx: Clone {
    /// specification: state after advancing the block counter by one
    fn spec_adv(w: &[u32; 16]) -> [u32; 16];
    /// specification: block function with `dr` double rounds
    fn spec_blk(w: &[u32; 16], dr: usize) -> [u8; 64];
    fn mk(w: [u32; 16], output: [u8; 64], offset: usize) -> Self;
    fn words(&self) -> [u32; 16];
    fn cached(&self) -> [u8; 64];
    fn off(&self) -> usize;
    fn pm(&mut self, data: &mut [u8]);
    fn p(&mut self, input: &[u8], output: &mut [u8]);
    fn upd(&mut self);
    fn cached_addr(&self) -> usize;
}

macro_rules! impl_ctx {
    ($t:ident, $ctr:expr) => {
        impl<const R: usize> Ctx for $t<R> {
            fn spec_adv(w: &[u32; 16]) -> [u32; 16] {
                spec_advance(w, $ctr)
            }
            fn spec_blk(w: &[u32; 16], dr: usize) -> [u8; 64] {
                spec_block(w, dr)
            }
            fn mk(w: [u32; 16], output: [u8; 64], offset: usize) -> Self {
                $t { state: from_words::<R>(w), output, offset }
            }
            fn words(&self) -> [u32; 16] {
                to_words(&self.state)
            }
            fn cached(&self) -> [u8; 64] {
                self.output
            }
            fn off(&self) -> usize {
                self.offset
            }
            fn pm(&mut self, data: &mut [u8]) {
                self.process_mut(data)
            }
            fn p(&mut self, input: &[u8], output: &mut [u8]) {
                self.process(input, output)
            }
            fn upd(&mut self) {
                self.update()
            }
            fn cached_addr(&self) -> usize {
                self.output.as_ptr() as usize
            }
        }
    };
}
impl_ctx!(ChaCha, Ctr::C32);
impl_ctx!(XChaCha, Ctr::C32);
impl_ctx!(ChaChaOriginal, Ctr::C64);

/// used by the DRG and AEAD harnesses to build an arbitrary cipher context
pub(crate) fn mk_chacha<const R: usize>(w: [u32; 16], output: [u8; 64], offset: usize) -> ChaCha<R> {
    <ChaCha<R> as Ctx>::mk(w, output, offset)
}
pub(crate) fn chacha_parts<const R: usize>(c: &ChaCha<R>) -> ([u32; 16], [u8; 64], usize) {
    (c.words(), c.cached(), c.off())
}

/// specification: state after advancing the block counter by one
pub(crate) fn spec_advance(w: &[u32; 16], ctr: Ctr) -> [u32; 16] {
    let mut n = *w;
    match ctr {
        Ctr::C32 => n[12] = w[12].wrapping_add(1),
        Ctr::C64 => {
            let c = ((w[12] as u64) | ((w[13] as u64) << 32)).wrapping_add(1);
            n[12] = c as u32;
            n[13] = (c >> 32) as u32;
        }
    }
    n
}

/// specification block function with `dr` double rounds (RFC 8439 2.3)
pub(crate) fn spec_block(w: &[u32; 16], dr: usize) -> [u8; 64] {
    let mut s = *w;
    let mut i = 0;
    while i < dr {
        spec_double_round(&mut s);
        i += 1;
    }
    let mut i = 0;
    while i < 16 {
        s[i] = s[i].wrapping_add(w[i]);
        i += 1;
    }
    spec_output_bytes(&s)
}

// ---- ghost recorders (Kani only): loop-free models of the two callees of process_mut ----------------------------
// Contracts the models stand for are decided by their own harnesses on the REAL code:
//   update()            : c03_ctx_update_*   (cached block = block(state), counter + 1, offset = 0)
//   xor_keystream_mut() : c04_xor_keystream_mut (buf[i] ^= keystream[i] for i < buf.len(), nothing else written)
pub(crate) const NLOG: usize = 5;
pub(crate) static mut GEN: usize = 0; // number of update() calls so far
pub(crate) static mut UBLK: [[u8; 64]; NLOG] = [[0u8; 64]; NLOG]; // block produced by the k-th update()
pub(crate) static mut XN: usize = 0; // number of xor_keystream_mut() calls so far
pub(crate) static mut XD: [usize; NLOG] = [0; NLOG]; // address of the destination slice
pub(crate) static mut XC: [usize; NLOG] = [0; NLOG]; // its length
pub(crate) static mut XK: [usize; NLOG] = [0; NLOG]; // address of the keystream slice
pub(crate) static mut XL: [usize; NLOG] = [0; NLOG]; // its length
pub(crate) static mut XG: [usize; NLOG] = [0; NLOG]; // GEN at the time of the call (which block the cache holds)

#[cfg(kani)]
pub(crate) fn xor_rec(buf: &mut [u8], keystream: &[u8]) {
    assert!(buf.len() <= keystream.len());
    unsafe {
        if XN < NLOG {
            XD[XN] = buf.as_ptr() as usize;
            XC[XN] = buf.len();
            XK[XN] = keystream.as_ptr() as usize;
            XL[XN] = keystream.len();
            XG[XN] = GEN;
        }
        XN += 1;
    }
}
#[cfg(kani)]
pub(crate) fn upd_common(adv: fn(&[u32; 16]) -> [u32; 16], w: [u32; 16]) -> ([u32; 16], [u8; 64]) {
    let blk: [u8; 64] = kani::any();
    unsafe {
        if GEN < NLOG {
            UBLK[GEN] = blk;
        }
        GEN += 1;
    }
    (adv(&w), blk)
}
#[cfg(kani)]
pub(crate) fn chacha_update_rec<const ROUNDS: usize>(c: &mut ChaCha<ROUNDS>) {
    let (w, blk) = upd_common(<ChaCha<2> as Ctx>::spec_adv, to_words(&c.state));
    c.state = from_words(w);
    c.output = blk;
    c.offset = 0;
}
#[cfg(kani)]
pub(crate) fn xchacha_update_rec<const ROUNDS: usize>(c: &mut XChaCha<ROUNDS>) {
    let (w, blk) = upd_common(<ChaCha<2> as Ctx>::spec_adv, to_words(&c.state));
    c.state = from_words(w);
    c.output = blk;
    c.offset = 0;
}
#[cfg(kani)]
pub(crate) fn chachaorig_update_rec<const ROUNDS: usize>(c: &mut ChaChaOriginal<ROUNDS>) {
    let (w, blk) = upd_common(<ChaChaOriginal<2> as Ctx>::spec_adv, to_words(&c.state));
    c.state = from_words(w);
    c.output = blk;
    c.offset = 0;
}

/// specification: where does the keystream byte for stream-relative index j come from?  -> (generation, offset in block)
/// generation 0 = the block cached on entry, generation g >= 1 = the g-th block generated from the entry state
pub(crate) fn spec_source(offset: usize, j: usize) -> (usize, usize) {
    let avail = 64 - offset;
    if j < avail {
        (0, offset + j)
    } else {
        (1 + ((j - avail) >> 6), (j - avail) & 63)
    }
}

/// process_mut step, data length 0..=MAX.
/// Under Kani: update()/xor_keystream_mut() recorded; the CALL SEQUENCE is compared with the position arithmetic of the
/// specification.  Natively (replay of a counterexample): real callees, the BYTES are compared with the specification keystream.
pub(crate) fn case_process_mut_step<C: Ctx, const MAX: usize>(dr: usize) {
    let w: [u32; 16] = any();
    let cached: [u8; 64] = any();
    let offset: usize = any();
    let data = Bytes::<MAX>::any();
    assume(offset <= 64);
    let len = data.len;
    vcover!(offset == 64 && len > 0, "empty cache");
    vcover!(offset == 0 && len == 64, "exactly the cached block");
    vcover!(offset == 17 && len == 47, "ends exactly at the block boundary");
    vcover!(offset == 63 && len > 65, "1 cached byte, then more than a block");
    vcover!(len == 0, "empty input");
    vcover!(len == MAX, "longest input");
    vcover!(w[12] == u32::MAX, "counter low word about to wrap");

    let mut c = C::mk(w, cached, offset);
    let mut buf = data.buf;
    c.pm(&mut buf[..len]);

    let fresh = if len > 64 - offset { (len - (64 - offset) + 63) >> 6 } else { 0 }; // blocks the specification consumes
    #[cfg(kani)]
    unsafe {
        let dbase = buf.as_ptr() as usize;
        let kbase = c.cached_addr();
        vassert!(XN < NLOG && GEN < NLOG, "process_mut: number of keystream applications / block generations within the model's log");
        let mut k = 0;
        let mut next = dbase;
        while k < NLOG {
            if k < XN {
                vassert!(XD[k] == next, "process_mut: keystream applied to consecutive pieces of the input, in order");
                vassert!(XC[k] <= XL[k], "process_mut: never more input than keystream in one application");
                if XC[k] > 0 {
                    let j0 = XD[k] - dbase;
                    let (g0, o0) = spec_source(offset, j0);
                    let (g1, o1) = spec_source(offset, j0 + XC[k] - 1);
                    vassert!(XG[k] == g0 && XG[k] == g1, "process_mut: piece XORed with the keystream block of its stream position");
                    vassert!(XK[k] == kbase + o0 && o1 == o0 + XC[k] - 1, "process_mut: piece XORed with the keystream bytes of its stream position");
                    vassert!(XL[k] == 64 - o0, "process_mut: keystream slice is the unconsumed tail of the cached block");
                }
                next = XD[k] + XC[k];
            }
            k += 1;
        }
        vassert!(next == dbase + len, "process_mut: every input byte is covered exactly once");
        vassert!(GEN == fresh, "process_mut: one block generated per 64 bytes of keystream consumed beyond the cache");
        // final context
        let exp_off = if len == 0 { offset } else { spec_source(offset, len - 1).1 + 1 };
        vassert!(c.off() == exp_off, "process_mut: offset into the cached block");
        let mut ew = w;
        let mut g = 0;
        while g < NLOG {
            if g < fresh {
                ew = C::spec_adv(&ew);
            }
            g += 1;
        }
        vassert!(words_eq(&c.words(), &ew), "process_mut: block counter advanced by exactly one per generated block, nothing else changed");
        let got = c.cached();
        let exp = if fresh == 0 { cached } else { UBLK[fresh - 1] };
        let mut i = 0;
        while i < 64 {
            vassert!(got[i] == exp[i], "process_mut: cached block is the last generated keystream block");
            i += 1;
        }
    }
    #[cfg(not(kani))]
    {
        // native twin: real update / real xor; bytes against the specification keystream
        let mut blocks = std::vec::Vec::new();
        let mut ws = w;
        for _ in 0..fresh {
            blocks.push(C::spec_blk(&ws, dr));
            ws = C::spec_adv(&ws);
        }
        for i in 0..MAX {
            if i < len {
                let (g, o) = spec_source(offset, i);
                let ks = if g == 0 { cached[o] } else { blocks[g - 1][o] };
                assert!(buf[i] == data.buf[i] ^ ks, "process_mut: piece XORed with the keystream bytes of its stream position");
            } else {
                assert!(buf[i] == data.buf[i], "process_mut: bytes beyond the slice untouched");
            }
        }
        let exp_off = if len == 0 { offset } else { spec_source(offset, len - 1).1 + 1 };
        assert!(c.off() == exp_off, "process_mut: offset into the cached block");
        assert!(words_eq(&c.words(), &ws), "process_mut: block counter advanced by exactly one per generated block, nothing else changed");
        let exp = if fresh == 0 { cached } else { blocks[fresh - 1] };
        assert!(c.cached() == exp, "process_mut: cached block is the last generated keystream block");
    }
    let _ = dr;
}

/// update() contract on the real code: cached block = specification block of the current state, counter + 1, offset 0
pub(crate) fn case_update<C: Ctx>(dr: usize) {
    let w: [u32; 16] = any();
    let cached: [u8; 64] = any();
    let offset: usize = any();
    assume(offset <= 64);
    vcover!(w[12] == u32::MAX, "low counter word at 2^32-1");
    vcover!(w[12] == u32::MAX && w[13] == u32::MAX, "64-bit counter at 2^64-1");
    let mut c = C::mk(w, cached, offset);
    c.upd();
    let exp = C::spec_blk(&w, dr);
    let got = c.cached();
    let mut i = 0;
    while i < 64 {
        vassert!(got[i] == exp[i], "update: cached block == block function of the current state");
        i += 1;
    }
    vassert!(words_eq(&c.words(), &C::spec_adv(&w)), "update: block counter + 1 (32-bit wrap / 64-bit carry per variant), key and nonce untouched");
    vassert!(c.off() == 0, "update: offset reset to 0");
}

/// recorder for process_mut when the subject is process(): address, length and the first bytes of the buffer at call time
pub(crate) static mut PMN: usize = 0;
pub(crate) static mut PM_PTR: usize = 0;
pub(crate) static mut PM_LEN: usize = 0;
pub(crate) static mut PM_HEAD: [u8; 8] = [0; 8];
#[cfg(kani)]
pub(crate) fn pm_note(data: &mut [u8]) {
    unsafe {
        PMN += 1;
        PM_PTR = data.as_ptr() as usize;
        PM_LEN = data.len();
        let mut i = 0;
        while i < 8 {
            if i < data.len() {
                PM_HEAD[i] = data[i];
                data[i] = !data[i]; // visible effect: the caller must hand back what process_mut produced
            }
            i += 1;
        }
    }
}
#[cfg(kani)]
pub(crate) fn chacha_pm_rec<const ROUNDS: usize>(_c: &mut ChaCha<ROUNDS>, data: &mut [u8]) {
    pm_note(data)
}
#[cfg(kani)]
pub(crate) fn xchacha_pm_rec<const ROUNDS: usize>(_c: &mut XChaCha<ROUNDS>, data: &mut [u8]) {
    pm_note(data)
}
#[cfg(kani)]
pub(crate) fn chachaorig_pm_rec<const ROUNDS: usize>(_c: &mut ChaChaOriginal<ROUNDS>, data: &mut [u8]) {
    pm_note(data)
}

/// process(input, output) == copy input to output, then process_mut(output).  Under Kani process_mut is recorded (its own
/// semantics is the step lemma); natively both paths run for real and are compared.
pub(crate) fn case_process_eq<C: Ctx>() {
    let w: [u32; 16] = any();
    let cached: [u8; 64] = any();
    let offset: usize = any();
    assume(offset <= 64);
    let data = Bytes::<6>::any();
    let len = data.len;
    vcover!(len == 6, "longest");
    vcover!(len == 0, "empty");
    let mut a = C::mk(w, cached, offset);
    let mut out = [0x5au8; 6];
    a.p(data.get(), &mut out[..len]);
    #[cfg(kani)]
    unsafe {
        vassert!(PMN == 1 && PM_PTR == out.as_ptr() as usize && PM_LEN == len, "process: exactly one process_mut call, on the whole output buffer");
        let mut i = 0;
        while i < 6 {
            if i < len {
                vassert!(PM_HEAD[i] == data.buf[i], "process: the output buffer holds a copy of the input when process_mut runs");
                vassert!(out[i] == !data.buf[i], "process: returns what process_mut produced");
            } else {
                vassert!(out[i] == 0x5a, "process: output beyond the slice untouched");
            }
            i += 1;
        }
    }
    #[cfg(not(kani))]
    {
        let mut b = C::mk(w, cached, offset);
        let mut buf = data.buf;
        b.pm(&mut buf[..len]);
        assert!(out[..len] == buf[..len], "process: returns what process_mut produced");
        assert!(a.off() == b.off() && words_eq(&a.words(), &b.words()), "process: exactly one process_mut call, on the whole output buffer");
        // fixed non-degenerate variants (a counterexample under the recorder stub often has offset 0/64 or an empty input):
        // entry in the middle of the cached block, with the same state and data
        let mut c2 = [0u8; 64]; // pairwise distinct keystream bytes (the counterexample's cached block is often all zero)
        for i in 0..64 {
            c2[i] = (i as u8).wrapping_mul(37).wrapping_add(11);
        }
        for (o, l) in [(17usize, 6usize), (63, 6), (1, 3), (64, 6)] {
            let mut a2 = C::mk(w, c2, o);
            let mut b2 = C::mk(w, c2, o);
            let mut o2 = [0x5au8; 6];
            a2.p(&data.buf[..l], &mut o2[..l]);
            let mut buf2 = data.buf;
            b2.pm(&mut buf2[..l]);
            assert!(o2[..l] == buf2[..l], "process: returns what process_mut produced");
            assert!(a2.off() == b2.off() && words_eq(&a2.words(), &b2.words()), "process: exactly one process_mut call, on the whole output buffer");
        }
    }
}

pub(crate) fn case_process_len_mismatch<C: Ctx>() {
    let w: [u32; 16] = any();
    let il: usize = any();
    let ol: usize = any();
    assume(il <= 3 && ol <= 3 && il != ol);
    let mut a = C::mk(w, [0u8; 64], 64);
    let input = [0u8; 3];
    let mut out = [0u8; 3];
    a.p(&input[..il], &mut out[..ol]);
    vcover!(true, "MUST-NOT: returned normally instead of refusing");
}

pub(crate) fn case_clone<C: Ctx>() {
    let w: [u32; 16] = any();
    let cached: [u8; 64] = any();
    let offset: usize = any();
    assume(offset <= 64);
    let a = C::mk(w, cached, offset);
    let b = a.clone();
    vassert!(words_eq(&a.words(), &b.words()) && a.off() == b.off(), "clone: same state and offset");
    let (x, y) = (a.cached(), b.cached());
    let mut i = 0;
    while i < 64 {
        vassert!(x[i] == y[i], "clone: same cached block");
        i += 1;
    }
}

// ------------------------------------------------------------------------------------------------ C04
#[cfg_attr(kani, kani::proof)]
#[cfg_attr(kani, kani::unwind(66))]
#[doc = "verif-unwindset: ::process_mut$=6"]
#[cfg_attr(kani, kani::stub(ChaCha::update, chacha_update_rec))]
#[cfg_attr(kani, kani::stub(crate::cryptoutil::xor_keystream_mut, xor_rec))]
pub(crate) fn c04_chacha_process_mut_step() {
    case_process_mut_step::<ChaCha<2>, 136>(1);
}
#[cfg_attr(kani, kani::proof)]
#[cfg_attr(kani, kani::unwind(66))]
#[doc = "verif-unwindset: ::process_mut$=6"]
#[cfg_attr(kani, kani::stub(XChaCha::update, xchacha_update_rec))]
#[cfg_attr(kani, kani::stub(crate::cryptoutil::xor_keystream_mut, xor_rec))]
pub(crate) fn c04_xchacha_process_mut_step() {
    case_process_mut_step::<XChaCha<2>, 136>(1);
}
#[cfg_attr(kani, kani::proof)]
#[cfg_attr(kani, kani::unwind(66))]
#[doc = "verif-unwindset: ::process_mut$=6"]
#[cfg_attr(kani, kani::stub(ChaChaOriginal::update, chachaorig_update_rec))]
#[cfg_attr(kani, kani::stub(crate::cryptoutil::xor_keystream_mut, xor_rec))]
pub(crate) fn c04_chachaorig_process_mut_step() {
    case_process_mut_step::<ChaChaOriginal<2>, 136>(1);
}

/// real update() of the three contexts (ROUNDS = 2: one real double round) against the transcription
#[cfg_attr(kani, kani::proof)]
#[cfg_attr(kani, kani::unwind(66))]
#[cfg_attr(kani, kani::stub(core::arch::x86_64::_mm_add_epi32, crate::verif_lib::mm_add_epi32_model))]
pub(crate) fn c03_ctx_update_chacha() {
    case_update::<ChaCha<2>>(1);
}
#[cfg_attr(kani, kani::proof)]
#[cfg_attr(kani, kani::unwind(66))]
#[cfg_attr(kani, kani::stub(core::arch::x86_64::_mm_add_epi32, crate::verif_lib::mm_add_epi32_model))]
pub(crate) fn c03_ctx_update_xchacha() {
    case_update::<XChaCha<2>>(1);
}
#[cfg_attr(kani, kani::proof)]
#[cfg_attr(kani, kani::unwind(66))]
#[cfg_attr(kani, kani::stub(core::arch::x86_64::_mm_add_epi32, crate::verif_lib::mm_add_epi32_model))]
pub(crate) fn c03_ctx_update_chachaorig() {
    case_update::<ChaChaOriginal<2>>(1);
}

#[cfg_attr(kani, kani::proof)]
#[cfg_attr(kani, kani::unwind(10))]
#[cfg_attr(kani, kani::stub(ChaCha::process_mut, chacha_pm_rec))]
pub(crate) fn c04_chacha_process_eq() {
    case_process_eq::<ChaCha<2>>();
}
#[cfg_attr(kani, kani::proof)]
#[cfg_attr(kani, kani::unwind(10))]
#[cfg_attr(kani, kani::stub(XChaCha::process_mut, xchacha_pm_rec))]
pub(crate) fn c04_xchacha_process_eq() {
    case_process_eq::<XChaCha<2>>();
}
#[cfg_attr(kani, kani::proof)]
#[cfg_attr(kani, kani::unwind(10))]
#[cfg_attr(kani, kani::stub(ChaChaOriginal::process_mut, chachaorig_pm_rec))]
pub(crate) fn c04_chachaorig_process_eq() {
    case_process_eq::<ChaChaOriginal<2>>();
}
#[cfg_attr(kani, kani::proof)]
#[cfg_attr(kani, kani::should_panic)]
#[cfg_attr(kani, kani::unwind(66))]
#[doc = "verif-unwindset: ::process_mut$=5, xor_keystream_mut=5"]
pub(crate) fn c04_chacha_process_len_mismatch_panics() {
    case_process_len_mismatch::<ChaCha<2>>();
}
#[cfg_attr(kani, kani::proof)]
#[cfg_attr(kani, kani::should_panic)]
#[cfg_attr(kani, kani::unwind(66))]
#[doc = "verif-unwindset: ::process_mut$=5, xor_keystream_mut=5"]
pub(crate) fn c04_xchacha_process_len_mismatch_panics() {
    case_process_len_mismatch::<XChaCha<2>>();
}
#[cfg_attr(kani, kani::proof)]
#[cfg_attr(kani, kani::should_panic)]
#[cfg_attr(kani, kani::unwind(66))]
#[doc = "verif-unwindset: ::process_mut$=5, xor_keystream_mut=5"]
pub(crate) fn c04_chachaorig_process_len_mismatch_panics() {
    case_process_len_mismatch::<ChaChaOriginal<2>>();
}

#[cfg_attr(kani, kani::proof)]
#[cfg_attr(kani, kani::unwind(66))]
pub(crate) fn c04_chacha_clone() {
    case_clone::<ChaCha<20>>();
    case_clone::<XChaCha<20>>();
    case_clone::<ChaChaOriginal<20>>();
}

/// seek from an arbitrary (also mid-block) state: counter word = n, cached block invalidated, nothing else touched.
/// With the step lemma at offset == 64 the next byte produced is byte 0 of block n.
#[cfg_attr(kani, kani::proof)]
#[cfg_attr(kani, kani::unwind(66))]
pub(crate) fn c04_chacha_seek() {
    let w: [u32; 16] = any();
    let cached: [u8; 64] = any();
    let offset: usize = any();
    assume(offset <= 64);
    let n: u32 = any();
    vcover!(offset == 13, "seek from the middle of a block");
    let mut c = <ChaCha<20> as Ctx>::mk(w, cached, offset);
    c.seek(n);
    let mut exp = w;
    exp[12] = n;
    vassert!(words_eq(&c.words(), &exp), "ChaCha::seek: block counter = n, key/nonce untouched");
    vassert!(c.off() == 64, "ChaCha::seek: cached block invalidated");
    let mut x = <XChaCha<20> as Ctx>::mk(w, cached, offset);
    x.seek(n);
    vassert!(words_eq(&x.words(), &exp), "XChaCha::seek: block counter = n, key/nonce untouched");
    vassert!(x.off() == 64, "XChaCha::seek: cached block invalidated");
}

// ------------------------------------------------------------------------------------------------ C03 (context level)
/// new(): state == specification layout for the variant, nothing cached
#[cfg_attr(kani, kani::proof)]
#[cfg_attr(kani, kani::unwind(66))]
pub(crate) fn c03_ctx_new_layout() {
    let k32: [u8; 32] = any();
    let k16: [u8; 16] = any();
    let n12: [u8; 12] = any();
    let n8: [u8; 8] = any();
    let a = ChaCha::<20>::new(&k32, &n12);
    vassert!(words_eq(&a.words(), &spec_init(&k32, &n12)), "ChaCha::new 256-bit key: RFC 8439 layout, counter 0");
    vassert!(a.off() == 64, "ChaCha::new: nothing cached");
    let a = ChaCha::<8>::new(&k16, &n12);
    vassert!(words_eq(&a.words(), &spec_init(&k16, &n12)), "ChaCha::new 128-bit key: tau constants, key repeated");
    let a = ChaChaOriginal::<12>::new(&k32, &n8);
    vassert!(words_eq(&a.words(), &spec_init(&k32, &n8)), "ChaChaOriginal::new 256-bit key: 64-bit counter 0, 64-bit nonce");
    vassert!(a.off() == 64, "ChaChaOriginal::new: nothing cached");
    let a = ChaChaOriginal::<20>::new(&k16, &n8);
    vassert!(words_eq(&a.words(), &spec_init(&k16, &n8)), "ChaChaOriginal::new 128-bit key");
}

/// XChaCha::new == HChaCha subkey + remaining 8 nonce bytes; full 8-round HChaCha compared with the transcription
#[cfg_attr(kani, kani::proof)]
#[cfg_attr(kani, kani::unwind(66))]
#[cfg_attr(kani, kani::stub(core::arch::x86_64::_mm_add_epi32, crate::verif_lib::mm_add_epi32_model))]
pub(crate) fn c03_t_xchacha_new_r8() {
    let key: [u8; 32] = any();
    let nonce: [u8; 24] = any();
    let x = XChaCha::<8>::new(&key, &nonce);
    // specification: HChaCha8(key, nonce[0..16]) = words 0..3, 12..15 of the permuted state (no feed-forward)
    let mut s = spec_init(&key, &nonce[0..16]);
    let mut i = 0;
    while i < 4 {
        spec_double_round(&mut s);
        i += 1;
    }
    let full = spec_output_bytes(&s);
    let mut sub = [0u8; 32];
    let mut i = 0;
    while i < 16 {
        sub[i] = full[i];
        sub[16 + i] = full[48 + i];
        i += 1;
    }
    let exp = spec_init(&sub, &nonce[16..24]);
    vassert!(words_eq(&x.words(), &exp), "XChaCha::new: state = init(HChaCha(key, nonce[0..16]), nonce[16..24])");
    vassert!(x.off() == 64, "XChaCha::new: nothing cached");
}
