// Specification-side ChaCha pieces (RFC 8439 §2.1-2.3, Bernstein's chacha-20080128 §3), written
// function-style from the documents; shared by the engine harnesses. Mounted as crate::chacha::verif_chacha.
#![allow(dead_code, unused_imports, missing_docs)]
use crate::verif_lib::*;

pub(crate) fn le32(b: &[u8], i: usize) -> u32 {
    (b[i] as u32) | ((b[i + 1] as u32) << 8) | ((b[i + 2] as u32) << 16) | ((b[i + 3] as u32) << 24)
}

/// "expand 32-byte k" / "expand 16-byte k"
pub(crate) const SIGMA: [u32; 4] = [0x61707865, 0x3320646e, 0x79622d32, 0x6b206574];
pub(crate) const TAU: [u32; 4] = [0x61707865, 0x3120646e, 0x79622d36, 0x6b206574];

/// initial matrix for key (16|32 bytes) and nonce (8|12|16 bytes):
/// words 0-3 constants, 4-11 key (16-byte key repeated), then
/// 16-byte nonce: words 12-15; 12-byte: word 12 = 0 (counter), 13-15; 8-byte: words 12,13 = 0 (64-bit counter), 14-15
pub(crate) fn spec_init(key: &[u8], nonce: &[u8]) -> [u32; 16] {
    let mut s = [0u32; 16];
    let c = if key.len() == 32 { SIGMA } else { TAU };
    s[0] = c[0];
    s[1] = c[1];
    s[2] = c[2];
    s[3] = c[3];
    s[4] = le32(key, 0);
    s[5] = le32(key, 4);
    s[6] = le32(key, 8);
    s[7] = le32(key, 12);
    let o = if key.len() == 32 { 16 } else { 0 };
    s[8] = le32(key, o);
    s[9] = le32(key, o + 4);
    s[10] = le32(key, o + 8);
    s[11] = le32(key, o + 12);
    if nonce.len() == 16 {
        s[12] = le32(nonce, 0);
        s[13] = le32(nonce, 4);
        s[14] = le32(nonce, 8);
        s[15] = le32(nonce, 12);
    } else if nonce.len() == 12 {
        s[13] = le32(nonce, 0);
        s[14] = le32(nonce, 4);
        s[15] = le32(nonce, 8);
    } else {
        s[14] = le32(nonce, 0);
        s[15] = le32(nonce, 4);
    }
    s
}

fn rotl(x: u32, n: u32) -> u32 {
    (x << n) | (x >> (32 - n))
}

/// RFC 8439 §2.1 quarter round on indices (a,b,c,d)
pub(crate) fn spec_qr(s: &mut [u32; 16], a: usize, b: usize, c: usize, d: usize) {
    s[a] = s[a].wrapping_add(s[b]);
    s[d] ^= s[a];
    s[d] = rotl(s[d], 16);
    s[c] = s[c].wrapping_add(s[d]);
    s[b] ^= s[c];
    s[b] = rotl(s[b], 12);
    s[a] = s[a].wrapping_add(s[b]);
    s[d] ^= s[a];
    s[d] = rotl(s[d], 8);
    s[c] = s[c].wrapping_add(s[d]);
    s[b] ^= s[c];
    s[b] = rotl(s[b], 7);
}

/// RFC 8439 §2.3 inner_block: column round then diagonal round
pub(crate) fn spec_double_round(s: &mut [u32; 16]) {
    spec_qr(s, 0, 4, 8, 12);
    spec_qr(s, 1, 5, 9, 13);
    spec_qr(s, 2, 6, 10, 14);
    spec_qr(s, 3, 7, 11, 15);
    spec_qr(s, 0, 5, 10, 15);
    spec_qr(s, 1, 6, 11, 12);
    spec_qr(s, 2, 7, 8, 13);
    spec_qr(s, 3, 4, 9, 14);
}

pub(crate) fn words_eq(a: &[u32; 16], b: &[u32; 16]) -> bool {
    let mut ok = true;
    let mut i = 0;
    while i < 16 {
        if a[i] != b[i] {
            ok = false;
        }
        i += 1;
    }
    ok
}

pub(crate) fn spec_output_bytes(s: &[u32; 16]) -> [u8; 64] {
    let mut o = [0u8; 64];
    let mut i = 0;
    while i < 16 {
        o[4 * i] = s[i] as u8;
        o[4 * i + 1] = (s[i] >> 8) as u8;
        o[4 * i + 2] = (s[i] >> 16) as u8;
        o[4 * i + 3] = (s[i] >> 24) as u8;
        i += 1;
    }
    o
}

// ------------------------------------------------------------------------------------------------
// access to the engine the crate actually uses (sse2 on x86-64) for harnesses outside crate::chacha
#[cfg(all(any(target_arch = "x86", target_arch = "x86_64"), target_feature = "sse2"))]
pub(crate) use super::sse2::verif_sse2::{from_words, to_words};
#[cfg(not(all(any(target_arch = "x86", target_arch = "x86_64"), target_feature = "sse2")))]
pub(crate) use super::reference::verif_ref::{from_words, to_words};

// ------------------------------------------------------------------------------------------------
// engine-generic obligations, instantiated for the SSE2 and the portable engine by their child modules
pub(crate) trait Eng: Clone {
    fn e_init(key: &[u8], nonce: &[u8]) -> Self;
    fn e_rounds(&mut self);
    fn e_set_counter(&mut self, c: u32);
    fn e_increment(&mut self);
    fn e_increment64(&mut self);
    fn e_add_back(&mut self, initial: &Self);
    fn e_output_bytes(&self, out: &mut [u8]);
    fn e_output_ad_bytes(&self, out: &mut [u8; 32]);
    fn e_to_words(&self) -> [u32; 16];
    fn e_from_words(w: [u32; 16]) -> Self;
}

macro_rules! impl_eng {
    ($t:ty) => {
        impl<const R: usize> crate::chacha::verif_chacha::Eng for $t {
            fn e_init(key: &[u8], nonce: &[u8]) -> Self {
                Self::init(key, nonce)
            }
            fn e_rounds(&mut self) {
                self.rounds()
            }
            fn e_set_counter(&mut self, c: u32) {
                self.set_counter(c)
            }
            fn e_increment(&mut self) {
                self.increment()
            }
            fn e_increment64(&mut self) {
                self.increment64()
            }
            fn e_add_back(&mut self, initial: &Self) {
                self.add_back(initial)
            }
            fn e_output_bytes(&self, out: &mut [u8]) {
                self.output_bytes(out)
            }
            fn e_output_ad_bytes(&self, out: &mut [u8; 32]) {
                self.output_ad_bytes(out)
            }
            fn e_to_words(&self) -> [u32; 16] {
                to_words(self)
            }
            fn e_from_words(w: [u32; 16]) -> Self {
                from_words(w)
            }
        }
    };
}
pub(crate) use impl_eng;

pub(crate) fn case_init<E: Eng, const KL: usize>() {
    let key: [u8; KL] = any();
    let n8: [u8; 8] = any();
    let n12: [u8; 12] = any();
    let n16: [u8; 16] = any();
    let s8 = E::e_init(&key, &n8).e_to_words();
    let s12 = E::e_init(&key, &n12).e_to_words();
    let s16 = E::e_init(&key, &n16).e_to_words();
    let (r8, r12, r16) = (spec_init(&key, &n8), spec_init(&key, &n12), spec_init(&key, &n16));
    let mut i = 0;
    while i < 4 {
        vassert!(s8[i] == r8[i] && s12[i] == r12[i] && s16[i] == r16[i], "init: constant words 0..3");
        i += 1;
    }
    while i < 12 {
        vassert!(s8[i] == r8[i] && s12[i] == r12[i] && s16[i] == r16[i], "init: key words 4..11");
        i += 1;
    }
    while i < 16 {
        vassert!(s8[i] == r8[i], "init: 8-byte nonce, words 12..15");
        vassert!(s12[i] == r12[i], "init: 12-byte nonce, words 12..15");
        vassert!(s16[i] == r16[i], "init: 16-byte nonce, words 12..15");
        i += 1;
    }
}

/// E has ROUNDS = 2*n : rounds() must be exactly n specification double rounds
pub(crate) fn case_rounds<E: Eng>(n: usize) {
    let w: [u32; 16] = any();
    let mut e = E::e_from_words(w);
    e.e_rounds();
    let got = e.e_to_words();
    let mut s = w;
    let mut i = 0;
    while i < n {
        spec_double_round(&mut s);
        i += 1;
    }
    vassert!(words_eq(&got, &s), "rounds() == ROUNDS/2 specification double rounds");
}

pub(crate) fn case_counters<E: Eng>() {
    let w: [u32; 16] = any();
    let c: u32 = any();
    vcover!(w[12] == u32::MAX, "low counter word at 2^32-1");
    vcover!(w[12] == u32::MAX && w[13] == u32::MAX, "64-bit counter at 2^64-1");
    // set_counter: word 12 only
    let mut e = E::e_from_words(w);
    e.e_set_counter(c);
    let mut exp = w;
    exp[12] = c;
    vassert!(words_eq(&e.e_to_words(), &exp), "set_counter writes word 12 only");
    // increment: 32-bit counter, wraps mod 2^32, word 13 untouched
    let mut e = E::e_from_words(w);
    e.e_increment();
    let mut exp = w;
    exp[12] = w[12].wrapping_add(1);
    vassert!(words_eq(&e.e_to_words(), &exp), "increment: word 12 + 1 mod 2^32, nothing else");
    // increment64: 64-bit counter in words 12 (low), 13 (high)
    let mut e = E::e_from_words(w);
    e.e_increment64();
    let c64 = ((w[12] as u64) | ((w[13] as u64) << 32)).wrapping_add(1);
    let mut exp = w;
    exp[12] = c64 as u32;
    exp[13] = (c64 >> 32) as u32;
    vassert!(words_eq(&e.e_to_words(), &exp), "increment64: 64-bit counter + 1 with carry into word 13");
}

pub(crate) fn case_addback_output<E: Eng>() {
    let w: [u32; 16] = any();
    let v: [u32; 16] = any();
    let mut e = E::e_from_words(w);
    let ini = E::e_from_words(v);
    e.e_add_back(&ini);
    let got = e.e_to_words();
    let mut i = 0;
    while i < 16 {
        vassert!(got[i] == w[i].wrapping_add(v[i]), "add_back: word-wise addition mod 2^32");
        i += 1;
    }
    let e = E::e_from_words(w);
    let mut out = [0u8; 64];
    e.e_output_bytes(&mut out);
    let exp = spec_output_bytes(&w);
    let mut i = 0;
    while i < 64 {
        vassert!(out[i] == exp[i], "output_bytes: 16 little-endian words");
        i += 1;
    }
    // HChaCha output: words 0..3 and 12..15
    let mut ad = [0u8; 32];
    e.e_output_ad_bytes(&mut ad);
    let mut i = 0;
    while i < 16 {
        vassert!(ad[i] == exp[i], "output_ad_bytes: words 0..3");
        vassert!(ad[16 + i] == exp[48 + i], "output_ad_bytes: words 12..15");
        i += 1;
    }
}

/// full block function for an engine with the real round count: rounds + add_back + serialise
pub(crate) fn case_block<E: Eng>(double_rounds: usize) {
    let w: [u32; 16] = any();
    let ini = E::e_from_words(w);
    let mut e = ini.clone();
    e.e_rounds();
    e.e_add_back(&ini);
    let mut out = [0u8; 64];
    e.e_output_bytes(&mut out);
    let mut s = w;
    let mut i = 0;
    while i < double_rounds {
        spec_double_round(&mut s);
        i += 1;
    }
    let mut i = 0;
    while i < 16 {
        s[i] = s[i].wrapping_add(w[i]);
        i += 1;
    }
    let exp = spec_output_bytes(&s);
    let mut i = 0;
    while i < 64 {
        vassert!(out[i] == exp[i], "block function == specification");
        i += 1;
    }
}

/// C16: two engines side by side on the same inputs
pub(crate) fn case_equiv_init<A: Eng, B: Eng, const KL: usize, const NL: usize>() {
    let key: [u8; KL] = any();
    let n: [u8; NL] = any();
    let a = A::e_init(&key, &n).e_to_words();
    let b = B::e_init(&key, &n).e_to_words();
    vassert!(words_eq(&a, &b), "init: vectorised == portable");
}
pub(crate) fn case_equiv_ops<A: Eng, B: Eng>() {
    let w: [u32; 16] = any();
    let v: [u32; 16] = any();
    let c: u32 = any();
    let (mut a, mut b) = (A::e_from_words(w), B::e_from_words(w));
    a.e_rounds();
    b.e_rounds();
    vassert!(words_eq(&a.e_to_words(), &b.e_to_words()), "rounds: vectorised == portable");
    let (mut a, mut b) = (A::e_from_words(w), B::e_from_words(w));
    a.e_add_back(&A::e_from_words(v));
    b.e_add_back(&B::e_from_words(v));
    vassert!(words_eq(&a.e_to_words(), &b.e_to_words()), "add_back: vectorised == portable");
    let (mut a, mut b) = (A::e_from_words(w), B::e_from_words(w));
    a.e_increment();
    b.e_increment();
    vassert!(words_eq(&a.e_to_words(), &b.e_to_words()), "increment: vectorised == portable");
    let (mut a, mut b) = (A::e_from_words(w), B::e_from_words(w));
    a.e_increment64();
    b.e_increment64();
    vassert!(words_eq(&a.e_to_words(), &b.e_to_words()), "increment64: vectorised == portable");
    let (mut a, mut b) = (A::e_from_words(w), B::e_from_words(w));
    a.e_set_counter(c);
    b.e_set_counter(c);
    vassert!(words_eq(&a.e_to_words(), &b.e_to_words()), "set_counter: vectorised == portable");
    let (a, b) = (A::e_from_words(w), B::e_from_words(w));
    let (mut oa, mut ob) = ([0u8; 64], [0u8; 64]);
    a.e_output_bytes(&mut oa);
    b.e_output_bytes(&mut ob);
    let (mut da, mut db) = ([0u8; 32], [0u8; 32]);
    a.e_output_ad_bytes(&mut da);
    b.e_output_ad_bytes(&mut db);
    let mut i = 0;
    while i < 64 {
        vassert!(oa[i] == ob[i], "output_bytes: vectorised == portable");
        i += 1;
    }
    let mut i = 0;
    while i < 32 {
        vassert!(da[i] == db[i], "output_ad_bytes: vectorised == portable");
        i += 1;
    }
}

