// C01 / C02 — specification side of the hash GLUE (child module of crate::hashing), written from the standards:
//   FIPS 180-4 5.1 (padding), 5.3 (initial hash values), 6.x (digest = big-endian words, truncation)
//   RIPEMD-160 paper (MD4-style padding: little-endian 64-bit bit count, little-endian words)
//   FIPS 202 5.1 / B.2 (pad10*1, domain separation suffix 01 for SHA-3; none for Keccak)
//   RFC 7693 2.5 / 3.3 (BLAKE2 parameter word, key block, byte counter, final-block flag, truncation)
// The compression functions / permutations are PARAMETERS of everything here (the constructions are generic in them):
// the step harnesses replace them by recorders returning arbitrary values, the end-to-end harnesses of this file replace
// them by cheap deterministic stand-ins (`toy_*`) under Kani and use the crate's real kernels natively.
#![allow(dead_code, unused_imports, missing_docs)]
use super::*;
use crate::verif_lib::*;

// ------------------------------------------------------------------------------------------------ Merkle-Damgard padding
/// length in bytes of the padded tail for `idx` pending bytes, block size n, length field of lw bytes (FIPS 180-4 5.1)
pub(crate) fn md_tail_len(idx: usize, n: usize, lw: usize) -> usize {
    if idx + 1 + lw <= n {
        n
    } else {
        2 * n
    }
}
/// byte p of the padded tail: pending bytes, 0x80, zeros, length field (`lenbytes[..lw]` as the standard orders it)
pub(crate) fn md_tail_byte(p: usize, idx: usize, t: usize, lw: usize, pend: u8, lenbytes: &[u8; 16]) -> u8 {
    if p < idx {
        pend
    } else if p == idx {
        0x80
    } else if p < t - lw {
        0
    } else {
        lenbytes[p - (t - lw)]
    }
}
/// FIPS 180-4 5.1.1: 64-bit big-endian bit count (SHA-1, SHA-224/256); nbytes < 2^61
pub(crate) fn len_be64(nbytes: u64) -> [u8; 16] {
    let bits: u64 = nbytes * 8;
    let mut o = [0u8; 16];
    let mut i = 0;
    while i < 8 {
        o[i] = (bits >> (56 - 8 * i)) as u8;
        i += 1;
    }
    o
}
/// FIPS 180-4 5.1.2: 128-bit big-endian bit count (SHA-384/512/512t); nbytes < 2^125
pub(crate) fn len_be128(nbytes: u128) -> [u8; 16] {
    let bits: u128 = nbytes * 8;
    let mut o = [0u8; 16];
    let mut i = 0;
    while i < 16 {
        o[i] = (bits >> (120 - 8 * i)) as u8;
        i += 1;
    }
    o
}
/// RIPEMD-160 (MD4 convention): 64-bit little-endian bit count
pub(crate) fn len_le64(nbytes: u64) -> [u8; 16] {
    let bits: u64 = nbytes * 8;
    let mut o = [0u8; 16];
    let mut i = 0;
    while i < 8 {
        o[i] = (bits >> (8 * i)) as u8;
        i += 1;
    }
    o
}

// ------------------------------------------------------------------------------------------------ initial hash values
// FIPS 180-4 5.3.1 - 5.3.6 (typed from the standard, not copied from the crate)
pub(crate) const FIPS_SHA1_H0: [u32; 5] = [0x67452301, 0xefcdab89, 0x98badcfe, 0x10325476, 0xc3d2e1f0];
pub(crate) const FIPS_SHA224_H0: [u32; 8] = [
    0xc1059ed8, 0x367cd507, 0x3070dd17, 0xf70e5939, 0xffc00b31, 0x68581511, 0x64f98fa7, 0xbefa4fa4,
];
pub(crate) const FIPS_SHA256_H0: [u32; 8] = [
    0x6a09e667, 0xbb67ae85, 0x3c6ef372, 0xa54ff53a, 0x510e527f, 0x9b05688c, 0x1f83d9ab, 0x5be0cd19,
];
pub(crate) const FIPS_SHA384_H0: [u64; 8] = [
    0xcbbb9d5dc1059ed8,
    0x629a292a367cd507,
    0x9159015a3070dd17,
    0x152fecd8f70e5939,
    0x67332667ffc00b31,
    0x8eb44a8768581511,
    0xdb0c2e0d64f98fa7,
    0x47b5481dbefa4fa4,
];
pub(crate) const FIPS_SHA512_H0: [u64; 8] = [
    0x6a09e667f3bcc908,
    0xbb67ae8584caa73b,
    0x3c6ef372fe94f82b,
    0xa54ff53a5f1d36f1,
    0x510e527fade682d1,
    0x9b05688c2b3e6c1f,
    0x1f83d9abfb41bd6b,
    0x5be0cd19137e2179,
];
pub(crate) const FIPS_SHA512_224_H0: [u64; 8] = [
    0x8c3d37c819544da2,
    0x73e1996689dcd4d6,
    0x1dfab7ae32ff9c82,
    0x679dd514582f9fcf,
    0x0f6d2b697bd44da8,
    0x77e36f7304c48942,
    0x3f9d85a86a1d36c8,
    0x1112e6ad91d692a1,
];
pub(crate) const FIPS_SHA512_256_H0: [u64; 8] = [
    0x22312194fc2bf72c,
    0x9f555fa3c84c64c2,
    0x2393b86b6f53b151,
    0x963877195940eabd,
    0x96283ee2a88effe3,
    0xbe5e1e2553863992,
    0x2b0199fc2c85b8aa,
    0x0eb72ddc81c52ca2,
];
/// RIPEMD-160 paper, appendix A: initial value
pub(crate) const RMD160_H0: [u32; 5] = [0x67452301, 0xefcdab89, 0x98badcfe, 0x10325476, 0xc3d2e1f0];

/// floor(2^64 * frac(sqrt(p))) for a small prime p — FIPS 180-4 5.3.5 ("first sixty-four bits of the fractional parts of the
/// square roots of the first eight prime numbers"); integer arithmetic only: the largest x = hi*2^64 + lo with x^2 <= p*2^128.
pub(crate) fn sqrt_frac64(p: u64) -> u64 {
    let mut hi = 0u64;
    while (hi + 1) * (hi + 1) <= p {
        hi += 1;
    }
    // find the largest lo with (hi*2^64 + lo)^2 <= p * 2^128, i.e. 2*hi*lo*2^64 + lo^2 <= (p - hi^2) * 2^128
    let d = (p - hi * hi) as u128; // < 2*hi + 1
    let mut lo = 0u64;
    let mut bit = 64;
    while bit > 0 {
        bit -= 1;
        let c = lo | (1u64 << bit);
        // left = 2*hi*c*2^64 + c^2 as a 192-bit number (w2, w1, w0), right = d * 2^128 = (d, 0, 0)
        let sq = (c as u128) * (c as u128);
        let m = 2 * (hi as u128) * (c as u128); // < 2^68
        let w0 = sq as u64;
        let mid = (sq >> 64) + (m & 0xffff_ffff_ffff_ffff);
        let w1 = mid as u64;
        let w2 = (mid >> 64) + (m >> 64);
        // left <= right  <=>  w2 < d  ||  (w2 == d && w1 == 0 && w0 == 0)
        if w2 < d || (w2 == d && w1 == 0 && w0 == 0) {
            lo = c;
        }
    }
    lo
}
pub(crate) const PRIMES16: [u64; 16] = [2, 3, 5, 7, 11, 13, 17, 19, 23, 29, 31, 37, 41, 43, 47, 53];

// ------------------------------------------------------------------------------------------------ digest serialisation
/// FIPS 180-4 6.2.2 / 6.1.2: the digest is the concatenation of the 32-bit words, most significant byte first
pub(crate) fn ser_be32<const HN: usize, const OUT: usize>(h: &[u32; HN]) -> [u8; OUT] {
    let mut o = [0u8; OUT];
    let mut i = 0;
    while i < HN {
        o[4 * i] = (h[i] >> 24) as u8;
        o[4 * i + 1] = (h[i] >> 16) as u8;
        o[4 * i + 2] = (h[i] >> 8) as u8;
        o[4 * i + 3] = h[i] as u8;
        i += 1;
    }
    o
}
/// FIPS 180-4 6.4.2: 64-bit words, most significant byte first (SHA-384 / 512/t: leftmost bits of this string)
pub(crate) fn ser_be64(h: &[u64; 8]) -> [u8; 64] {
    let mut o = [0u8; 64];
    let mut i = 0;
    while i < 8 {
        let mut j = 0;
        while j < 8 {
            o[8 * i + j] = (h[i] >> (56 - 8 * j)) as u8;
            j += 1;
        }
        i += 1;
    }
    o
}
/// RIPEMD-160: 32-bit words, least significant byte first
pub(crate) fn ser_le32<const HN: usize, const OUT: usize>(h: &[u32; HN]) -> [u8; OUT] {
    let mut o = [0u8; OUT];
    let mut i = 0;
    while i < HN {
        o[4 * i] = h[i] as u8;
        o[4 * i + 1] = (h[i] >> 8) as u8;
        o[4 * i + 2] = (h[i] >> 16) as u8;
        o[4 * i + 3] = (h[i] >> 24) as u8;
        i += 1;
    }
    o
}

// ------------------------------------------------------------------------------------------------ whole-message padding
/// Merkle-Damgard padded message for a message of `len` <= MAXLEN bytes, as PB/N blocks; returns (padded, number of blocks).
/// `lw` = width of the length field, `lenbytes` = the length field as the standard orders it.
pub(crate) fn md_padded<const PB: usize>(msg: &[u8], len: usize, n: usize, lw: usize, lenbytes: &[u8; 16]) -> ([u8; PB], usize) {
    let nb = if n == 64 { (len + 1 + lw + 63) >> 6 } else { (len + 1 + lw + 127) >> 7 };
    let total = nb * n;
    let mut o = [0u8; PB];
    let mut p = 0;
    while p < PB {
        o[p] = if p < len {
            msg[p]
        } else if p == len {
            0x80
        } else if p >= total - lw && p < total {
            lenbytes[p - (total - lw)]
        } else {
            0
        };
        p += 1;
    }
    (o, nb)
}

// ------------------------------------------------------------------------------------------------ stand-in kernels
// Deterministic, cheap, sensitive to every input byte, to the chaining value and to the order of blocks.  Used ONLY where two
// executions have to be compared (update vs update_mut, one-shot wrapper vs construction); the for-all-kernels claims come
// from the recorder harnesses.
pub(crate) fn toy_mix32(s: &mut [u32], b: &[u8]) {
    let n = s.len();
    let mut j = 0;
    while j < 64 {
        s[j % n] = s[j % n].rotate_left(5) ^ (b[j] as u32) ^ 0x9e3779b9;
        j += 1;
    }
    s[0] = !s[0].rotate_left(11);
}
pub(crate) fn toy_mix64(s: &mut [u64], b: &[u8]) {
    let n = s.len();
    let mut j = 0;
    while j < 128 {
        s[j % n] = s[j % n].rotate_left(9) ^ (b[j] as u64) ^ 0x9e3779b97f4a7c15;
        j += 1;
    }
    s[0] = !s[0].rotate_left(23);
}

// ================================================================================================ one-shot wrappers, end to end
// hashing::X(msg) == serialise(fold(kernel, IV_X, pad_X(msg))) for the whole construction written down here independently,
// with the kernel replaced by a deterministic stand-in under Kani and the crate's real kernel natively.  Catches a wrapper
// wired to the wrong variant / initial value / truncation, and cross-checks the composition of the step lemmas on short messages.
use crate::hashing::ripemd160::verif_rmd as vrmd;
use crate::hashing::sha1::verif_sha1 as vsha1;
use crate::hashing::sha2::verif_sha2 as vsha2;
use crate::hashing::sha3::verif_sha3 as vsha3;

fn spec_md32<const HN: usize>(kernel: fn(&mut [u32; HN], &[u8]), iv: [u32; HN], msg: &[u8], len: usize, lenbytes: &[u8; 16]) -> [u32; HN] {
    let (padded, nb) = md_padded::<128>(msg, len, 64, 8, lenbytes);
    let mut h = iv;
    if nb >= 1 {
        kernel(&mut h, &padded[0..64]);
    }
    if nb >= 2 {
        kernel(&mut h, &padded[64..128]);
    }
    h
}
fn spec_md64(kernel: fn(&mut [u64; 8], &[u8]), iv: [u64; 8], msg: &[u8], len: usize) -> [u64; 8] {
    let (padded, nb) = md_padded::<256>(msg, len, 128, 16, &len_be128(len as u128));
    let mut h = iv;
    if nb >= 1 {
        kernel(&mut h, &padded[0..128]);
    }
    if nb >= 2 {
        kernel(&mut h, &padded[128..256]);
    }
    h
}
fn md_covers(len: usize, n: usize, lw: usize) {
    vcover!(len == 0, "empty message");
    vcover!(len == n - lw - 1, "padding fills the first block exactly");
    vcover!(len == n - lw, "length field spills into a second block");
    vcover!(len == n + 1, "one full block straight from the input plus one byte");
}
/// out (an array) equals the first out.len() bytes of exp
macro_rules! check_prefix {
    ($out:expr, $exp:expr, $what:literal) => {{
        let (o, e) = ($out, $exp);
        let mut ok = true;
        let mut i = 0;
        while i < o.len() {
            ok &= o[i] == e[i];
            i += 1;
        }
        vassert!(ok, $what);
    }};
}

#[cfg_attr(kani, kani::proof)]
#[cfg_attr(kani, kani::unwind(130))]
#[cfg_attr(kani, kani::stub(crate::hashing::sha2::impl256::digest_block, crate::hashing::sha2::verif_sha2::toy256))]
pub(crate) fn c01_oneshot_sha256_sha224() {
    let msg = Bytes::<65>::any();
    md_covers(msg.len, 64, 8);
    let lb = len_be64(msg.len as u64);
    let e256: [u8; 32] = ser_be32::<8, 32>(&spec_md32::<8>(vsha2::kernel256, FIPS_SHA256_H0, &msg.buf, msg.len, &lb));
    check_prefix!(sha256(msg.get()), e256, "sha256(msg) == SHA-256 construction (FIPS 180-4 5.1.1, 5.3.3, 6.2)");
    let e224: [u8; 32] = ser_be32::<8, 32>(&spec_md32::<8>(vsha2::kernel256, FIPS_SHA224_H0, &msg.buf, msg.len, &lb));
    check_prefix!(sha224(msg.get()), e224, "sha224(msg) == SHA-224 construction (FIPS 180-4 5.3.2, 6.3: leftmost 224 bits)");
}
#[cfg_attr(kani, kani::proof)]
#[cfg_attr(kani, kani::unwind(258))]
#[cfg_attr(kani, kani::stub(crate::hashing::sha2::impl512::digest_block, crate::hashing::sha2::verif_sha2::toy512))]
pub(crate) fn c01_oneshot_sha512_sha384() {
    let msg = Bytes::<129>::any();
    md_covers(msg.len, 128, 16);
    let e512 = ser_be64(&spec_md64(vsha2::kernel512, FIPS_SHA512_H0, &msg.buf, msg.len));
    check_prefix!(sha512(msg.get()), e512, "sha512(msg) == SHA-512 construction (FIPS 180-4 5.1.2, 5.3.5, 6.4)");
    let e384 = ser_be64(&spec_md64(vsha2::kernel512, FIPS_SHA384_H0, &msg.buf, msg.len));
    check_prefix!(sha384(msg.get()), e384, "sha384(msg) == SHA-384 construction (FIPS 180-4 5.3.4, 6.5: leftmost 384 bits)");
}
/// SHA-512/224 and SHA-512/256 have no one-shot function: Context::new().update(msg).finalize()
#[cfg_attr(kani, kani::proof)]
#[cfg_attr(kani, kani::unwind(258))]
#[cfg_attr(kani, kani::stub(crate::hashing::sha2::impl512::digest_block, crate::hashing::sha2::verif_sha2::toy512))]
pub(crate) fn c01_t_oneshot_sha512_224_sha512_256() {
    let msg = Bytes::<129>::any();
    md_covers(msg.len, 128, 16);
    let e224 = ser_be64(&spec_md64(vsha2::kernel512, FIPS_SHA512_224_H0, &msg.buf, msg.len));
    check_prefix!(sha2::Sha512Trunc224::new().update(msg.get()).finalize(), e224, "SHA-512/224 context == construction (FIPS 180-4 5.3.6.1, 6.6)");
    let e256 = ser_be64(&spec_md64(vsha2::kernel512, FIPS_SHA512_256_H0, &msg.buf, msg.len));
    check_prefix!(sha2::Sha512Trunc256::new().update(msg.get()).finalize(), e256, "SHA-512/256 context == construction (FIPS 180-4 5.3.6.2, 6.7)");
}
#[cfg_attr(kani, kani::proof)]
#[cfg_attr(kani, kani::unwind(130))]
#[doc = "verif-unwindset: digest_blocks=4, process_msg_blocks=4"]
#[cfg_attr(kani, kani::stub(crate::hashing::sha1::digest_block, crate::hashing::sha1::verif_sha1::toy_kernel))]
#[cfg_attr(kani, kani::stub(crate::hashing::ripemd160::process_msg_block, crate::hashing::ripemd160::verif_rmd::toy_kernel))]
pub(crate) fn c01_oneshot_sha1_ripemd160() {
    let msg = Bytes::<65>::any();
    md_covers(msg.len, 64, 8);
    let lb = len_be64(msg.len as u64);
    let e: [u8; 20] = ser_be32::<5, 20>(&spec_md32::<5>(vsha1::kernel, FIPS_SHA1_H0, &msg.buf, msg.len, &lb));
    check_prefix!(sha1(msg.get()), e, "sha1(msg) == SHA-1 construction (FIPS 180-4 5.1.1, 5.3.1, 6.1)");
    let lb = len_le64(msg.len as u64);
    let e: [u8; 20] = ser_le32::<5, 20>(&spec_md32::<5>(vrmd::kernel, RMD160_H0, &msg.buf, msg.len, &lb));
    check_prefix!(ripemd160(msg.get()), e, "ripemd160(msg) == RIPEMD-160 construction (little-endian length and digest words)");
}

/// sponge, one block, message of LEN bytes (LEN concrete: a symbolic length makes finalize allocate a Vec of symbolic size)
fn spec_sponge<const DL: usize>(ds: usize, msg: &[u8]) -> [u8; 200] {
    let r = 200 - 2 * DL;
    let mut st = [0u8; 200];
    let mut i = 0;
    while i < msg.len() {
        st[i] ^= msg[i];
        i += 1;
    }
    st[msg.len()] ^= if ds == 2 { 0x06 } else { 0x01 };
    st[r - 1] ^= 0x80;
    vsha3::perm(&mut st);
    st
}
fn case_oneshot_sponge<const LEN: usize>() {
    let m: [u8; LEN] = any();
    check_prefix!(sha3_224(&m), spec_sponge::<28>(2, &m), "sha3_224(msg) == SHA3-224 sponge (FIPS 202 6.1: c = 448, suffix 01)");
    check_prefix!(sha3_256(&m), spec_sponge::<32>(2, &m), "sha3_256(msg) == SHA3-256 sponge (c = 512)");
    check_prefix!(sha3_384(&m), spec_sponge::<48>(2, &m), "sha3_384(msg) == SHA3-384 sponge (c = 768)");
    check_prefix!(sha3_512(&m), spec_sponge::<64>(2, &m), "sha3_512(msg) == SHA3-512 sponge (c = 1024)");
    check_prefix!(keccak224(&m), spec_sponge::<28>(0, &m), "keccak224(msg) == Keccak[448] with pad10*1, no suffix");
    check_prefix!(keccak256(&m), spec_sponge::<32>(0, &m), "keccak256(msg) == Keccak[512] with pad10*1, no suffix");
    check_prefix!(keccak384(&m), spec_sponge::<48>(0, &m), "keccak384(msg) == Keccak[768] with pad10*1, no suffix");
    check_prefix!(keccak512(&m), spec_sponge::<64>(0, &m), "keccak512(msg) == Keccak[1024] with pad10*1, no suffix");
}
/// measured: 1360 s for both lengths together: thorough tier
#[cfg_attr(kani, kani::proof)]
#[cfg_attr(kani, kani::unwind(202))]
#[cfg_attr(kani, kani::stub(crate::hashing::sha3::keccak_f, crate::hashing::sha3::verif_sha3::toy_keccak_f))]
pub(crate) fn c01_t_oneshot_sha3_keccak_len1() {
    case_oneshot_sponge::<1>();
}
#[cfg_attr(kani, kani::proof)]
#[cfg_attr(kani, kani::unwind(202))]
#[cfg_attr(kani, kani::stub(crate::hashing::sha3::keccak_f, crate::hashing::sha3::verif_sha3::toy_keccak_f))]
pub(crate) fn c01_t_oneshot_sha3_keccak_len0() {
    case_oneshot_sponge::<0>();
}

/// quick-tier wiring check of the eight sponge one-shot functions: each is exactly one process(msg) and one output() into a
/// DIGESTLEN-byte array on an engine of the RIGHT instantiation (DIGESTLEN, DSLEN recorded by the stubs); together with the
/// engine lemmas of hash_sha3.rs this is the digest.  Natively: compared with the sponge construction on the real permutation.
macro_rules! sponge_wiring {
    ($f:ident, $dl:expr, $ds:expr, $msg:expr, $what:literal) => {{
        let m: &[u8] = $msg;
        vsha3::p_reset(0);
        unsafe {
            vsha3::O_N = 0;
        }
        let out = $f(m);
        #[cfg(kani)]
        unsafe {
            vassert!(vsha3::P_N == 1 && vsha3::P_PTR == m.as_ptr() as usize && vsha3::P_LEN == m.len() && vsha3::P_DL == $dl && vsha3::P_DS == $ds, $what);
            vassert!(vsha3::O_N == 1 && vsha3::O_LEN == $dl && vsha3::O_DL == $dl && vsha3::O_DS == $ds && out[0] == vsha3::O_MARK && out[$dl - 1] == vsha3::O_MARK, $what);
        }
        #[cfg(not(kani))]
        check_prefix!(out, spec_sponge::<$dl>($ds, m), $what);
    }};
}
#[cfg_attr(kani, kani::proof)]
#[cfg_attr(kani, kani::unwind(8))]
#[cfg_attr(kani, kani::stub(crate::hashing::sha3::Engine::process, crate::hashing::sha3::verif_sha3::process_rec))]
#[cfg_attr(kani, kani::stub(crate::hashing::sha3::Engine::output, crate::hashing::sha3::verif_sha3::output_rec))]
pub(crate) fn c01_oneshot_sponge_wiring() {
    let msg = Bytes::<5>::any();
    sponge_wiring!(sha3_224, 28, 2, msg.get(), "sha3_224 == SHA3-224 engine (digest 28, suffix 01): one absorb of the message, one squeeze");
    sponge_wiring!(sha3_256, 32, 2, msg.get(), "sha3_256 == SHA3-256 engine (digest 32, suffix 01): one absorb of the message, one squeeze");
    sponge_wiring!(sha3_384, 48, 2, msg.get(), "sha3_384 == SHA3-384 engine (digest 48, suffix 01): one absorb of the message, one squeeze");
    sponge_wiring!(sha3_512, 64, 2, msg.get(), "sha3_512 == SHA3-512 engine (digest 64, suffix 01): one absorb of the message, one squeeze");
    sponge_wiring!(keccak224, 28, 0, msg.get(), "keccak224 == Keccak engine (digest 28, no suffix): one absorb of the message, one squeeze");
    sponge_wiring!(keccak256, 32, 0, msg.get(), "keccak256 == Keccak engine (digest 32, no suffix): one absorb of the message, one squeeze");
    sponge_wiring!(keccak384, 48, 0, msg.get(), "keccak384 == Keccak engine (digest 48, no suffix): one absorb of the message, one squeeze");
    sponge_wiring!(keccak512, 64, 0, msg.get(), "keccak512 == Keccak engine (digest 64, no suffix): one absorb of the message, one squeeze");
}
