"""Curve25519 families: field / scalar / group arithmetic (C15), X25519 (C12), Ed25519 (C13, C14), 32-bit backend (C17)."""
import os, sys
sys.path.insert(0, os.path.dirname(os.path.dirname(os.path.abspath(__file__))))
import mirsym_extra

OVERLAYS = [
    ("src/curve25519/fe/mod.rs", "verif_fe", "fe.rs", None, "crate::curve25519::fe"),
    ("src/curve25519/scalar/mod.rs", "verif_scalar", "scalar.rs", None, "crate::curve25519::scalar"),
]
# harness modules below a private module are re-exported from the nearest crate-visible ancestor for the native replay dispatcher
EXPORTS = {
    "crate::curve25519::fe::verif_fe": ("src/curve25519/mod.rs", "self::fe::verif_fe", "verif_fe_x", None, "crate::curve25519"),
}
_MS = ["mirsym: input limbs range over the stated classes (fe64: every limb <= 2^53-76 'LOOSE'; outputs proven <= 2^51-1+2^16 'TIGHT', which is inside LOOSE, so the "
       "classes are closed under composition)"]
PROPS = {
    "C15": dict(
        prefixes=["c15_", "c14_scalar_canonical"],
        level="model_checking",
        bounds="fe64 limb arithmetic (add, sub, neg, negate_mut, mul, square, square_and_double, mul_small<121666>, to_packed, from_bytes): ALL limb vectors in class LOOSE "
               "(each limb <= 2^53-76), decided by z3 on the polynomial encoding of the MIR; bit-level obligations (decode/encode canonical, ==, sign, zero test, canonical "
               "scalar decoder, scalar bytes/bits/nibbles): all 2^256 (pairs of) byte strings by CBMC",
        outside="inversion / pow25523 addition chains, group formulas, tables and scalar multiplication are separate obligations (see the harness list of this run; anything not listed there is not claimed)",
        assumptions=_MS,
        trusted=["specification formulas in mirsym/specs.py (value = sum limb_i 2^(51 i), congruences mod 2^255-19) and harness/incrate/fe.rs, scalar.rs (multi-word comparisons)"],
        explanation="limb arithmetic by MIR -> polynomial -> z3; bit-level encoders/decoders by CBMC at full width",
        level_text="Every checked arithmetic operation of the fe64 limb functions is proven overflow-free, every output limb proven inside class TIGHT, and the value "
                   "congruence mod 2^255-19 proven, for ALL inputs in class LOOSE (z3 on the MIR-derived encoding). to_packed is proven to return the canonical "
                   "representative (< p) for all LOOSE limbs. Decode/encode, ==, is_negative, is_nonzero and the canonical scalar decoder are decided by CBMC for all byte strings.",
        level_note="Products of two symbolic limbs are abstracted to bounded integers (sound for 'holds'). Group law / tables / scalar multiplication: see bounds.",
        extra=[mirsym_extra.make_extra("C15")],
    ),
}

PROPS["C17"] = dict(
    prefixes=["c15_fe_", "c14_scalar_canonical", "c15_scalar_"],
    feature_sets=[["force-32bits"]],
    level="model_checking",
    bounds="obligation 0: the crate builds with --features force-32bits. Then equivalence THROUGH THE COMMON SPECIFICATION: the backend-independent bit-level harnesses of C15/C14 "
           "(decode/encode canonical, ==, sign, zero test, canonical scalar decoder, scalar bytes/bits/nibbles: all byte strings) are decided by CBMC on the 32-bit backend, and the fe32 limb "
           "functions are decided by mirsym against the SAME mathematical specifications as fe64 (all limbs within the ref10 bounds)",
    outside="scalar32 reduce/muladd (ref10 sc_reduce/sc_muladd) unless listed in this run's evidence; group level code is backend-independent source",
    assumptions=["mirsym fe32: input limbs within the ref10 preconditions (|even limb| <= 1.1*2^26, |odd limb| <= 1.1*2^25 for mul/square operands)"],
    trusted=[],
    explanation="both backends are compared with one specification, so their canonical outputs and accept/reject decisions coincide",
    level_text="force-32bits builds; every bit-level obligation of the field and scalar API holds on the 32-bit backend for all inputs (CBMC); fe32 limb arithmetic meets the same "
               "value specifications as fe64 (mirsym/z3). Equal canonical outputs on both backends follow because both equal the specification.",
    level_note="No workload is run through both backends and compared (that would be sampling); equivalence is via the shared specification.",
    extra=[mirsym_extra.make_compile_check("C17", ["force-32bits"]), mirsym_extra.make_extra("C17", cfgs=("fe32",))],
)
