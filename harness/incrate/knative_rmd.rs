// Native execution entry for mirsym kernel counterexamples (RIPEMD-160 compression).  Not a proof harness.
#![allow(dead_code, unused_imports, missing_docs)]
use crate::verif_lib::*;

#[cfg_attr(kani, kani::proof)]
pub(crate) fn zz_native_kernel_rmd() {
    #[cfg(not(kani))]
    {
        let _op: u8 = any();
        let mut h: [u32; 5] = any();
        let m: [u8; 64] = any();
        super::process_msg_block(&m, &mut h);
        let mut s = std::string::String::from("VERIF-NATIVE-OUT:");
        for v in h.iter() {
            s.push_str(&std::format!(" {}", v));
        }
        std::println!("{}", s);
    }
}
