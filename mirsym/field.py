"""Ring-level ("UF") domain of mirsym: field elements are polynomials over GF(2^255-19) in named indeterminates.

The interpreter runs the REAL MIR of the group-level functions (ge.rs formulas, the X25519 ladder step, the inversion
addition chains) but the calls into the field backend (add, sub, mul, square, ...) are hooked to polynomial arithmetic
modulo p instead of being interpreted limb by limb (the limb functions are separate obligations: fe64_* / fe32_* specs).
An obligation is a polynomial identity; curve membership of an input point is used by rewriting with the curve equation
    d*x^2*y^2 -> y^2 - x^2 - 1      (and  i^2 -> -1 for i = sqrt(-1)).
"""
import re
from interp import IntV, AggV, RefV, Cell, EnumV, UnitV, BoolV, Unsupported, deep_copy

P = (1 << 255) - 19
D_CONST = (-121665 * pow(121666, P - 2, P)) % P
D2_CONST = (2 * D_CONST) % P
SQRTM1_CONST = pow(2, (P - 1) // 4, P)


class FPoly:
    """polynomial over GF(p): {monomial (sorted tuple of variable names): coefficient in [0,p)}"""
    __slots__ = ("t",)

    def __init__(self, t=None):
        self.t = t or {}

    @staticmethod
    def const(c):
        c %= P
        return FPoly({(): c} if c else {})

    @staticmethod
    def var(name):
        return FPoly({(name,): 1})

    def __add__(self, o):
        d = dict(self.t)
        for m, c in o.t.items():
            v = (d.get(m, 0) + c) % P
            if v:
                d[m] = v
            else:
                d.pop(m, None)
        return FPoly(d)

    def __neg__(self):
        return FPoly({m: (-c) % P for m, c in self.t.items()})

    def __sub__(self, o):
        return self + (-o)

    def scale(self, k):
        k %= P
        if k == 0:
            return FPoly()
        return FPoly({m: (c * k) % P for m, c in self.t.items()})

    def __mul__(self, o):
        d = {}
        for m1, c1 in self.t.items():
            for m2, c2 in o.t.items():
                m = tuple(sorted(m1 + m2))
                v = (d.get(m, 0) + c1 * c2) % P
                if v:
                    d[m] = v
                else:
                    d.pop(m, None)
        return FPoly(d)

    def is_zero(self):
        return not self.t

    def nterms(self):
        return len(self.t)

    def rewrite(self, rules):
        """rules: list of (tuple monomial-pattern, replacement FPoly); apply until no monomial contains a pattern"""
        cur = self
        for _ in range(10000):
            changed = False
            out = FPoly()
            for m, c in cur.t.items():
                hit = None
                for pat, rep in rules:
                    rest = list(m)
                    ok = True
                    for v in pat:
                        if v in rest:
                            rest.remove(v)
                        else:
                            ok = False
                            break
                    if ok:
                        hit = (tuple(rest), rep)
                        break
                if hit is None:
                    out = out + FPoly({m: c})
                else:
                    out = out + (FPoly({hit[0]: c}) * hit[1])
                    changed = True
            cur = out
            if not changed:
                return cur
        raise Unsupported("rewriting did not terminate")

    def show(self, n=6):
        items = sorted(self.t.items(), key=lambda x: (len(x[0]), x[0]))[:n]
        return " + ".join("%d*%s" % (c if c < P // 2 else c - P, "*".join(m) or "1") for m, c in items) + (" ..." if len(self.t) > n else "")


class FieldV:
    """a field element in the ring-level domain"""
    __slots__ = ("p",)

    def __init__(self, p):
        self.p = p


class ExpV:
    """a power z^e of a single indeterminate z (exponent tracking for addition chains)"""
    __slots__ = ("e",)

    def __init__(self, e):
        self.e = e


def limbs_value(v, cfg):
    """AggV([AggV limbs]) of concrete limbs -> integer value"""
    limbs = v.f[0].f
    if cfg == "fe64":
        return sum(l.p.cval() << (51 * i) for i, l in enumerate(limbs))
    off = [0, 26, 51, 77, 102, 128, 153, 179, 204, 230]
    return sum(l.p.cval() << off[i] for i, l in enumerate(limbs))


def to_field(v, cfg, symbolic_consts=True):
    if isinstance(v, (FieldV, ExpV)):
        return v
    if isinstance(v, AggV):
        c = limbs_value(v, cfg) % P
        if symbolic_consts:
            if c == D_CONST:
                return FieldV(FPoly.var("d"))
            if c == D2_CONST:
                return FieldV(FPoly.var("d").scale(2))
            if c == SQRTM1_CONST:
                return FieldV(FPoly.var("i"))
        return FieldV(FPoly.const(c))
    raise Unsupported("not a field element: %r" % type(v).__name__)


def install_hooks(I, cfg="fe64", generic=None, symbolic_consts=True):
    """route calls into the field backend to polynomial arithmetic"""
    mod = "fe64" if cfg == "fe64" else "fe32"

    def arg(a):
        if isinstance(a, RefV):
            a = I.read((a.cell, a.path, a.sl))
        return to_field(a, cfg, symbolic_consts)

    def binop(f):
        def h(args, where, name=None):
            x, y = arg(args[0]), arg(args[1])
            if isinstance(x, ExpV) or isinstance(y, ExpV):
                if f != "mul":
                    raise Unsupported("exponent tracking supports only mul/square")
                return ExpV(x.e + y.e)
            return FieldV({"add": x.p + y.p, "sub": x.p - y.p, "mul": x.p * y.p}[f])
        return h

    def unop(f):
        def h(args, where, name=None):
            x = arg(args[0])
            if isinstance(x, ExpV):
                if f == "square":
                    return ExpV(2 * x.e)
                if f == "clone":
                    return x
                raise Unsupported("exponent tracking: %s" % f)
            if f == "square":
                return FieldV(x.p * x.p)
            if f == "square2":
                return FieldV((x.p * x.p).scale(2))
            if f == "neg":
                return FieldV(-x.p)
            if f == "clone":
                return x
            if f == "small":
                m = re.search(r"::<(\d+)(?:_u32)?>$", name or "")
                if m:
                    return FieldV(x.p.scale(int(m.group(1))))
                s0 = (getattr(I, "generic", {}) or {}).get("S0")
                if s0 is None:
                    raise Unsupported("mul_small without S0")
                return FieldV(x.p.scale(s0[0]))
            raise Unsupported(f)
        return h

    def sqn(args, where, name=None):
        x = arg(args[0])
        n = args[1].p.cval()
        if isinstance(x, ExpV):
            return ExpV(x.e << n)
        r = x.p
        for _ in range(n):
            r = r * r
        return FieldV(r)

    def negate_mut(args, where, name=None):
        r = args[0]
        x = arg(r)
        I.write((r.cell, r.path, r.sl), FieldV(-x.p))
        return UnitV()

    pre = r"^%s::<impl at [^>]*>::" % mod
    I.hooks = [
        (re.compile(pre + r"add$"), binop("add")), (re.compile(pre + r"sub$"), binop("sub")), (re.compile(pre + r"mul$"), binop("mul")),
        (re.compile(pre + r"neg$"), unop("neg")), (re.compile(pre + r"clone$"), unop("clone")),
        (re.compile(r"(^|::)Fe::square$"), unop("square")), (re.compile(r"(^|::)Fe::square_and_double$"), unop("square2")),
        (re.compile(r"(^|::)Fe::mul_small(::<.*>)?$"), unop("small")), (re.compile(r"(^|::)Fe::square_repeatdly$"), sqn),
        (re.compile(r"(^|::)Fe::negate_mut$"), negate_mut),
        (re.compile(r"^<&(%s::)?Fe as (core::ops::)?(Add|Sub|Mul)(<&(%s::)?Fe>)?>::(add|sub|mul)$" % (mod, mod)), None),
    ]
    # operator call sites are printed as `<&Fe as Add>::add` / `<&fe64::Fe as Mul<&fe64::Fe>>::mul`
    def opdispatch(args, where, name=None):
        m = re.search(r"::(add|sub|mul)$", name)
        return binop(m.group(1))(args, where)
    I.hooks[-1] = (I.hooks[-1][0], opdispatch)
    I.hooks.append((re.compile(r"^<&(%s::)?Fe as (core::ops::)?Neg>::neg$" % mod), lambda a, w, n=None: unop("neg")(a, w)))
    I.hooks.append((re.compile(r"^<(%s::)?Fe as (core::clone::)?Clone>::clone$" % mod), lambda a, w, n=None: unop("clone")(a, w)))
