// Native execution entry for mirsym kernel counterexamples (SHA-256 / SHA-512 compression as the crate's build dispatches it).
// Not a proof harness: the runner feeds (chaining value, block words) of a counterexample and reads back what the REAL build computes.
#![allow(dead_code, unused_imports, missing_docs)]
use crate::verif_lib::*;

#[cfg_attr(kani, kani::proof)]
pub(crate) fn zz_native_kernel_sha2() {
    #[cfg(not(kani))]
    {
        let op: u8 = any();
        let mut s = std::string::String::from("VERIF-NATIVE-OUT:");
        if op == 40 {
            let mut h: [u32; 8] = any();
            let blk: [u8; 64] = any();
            super::impl256::digest_block(&mut h, &blk);
            for v in h.iter() {
                s.push_str(&std::format!(" {}", v));
            }
        } else {
            let mut h: [u64; 8] = any();
            let w: [u64; 16] = any();
            let mut blk = [0u8; 128];
            for i in 0..16 {
                blk[8 * i..8 * i + 8].copy_from_slice(&w[i].to_be_bytes());
            }
            super::impl512::digest_block(&mut h, &blk);
            for v in h.iter() {
                s.push_str(&std::format!(" {}", v));
            }
        }
        std::println!("{}", s);
    }
}
