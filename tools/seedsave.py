#!/usr/bin/env python3
"""tools/seedsave.py <srcdir> <seed-id> <property> <caught-by|MISSED> [note]  — keep a confirmed seeded change under /verif/seeded/<seed-id>/"""
import sys, os, shutil, json, re
src, sid, prop, caught = sys.argv[1:5]
note = sys.argv[5] if len(sys.argv) > 5 else ""
dst = os.path.join("/verif/seeded", sid)
os.makedirs(dst, exist_ok=True)
shutil.copy(os.path.join(src, "patch.diff"), dst)
shutil.copy(os.path.join(src, "demo.rs"), dst)
readme = open(os.path.join(src, "README.md")).read() if os.path.exists(os.path.join(src, "README.md")) else ""
files = re.findall(r"^\+\+\+ b/(\S+)", open(os.path.join(src, "patch.diff")).read(), re.M)
meta = dict(seed_id=sid, property=prop, files_touched=files,
            needs_to_manifest=note,
            confirmed_by="tools/seedtest.sh (scratch worktree of /repo HEAD): clean -> demo passes; patched -> existing suite 63/63 passes, demo fails",
            check_run="tools/seedrun.sh seeded/%s/patch.diff %s" % (sid, prop),
            caught_by=caught, author="independent sub-agent given only the property text and a scratch worktree")
json.dump(meta, open(os.path.join(dst, "meta.json"), "w"), indent=1)
if readme:
    open(os.path.join(dst, "AGENT_README.md"), "w").write(readme)
print("saved", dst)
