// C20 (misc) — src/cryptoutil.rs word/byte conversion helpers and `zero` (child module of crate::cryptoutil).
//
// The read_*v_* helpers walk raw pointers (`get_unchecked(0)`, `ptr.add`, `copy_nonoverlapping`) guarded only by the
// length assertion in front; write_*v_* contain `unreachable_unchecked()`; `zero` is a raw `write_bytes`.
// Decided here for a SYMBOLIC number of words n (1..=NW) on sub-slices of larger buffers:
//   * (one side is a sub-slice at word offset 0/1 of a longer array, so an off-by-one word access would be visible)
//   * every access stays inside the two slices (Kani's pointer / bounds / unreachable checks are on),
//   * the result is the endianness contract (this is the contract the mirsym engine and the hash harnesses rely on),
//   * nothing outside the destination slice is written,
//   * any length mismatch (byte length != word length * size, symbolic) is refused by a panic on EVERY path
//     ("MUST-NOT" cover after the call, see c20_misc_chacha.rs), never by a short or out-of-bounds copy.
// n = 0 (both slices empty): write_*v_* are decided from n = 0; read_*v_* from n = 1 — their n = 0 case is undefined behaviour
// (see zz_latent_cryptoutil_read_v_empty at the end of the read/write section).
#![allow(dead_code, unused_imports, missing_docs)]
use super::*;
use crate::verif_lib::*;

const NW: usize = 4; // words per call (symbolic 1..=NW); callers in the crate use 3..=25 words, one loop body per word

macro_rules! case_read {
    ($case:ident, $f:ident, $T:ty, $SZ:expr, $from:ident, $msg:literal, $msg2:literal) => {
        fn $case(nmin: usize) {
            let bytes: [u8; $SZ * NW] = any();
            let prior: [$T; NW + 1] = any();
            let n: usize = any();
            let at: usize = any(); // the destination is the sub-slice starting at word `at` of a longer array
            assume(n >= nmin && n <= NW && at <= 1);
            vcover!(n == NW && at == 1, "longest, destination is a shifted sub-slice");
            vcover!(n == nmin, "shortest");
            let mut words = prior;
            $f(&mut words[at..at + n], &bytes[..$SZ * n]);
            // source word j (constant index) lands in words[at + j]
            let mut j = 0;
            while j < NW {
                if j < n {
                    let mut b = [0u8; $SZ];
                    let mut k = 0;
                    while k < $SZ {
                        b[k] = bytes[$SZ * j + k];
                        k += 1;
                    }
                    vassert!(words[at + j] == <$T>::$from(b), $msg);
                }
                j += 1;
            }
            let mut i = 0;
            while i < NW + 1 {
                if i < at || i >= at + n {
                    vassert!(words[i] == prior[i], $msg2);
                }
                i += 1;
            }
        }
    };
}
case_read!(case_read_u64v_le, read_u64v_le, u64, 8, from_le_bytes, "read_u64v_le: word i = little-endian bytes 8i..8i+8", "read_u64v_le: words outside the destination untouched");
case_read!(case_read_u64v_be, read_u64v_be, u64, 8, from_be_bytes, "read_u64v_be: word i = big-endian bytes 8i..8i+8", "read_u64v_be: words outside the destination untouched");
case_read!(case_read_u32v_le, read_u32v_le, u32, 4, from_le_bytes, "read_u32v_le: word i = little-endian bytes 4i..4i+4", "read_u32v_le: words outside the destination untouched");
case_read!(case_read_u32v_be, read_u32v_be, u32, 4, from_be_bytes, "read_u32v_be: word i = big-endian bytes 4i..4i+4", "read_u32v_be: words outside the destination untouched");

macro_rules! case_write {
    ($case:ident, $f:ident, $T:ty, $SZ:expr, $to:ident, $msg:literal, $msg2:literal) => {
        fn $case(nmin: usize) {
            let words: [$T; NW + 1] = any();
            let prior: [u8; $SZ * NW + 1] = any();
            let n: usize = any();
            let at: usize = any(); // the source is the sub-slice starting at word `at` of a longer array
            assume(n >= nmin && n <= NW && at <= 1);
            vcover!(n == NW && at == 1, "longest, source is a shifted sub-slice");
            vcover!(n == nmin, "shortest");
            let mut bytes = prior;
            $f(&mut bytes[..$SZ * n], &words[at..at + n]);
            // byte i (constant index) comes from source word i / SZ, byte i % SZ of it
            let mut i = 0;
            while i < $SZ * NW + 1 {
                if i < $SZ * n {
                    let b = words[at + i / $SZ].$to();
                    vassert!(bytes[i] == b[i % $SZ], $msg);
                } else {
                    vassert!(bytes[i] == prior[i], $msg2);
                }
                i += 1;
            }
        }
    };
}
case_write!(case_write_u64v_le, write_u64v_le, u64, 8, to_le_bytes, "write_u64v_le: bytes 8i..8i+8 = word i little-endian", "write_u64v_le: bytes outside the destination untouched");
case_write!(case_write_u64v_be, write_u64v_be, u64, 8, to_be_bytes, "write_u64v_be: bytes 8i..8i+8 = word i big-endian", "write_u64v_be: bytes outside the destination untouched");
case_write!(case_write_u32v_le, write_u32v_le, u32, 4, to_le_bytes, "write_u32v_le: bytes 4i..4i+4 = word i little-endian", "write_u32v_le: bytes outside the destination untouched");
case_write!(case_write_u32v_be, write_u32v_be, u32, 4, to_be_bytes, "write_u32v_be: bytes 4i..4i+4 = word i big-endian", "write_u32v_be: bytes outside the destination untouched");

#[cfg_attr(kani, kani::proof)]
#[cfg_attr(kani, kani::unwind(36))]
pub(crate) fn c20_misc_read_u64v() {
    case_read_u64v_le(1);
    case_read_u64v_be(1);
}
#[cfg_attr(kani, kani::proof)]
#[cfg_attr(kani, kani::unwind(36))]
pub(crate) fn c20_misc_read_u32v() {
    case_read_u32v_le(1);
    case_read_u32v_be(1);
}
#[cfg_attr(kani, kani::proof)]
#[cfg_attr(kani, kani::unwind(36))]
pub(crate) fn c20_misc_write_u64v() {
    case_write_u64v_le(0);
    case_write_u64v_be(0);
}
#[cfg_attr(kani, kani::proof)]
#[cfg_attr(kani, kani::unwind(36))]
pub(crate) fn c20_misc_write_u32v() {
    case_write_u32v_le(0);
    case_write_u32v_be(0);
}

/// n = 0: both slices empty — legal by the helpers' own length assertion (0 * SZ == 0).
/// LATENT DEFECT, reported but NOT part of the C20 claim (name outside every property prefix, so no check selects it):
/// read_*v_* start with `dst.get_unchecked_mut(0)` / `input.get_unchecked(0)`, which is undefined behaviour on an empty slice.
/// Kani: "get_unchecked: Rust intrinsic assumption failed" + "dereference failure: pointer invalid"; natively a build with debug
/// assertions aborts ("unsafe precondition(s) violated: slice::get_unchecked_mut requires that the index is within the slice",
/// non-unwinding panic), a release build returns.  cryptoutil is a private module and every call site in the crate passes
/// fixed-size non-empty arrays (sha1/sha2/ripemd160: 16 words, sha3: 25, blake2: 16), so no public operation reaches it.
/// To make it part of C20 rename to c20_misc_read_v_empty and list it in known_findings.txt.
#[cfg_attr(kani, kani::proof)]
#[cfg_attr(kani, kani::unwind(6))]
pub(crate) fn zz_latent_cryptoutil_read_v_empty() {
    let prior64: [u64; 2] = any();
    let prior32: [u32; 2] = any();
    let bytes: [u8; 4] = any();
    let at: usize = any();
    assume(at <= 2);
    let mut w64 = prior64;
    let mut w32 = prior32;
    read_u64v_le(&mut w64[at..at], &bytes[at..at]);
    read_u64v_be(&mut w64[at..at], &bytes[at..at]);
    read_u32v_le(&mut w32[at..at], &bytes[at..at]);
    read_u32v_be(&mut w32[at..at], &bytes[at..at]);
    vassert!(w64[0] == prior64[0] && w64[1] == prior64[1] && w32[0] == prior32[0] && w32[1] == prior32[1], "read_*v_* on empty slices: nothing written");
}

// ---- length mismatch is refused (symbolic lengths) ------------------------------------------------------------------
fn mismatch(sz: usize) -> (usize, usize) {
    let n: usize = any(); // words
    let m: usize = any(); // bytes
    assume(n <= NW && m <= 8 * NW + 2 && m != sz * n);
    vcover!(m + 1 == sz * n, "one byte short");
    vcover!(m == sz * n + 1, "one byte too many");
    vcover!(n == 0 && m > 0, "no words, some bytes");
    vcover!(m == 0 && n > 0, "no bytes, some words");
    (n, m)
}
#[cfg_attr(kani, kani::proof)]
#[cfg_attr(kani, kani::should_panic)]
#[cfg_attr(kani, kani::unwind(36))]
pub(crate) fn c20_misc_read_u64v_le_mismatch_panics() {
    let (n, m) = mismatch(8);
    let bytes: [u8; 8 * NW + 2] = any();
    let mut words = [0u64; NW];
    read_u64v_le(&mut words[..n], &bytes[..m]);
    vcover!(true, "MUST-NOT: read_u64v_le returned although input.len() != 8 * dst.len()");
}
#[cfg_attr(kani, kani::proof)]
#[cfg_attr(kani, kani::should_panic)]
#[cfg_attr(kani, kani::unwind(36))]
pub(crate) fn c20_misc_read_u64v_be_mismatch_panics() {
    let (n, m) = mismatch(8);
    let bytes: [u8; 8 * NW + 2] = any();
    let mut words = [0u64; NW];
    read_u64v_be(&mut words[..n], &bytes[..m]);
    vcover!(true, "MUST-NOT: read_u64v_be returned although input.len() != 8 * dst.len()");
}
#[cfg_attr(kani, kani::proof)]
#[cfg_attr(kani, kani::should_panic)]
#[cfg_attr(kani, kani::unwind(36))]
pub(crate) fn c20_misc_read_u32v_le_mismatch_panics() {
    let (n, m) = mismatch(4);
    let bytes: [u8; 8 * NW + 2] = any();
    let mut words = [0u32; NW];
    read_u32v_le(&mut words[..n], &bytes[..m]);
    vcover!(true, "MUST-NOT: read_u32v_le returned although input.len() != 4 * dst.len()");
}
#[cfg_attr(kani, kani::proof)]
#[cfg_attr(kani, kani::should_panic)]
#[cfg_attr(kani, kani::unwind(36))]
pub(crate) fn c20_misc_read_u32v_be_mismatch_panics() {
    let (n, m) = mismatch(4);
    let bytes: [u8; 8 * NW + 2] = any();
    let mut words = [0u32; NW];
    read_u32v_be(&mut words[..n], &bytes[..m]);
    vcover!(true, "MUST-NOT: read_u32v_be returned although input.len() != 4 * dst.len()");
}
#[cfg_attr(kani, kani::proof)]
#[cfg_attr(kani, kani::should_panic)]
#[cfg_attr(kani, kani::unwind(36))]
pub(crate) fn c20_misc_write_u64v_le_mismatch_panics() {
    let (n, m) = mismatch(8);
    let words: [u64; NW] = any();
    let mut bytes = [0u8; 8 * NW + 2];
    write_u64v_le(&mut bytes[..m], &words[..n]);
    vcover!(true, "MUST-NOT: write_u64v_le returned although dst.len() != 8 * input.len()");
}
#[cfg_attr(kani, kani::proof)]
#[cfg_attr(kani, kani::should_panic)]
#[cfg_attr(kani, kani::unwind(36))]
pub(crate) fn c20_misc_write_u64v_be_mismatch_panics() {
    let (n, m) = mismatch(8);
    let words: [u64; NW] = any();
    let mut bytes = [0u8; 8 * NW + 2];
    write_u64v_be(&mut bytes[..m], &words[..n]);
    vcover!(true, "MUST-NOT: write_u64v_be returned although dst.len() != 8 * input.len()");
}
#[cfg_attr(kani, kani::proof)]
#[cfg_attr(kani, kani::should_panic)]
#[cfg_attr(kani, kani::unwind(36))]
pub(crate) fn c20_misc_write_u32v_le_mismatch_panics() {
    let (n, m) = mismatch(4);
    let words: [u32; NW] = any();
    let mut bytes = [0u8; 8 * NW + 2];
    write_u32v_le(&mut bytes[..m], &words[..n]);
    vcover!(true, "MUST-NOT: write_u32v_le returned although dst.len() != 4 * input.len()");
}
#[cfg_attr(kani, kani::proof)]
#[cfg_attr(kani, kani::should_panic)]
#[cfg_attr(kani, kani::unwind(36))]
pub(crate) fn c20_misc_write_u32v_be_mismatch_panics() {
    let (n, m) = mismatch(4);
    let words: [u32; NW] = any();
    let mut bytes = [0u8; 8 * NW + 2];
    write_u32v_be(&mut bytes[..m], &words[..n]);
    vcover!(true, "MUST-NOT: write_u32v_be returned although dst.len() != 4 * input.len()");
}

// ---- single-word helpers: exact length or refusal -------------------------------------------------------------------
#[cfg_attr(kani, kani::proof)]
#[cfg_attr(kani, kani::unwind(14))]
pub(crate) fn c20_misc_single_word_helpers() {
    let b: [u8; 12] = any();
    let prior: [u8; 12] = any();
    let at: usize = any();
    let v32: u32 = any();
    let v64: u64 = any();
    assume(at <= 4);
    vcover!(at == 4, "last position");
    vassert!(read_u32_le(&b[at..at + 4]) == u32::from_le_bytes([b[at], b[at + 1], b[at + 2], b[at + 3]]), "read_u32_le: little-endian value of the 4 bytes");
    let mut o = prior;
    write_u32_le(&mut o[at..at + 4], v32);
    let mut p = prior;
    write_u32_be(&mut p[at..at + 4], v32);
    let mut q = prior;
    write_u64_le(&mut q[at..at + 8], v64);
    let mut i = 0;
    while i < 12 {
        if i >= at && i < at + 4 {
            vassert!(o[i] == v32.to_le_bytes()[i - at], "write_u32_le: 4 little-endian bytes");
            vassert!(p[i] == v32.to_be_bytes()[i - at], "write_u32_be: 4 big-endian bytes");
        } else {
            vassert!(o[i] == prior[i] && p[i] == prior[i], "write_u32_*: bytes outside the destination untouched");
        }
        if i >= at && i < at + 8 {
            vassert!(q[i] == v64.to_le_bytes()[i - at], "write_u64_le: 8 little-endian bytes");
        } else {
            vassert!(q[i] == prior[i], "write_u64_le: bytes outside the destination untouched");
        }
        i += 1;
    }
}
fn badlen(legal: usize) -> usize {
    let l: usize = any();
    assume(l <= 12 && l != legal);
    vcover!(l + 1 == legal, "one below");
    vcover!(l == legal + 1, "one above");
    vcover!(l == 0, "empty");
    l
}
#[cfg_attr(kani, kani::proof)]
#[cfg_attr(kani, kani::should_panic)]
#[cfg_attr(kani, kani::unwind(14))]
pub(crate) fn c20_misc_read_u32_le_badlen_panics() {
    let l = badlen(4);
    let b: [u8; 12] = any();
    let _ = read_u32_le(&b[..l]);
    vcover!(true, "MUST-NOT: read_u32_le returned for an input that is not 4 bytes");
}
#[cfg_attr(kani, kani::proof)]
#[cfg_attr(kani, kani::should_panic)]
#[cfg_attr(kani, kani::unwind(14))]
pub(crate) fn c20_misc_write_u32_le_badlen_panics() {
    let l = badlen(4);
    let mut b = [0u8; 12];
    write_u32_le(&mut b[..l], 1);
    vcover!(true, "MUST-NOT: write_u32_le returned for a destination that is not 4 bytes");
}
#[cfg_attr(kani, kani::proof)]
#[cfg_attr(kani, kani::should_panic)]
#[cfg_attr(kani, kani::unwind(14))]
pub(crate) fn c20_misc_write_u32_be_badlen_panics() {
    let l = badlen(4);
    let mut b = [0u8; 12];
    write_u32_be(&mut b[..l], 1);
    vcover!(true, "MUST-NOT: write_u32_be returned for a destination that is not 4 bytes");
}
#[cfg_attr(kani, kani::proof)]
#[cfg_attr(kani, kani::should_panic)]
#[cfg_attr(kani, kani::unwind(14))]
pub(crate) fn c20_misc_write_u64_le_badlen_panics() {
    let l = badlen(8);
    let mut b = [0u8; 12];
    write_u64_le(&mut b[..l], 1);
    vcover!(true, "MUST-NOT: write_u64_le returned for a destination that is not 8 bytes");
}

// ---- zero / xor_array64_mut -------------------------------------------------------------------------------------------
/// zero(dst): every byte of dst becomes 0, nothing else is written; every start / length inside a 24-byte buffer
#[cfg_attr(kani, kani::proof)]
#[cfg_attr(kani, kani::unwind(26))]
pub(crate) fn c20_misc_zero() {
    let prior: [u8; 24] = any();
    let s: usize = any();
    let n: usize = any();
    assume(s <= 24 && n <= 24 - s);
    vcover!(n == 0 && s == 24, "empty slice at the very end");
    vcover!(n == 24, "whole buffer");
    vcover!(s == 5 && n == 7, "strict sub-slice");
    let mut b = prior;
    zero(&mut b[s..s + n]);
    let mut i = 0;
    while i < 24 {
        if i >= s && i < s + n {
            vassert!(b[i] == 0, "zero: every byte of the slice is 0");
        } else {
            vassert!(b[i] == prior[i], "zero: bytes outside the slice untouched");
        }
        i += 1;
    }
}
#[cfg_attr(kani, kani::proof)]
#[cfg_attr(kani, kani::unwind(8))]
pub(crate) fn c20_misc_xor_array64() {
    let a: [u64; 5] = any();
    let b: [u64; 5] = any();
    let mut l = a;
    xor_array64_mut(&mut l, &b);
    let mut i = 0;
    while i < 5 {
        vassert!(l[i] == a[i] ^ b[i], "xor_array64_mut: lhs[i] ^= rhs[i]");
        i += 1;
    }
    let mut e: [u64; 0] = [];
    xor_array64_mut(&mut e, &[]);
}
