"""Poly1305 (C05) and ChaCha20-Poly1305 (C06, C07) harness families."""
import os, sys
sys.path.insert(0, os.path.dirname(os.path.dirname(os.path.abspath(__file__))))
import mirsym_extra
OVERLAYS = [
    ("src/poly1305.rs", "verif_poly", "poly1305.rs", None, "crate::poly1305"),
    ("src/chacha20poly1305.rs", "verif_aead", "aead.rs", None, "crate::chacha20poly1305"),
]
PROPS = {
    "C05": dict(
        prefixes=["c05_"],
        level="model_checking",
        bounds="new: all 2^256 keys; input: one call from an ARBITRARY context (leftover 0..=15, any buffer/accumulator) with data of symbolic length 0..=48; "
               "finish: all accumulators in the limb invariant I_h (h0,h2,h3,h4 < 2^26, h1 < 2^26+2^7) x all pads, all staged lengths 0..=15",
        outside="input() lengths > 48 in ONE call (more blocks of the same loop); composition of the step lemmas into 'tag == RFC 8439 polynomial' is the two-line induction "
                "of DESIGN.md 4/C05",
        assumptions=["stub (input/finish framing harnesses): Poly1305::block -> recorder logging its 16 message bytes and the finalized flag, returning an arbitrary accumulator",
                     "limb invariant I_h assumed for finish (new/reset give 0; block() re-establishes it: mirsym obligation)"],
        trusted=["spec_tag(): 128-bit reference of ((sum h_i 2^26i) mod 2^130-5) + s in harness/incrate/poly1305.rs"],
        explanation="Poly1305 decomposed into clamp/limb split, staging-buffer step, final-block framing and final reduction; each decided by CBMC on the real code",
        level_text="Clamping and limb split for every key; the 16-byte staging buffer as one inductive step from an arbitrary context (so every chunking feeds "
                   "block() the same 16-byte sequence); final partial-block framing (0x01 marker, zero fill, hibit off); final carry / conditional subtraction "
                   "of 2^130-5 / + s mod 2^128 for EVERY accumulator in the limb invariant (all values in [p, 2^130) included) against a 128-bit reference.",
        level_note="block() is decided by the mirsym engine (z3 over a polynomial encoding of its MIR) for all accumulators in I_h, all clamped r, all 16-byte blocks: "
                   "no overflow in any checked operation, I_h preserved, value congruence mod 2^130-5. input() step bound: 48 bytes per call.",
        extra=[mirsym_extra.make_extra("C05")],
    ),
}

_AEAD_ASSUME = [
    "stubs (recorders): <Poly1305 as Mac>::input / raw_result, ChaCha::process / process_mut -> loop-free event loggers; their own semantics are C05 / C03 / C04",
    "arbitrary context: cipher offset <= 64, MAC leftover < 16, limb invariants of C05, aad_len/data_len < 2^62 (so the u64 counters cannot wrap)",
]
PROPS["C06"] = dict(
    prefixes=["c06_"],
    level="model_checking",
    bounds="one API operation from an ARBITRARY context (any cipher position, any MAC state, any 64-bit length counters < 2^62); data/AAD pieces of symbolic "
           "length 0..=40 (one-shot: 0..=24); keys 16 and 32 bytes, all nonces",
    outside="the primitives themselves (C03/C04/C05); byte values of ciphertext are not recomputed here: the harness shows WHICH buffer goes through the cipher and the MAC, "
            "in which order, with which lengths; composition with C04/C05 gives the RFC 8439 bytes (stated argument, DESIGN.md 4/C06)",
    assumptions=_AEAD_ASSUME,
    trusted=[],
    explanation="event-sequence harnesses: the AEAD layer is checked to issue exactly RFC 8439's sequence of cipher and MAC calls from every state",
    level_text="Context::new (one-time key = first 32 bytes of block 0, cipher left at block 1, for 16- and 32-byte keys), add_data, pad16 on both phase changes, "
               "encrypt/encrypt_mut/decrypt/decrypt_mut (cipher-then-MAC vs MAC-then-cipher, exact buffers and lengths), finalize (ciphertext padding, little-endian "
               "aad_len||data_len trailer, tag = MAC output) and the one-shot wrappers are each decided by CBMC as one step from an arbitrary context.",
    level_note="Primitives recorded, not executed (they are C03-C05). Piece lengths <= 40 per call; any number of calls by induction over the arbitrary context.",
)
PROPS["C07"] = dict(
    prefixes=["c07_", "c18_tag_eq", "c06_decrypt", "c06_to_decryption"],
    level="model_checking",
    bounds="all 2^128 x 2^128 (computed tag, supplied tag) pairs; arbitrary context; received ciphertext piece 0..=24 bytes for the one-shot path",
    outside="that a change of key/nonce/AAD/ciphertext changes the Poly1305 value is the cryptographic assumption of the MAC, not a solver-decidable statement; what is decided: "
            "the MAC input framing is the RFC's (C06) and the verdict is exactly 16-byte equality with the recomputed tag",
    assumptions=_AEAD_ASSUME,
    trusted=[],
    explanation="the verdict of both decryption interfaces equals byte-wise equality of the supplied tag with the tag computed over the received ciphertext",
    level_text="ContextDecryption::finalize and one-shot decrypt: with the computed tag an ARBITRARY 16 bytes (recorded MAC), the verdict is Match/true exactly when all "
               "16 supplied bytes equal it (kills always-true, prefix-only, lane-folding comparisons); MAC is taken over the received ciphertext before decryption; "
               "Tag == Tag at full width.",
    level_note="Poly1305 collision resistance is assumed, not checked. Framing obligations are shared with C06.",
)
