#!/usr/bin/env python3
"""Appends `vcover!(true, "witness: end of harness reached");` to every non-should_panic proof harness of the given files
(idempotent).  The runner switches Kani's per-assertion reachability checks off, so a harness whose assertions became
unreachable (over-strong assume, diverging stub) would pass silently; this witness makes such a run inconclusive."""
import re, sys
LINE = '    vcover!(true, "witness: end of harness reached");\n'
PAT = re.compile(r"((?:^[ \t]*#\[[^\n]*\]\s*\n)+)pub\(crate\) fn ([a-z][a-z0-9_]*)\(\) \{\n(.*?)^\}\n", re.M | re.S)


def process(txt):
    def rep(m):
        attrs, name, body = m.group(1), m.group(2), m.group(3)
        if "kani::proof" not in attrs or "kani::should_panic" in attrs or LINE in body:
            return m.group(0)
        return "%spub(crate) fn %s() {\n%s%s}\n" % (attrs, name, body, LINE)
    return PAT.sub(rep, txt)


if __name__ == "__main__":
    for p in sys.argv[1:]:
        s = open(p).read()
        t = process(s)
        if t != s:
            open(p, "w").write(t)
            print("updated", p)
