#!/usr/bin/env python3
"""Run every harness natively on the CLEAN tree with a few fixed byte streams: a twin that fails here is a harness bug
(it would turn a spurious solver result into a false VIOLATION). Not a check of the repository: a self-test of /verif."""
import os, sys, subprocess, random
sys.path.insert(0, "/verif/runner")
import overlay, kanirun
base = overlay.make_scratch("selftest")
bad = []
try:
    exe, out = kanirun.native_build(base, [], "dev")
    if not exe:
        print("native build failed:\n", out[-3000:]); sys.exit(2)
    hs = overlay.all_harnesses()
    rnd = random.Random(7)
    streams = [bytes(4096), bytes([0xff]) * 4096, bytes(rnd.randrange(256) for _ in range(4096))]
    for name, h in sorted(hs.items()):
        for i, st in enumerate(streams):
            v, msg = kanirun.native_replay(base, name, st, [], "dev")
            ok = v in ("assume-violated", "underrun") or (v == "panicked") == bool(h["should_panic"])
            if not ok:
                bad.append((name, i, v, msg[:160]))
    for b in bad:
        print("SELFTEST-FAIL", b)
    print("harnesses", len(hs), "failures", len(bad))
finally:
    overlay.remove_scratch(base)
sys.exit(1 if bad else 0)
