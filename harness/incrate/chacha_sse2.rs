// SSE2 ChaCha engine (src/chacha/sse2.rs) — the engine the crate uses on x86-64.
// Stub (listed in evidence): core::arch::x86_64::_mm_add_epi32 -> lane-wise wrapping add, because Kani 0.68 puts a
// spurious overflow assertion into simd_add; the model is exercised natively against the real instruction by the replay.
#![allow(dead_code, unused_imports, missing_docs)]
use super::*;
use crate::chacha::verif_chacha::*;
use crate::verif_lib::*;

pub(crate) fn to_words<const R: usize>(s: &State<R>) -> [u32; 16] {
    let a: [u32; 4] = unsafe { core::mem::transmute(s.a) };
    let b: [u32; 4] = unsafe { core::mem::transmute(s.b) };
    let c: [u32; 4] = unsafe { core::mem::transmute(s.c) };
    let d: [u32; 4] = unsafe { core::mem::transmute(s.d) };
    [a[0], a[1], a[2], a[3], b[0], b[1], b[2], b[3], c[0], c[1], c[2], c[3], d[0], d[1], d[2], d[3]]
}
pub(crate) fn from_words<const R: usize>(w: [u32; 16]) -> State<R> {
    unsafe {
        State {
            a: core::mem::transmute([w[0], w[1], w[2], w[3]]),
            b: core::mem::transmute([w[4], w[5], w[6], w[7]]),
            c: core::mem::transmute([w[8], w[9], w[10], w[11]]),
            d: core::mem::transmute([w[12], w[13], w[14], w[15]]),
        }
    }
}
impl_eng!(State<R>);

#[cfg_attr(kani, kani::proof)]
#[cfg_attr(kani, kani::unwind(18))]
pub(crate) fn c03_sse2_init_k32() {
    case_init::<State<20>, 32>();
}
#[cfg_attr(kani, kani::proof)]
#[cfg_attr(kani, kani::unwind(18))]
pub(crate) fn c03_sse2_init_k16() {
    case_init::<State<20>, 16>();
}
#[cfg_attr(kani, kani::proof)]
#[cfg_attr(kani, kani::unwind(18))]
#[cfg_attr(kani, kani::stub(core::arch::x86_64::_mm_add_epi32, crate::verif_lib::mm_add_epi32_model))]
pub(crate) fn c03_sse2_double_round() {
    case_rounds::<State<2>>(1);
}
#[cfg_attr(kani, kani::proof)]
#[cfg_attr(kani, kani::unwind(18))]
#[cfg_attr(kani, kani::stub(core::arch::x86_64::_mm_add_epi32, crate::verif_lib::mm_add_epi32_model))]
pub(crate) fn c03_sse2_rounds_r4() {
    case_rounds::<State<4>>(2);
}
#[cfg_attr(kani, kani::proof)]
#[cfg_attr(kani, kani::unwind(18))]
pub(crate) fn c03_sse2_counters() {
    case_counters::<State<20>>();
}
#[cfg_attr(kani, kani::proof)]
#[cfg_attr(kani, kani::unwind(66))]
#[cfg_attr(kani, kani::stub(core::arch::x86_64::_mm_add_epi32, crate::verif_lib::mm_add_epi32_model))]
pub(crate) fn c03_sse2_addback_output() {
    case_addback_output::<State<20>>();
}
#[cfg_attr(kani, kani::proof)]
#[cfg_attr(kani, kani::unwind(66))]
#[cfg_attr(kani, kani::stub(core::arch::x86_64::_mm_add_epi32, crate::verif_lib::mm_add_epi32_model))]
pub(crate) fn c03_t_sse2_block_r8() {
    case_block::<State<8>>(4);
}
